#!/usr/bin/env python
'''C08 demo 2: a deck with PERIODIC boundary surfaces stops the conversion with
a bare KeyError; no TRIPOLI-4 file is written.

On an MCNP surface card the second entry is either the number of a TR card
(n > 0) or, if negative, the number of the surface with which this surface is
periodic (``1 -2 px 5``: surface 1 is periodic with surface 2).  The converter
looks up the negative number in the table of TR cards.

Run from the root of the tree:
    PYTHONPATH=/tmp/t4shim:<tree> /venv/bin/python demo_2.py
Exit status 1 + a line starting with FAIL if the defect is present; exit status
0 + PASS if the converter behaves correctly: either it refuses the deck with a
clear, deliberate message, or it writes a structurally valid TRIPOLI-4 file
(property C08) where the planes are where the deck puts them.
'''
import contextlib
import io
import math
import re
import sys
import tempfile
import warnings
from pathlib import Path

DECK = '''periodic boundary conditions
1 1 -1.0 -1 2 -3 4 -5 6 imp:n=1
2 0 1:-2:3:-4:5:-6 imp:n=0

1 -2 px 5
2 -1 px -5
3 -4 py 5
4 -3 py -5
*5 pz 5
*6 pz -5

m1 1001 2 8016 1
'''
OPTIONS = []

NPARAMS = {'PLANEX': 1, 'PLANEY': 1, 'PLANEZ': 1, 'PLANE': 4, 'SPHERE': 4,
           'CYLX': 3, 'CYLY': 3, 'CYLZ': 3, 'CYL': 7, 'CONEX': 4, 'CONEY': 4,
           'CONEZ': 4, 'CONE': 7, 'QUAD': 10, 'TORUSX': 6, 'TORUSY': 6,
           'TORUSZ': 6}


def parse_t4(text):
    '''Parse the file written by the converter; return the parsed items and
    the list of structural errors (property C08).'''
    errors = []
    lines = [line.split('//')[0].strip() for line in text.splitlines()]
    surfs, vols, compos, geomcomp, bcs = {}, {}, [], [], []
    compo_count = bc_count = None

    def number(tok, where):
        try:
            val = float(tok)
        except ValueError:
            errors.append(f'{where}: {tok!r} is not a number')
            return None
        if not math.isfinite(val):
            errors.append(f'{where}: {tok!r} is not finite')
        return val

    def integer(tok, where):
        if not re.fullmatch(r'\d+', tok):
            errors.append(f'{where}: {tok!r} is not an integer')
            return None
        return int(tok)

    i = 0
    while i < len(lines):
        toks = lines[i].split()
        i += 1
        if not toks:
            continue
        if toks[0] == 'SURF':
            key = integer(toks[1], 'SURF')
            rest = toks[2:]
            if rest[0] == 'TRANSFORM':
                rest = rest[2:]
            if key in surfs:
                errors.append(f'surface {key} is defined twice')
            if rest[0] not in NPARAMS or len(rest) - 1 != NPARAMS[rest[0]]:
                errors.append(f'SURF {key}: malformed definition {rest}')
            surfs[key] = (rest[0], [number(t, f'SURF {key}')
                                    for t in rest[1:]])
        elif toks[0] == 'TRANSFORM':
            for tok in toks[3:]:
                number(tok, f'TRANSFORM {toks[1]}')
        elif toks[0] == 'VOLU':
            key = integer(toks[1], 'VOLU')
            if key in vols:
                errors.append(f'volume {key} is defined twice')
            vol = {'PLUS': [], 'MINUS': [], 'UNION': [], 'INTE': [],
                   'FICTIVE': False}
            rest = toks[3:-1]
            if toks[2] != 'EQUA' or toks[-1] != 'ENDV':
                errors.append(f'VOLU {key}: malformed')
            pos = 0
            while pos < len(rest):
                word = rest[pos]
                if word == 'FICTIVE':
                    vol['FICTIVE'] = True
                    pos += 1
                    continue
                if word not in ('PLUS', 'MINUS', 'UNION', 'INTE'):
                    errors.append(f'VOLU {key}: unexpected {word!r}')
                    pos += 1
                    continue
                count = integer(rest[pos + 1], f'VOLU {key} {word}')
                pos += 2
                ids = []
                while pos < len(rest) and re.fullmatch(r'[-+.\deE]+',
                                                       rest[pos]):
                    ids.append(integer(rest[pos], f'VOLU {key} {word}'))
                    pos += 1
                if count != len(ids):
                    errors.append(f'VOLU {key}: {word} declares {count} '
                                  f'items, {len(ids)} follow')
                vol[word] = ids
            vols[key] = vol
        elif toks[0] == 'COMPOSITION':
            ctoks = []
            while i < len(lines) and lines[i] != 'END_COMPOSITION':
                ctoks.extend(lines[i].split())
                i += 1
            i += 1
            compo_count = integer(ctoks[0], 'COMPOSITION')
            pos = 1
            while pos < len(ctoks):
                if ctoks[pos] == 'POINT_WISE':
                    name = ctoks[pos + 2]
                    pos += 3
                elif ctoks[pos] == 'DENSITY':
                    name = ctoks[pos + 2]
                    number(ctoks[pos + 3], f'composition {name}')
                    pos += 4
                    if ctoks[pos] == 'NB_ATOM':
                        pos += 1
                else:
                    errors.append('COMPOSITION: unexpected token '
                                  f'{ctoks[pos]!r}')
                    break
                count = integer(ctoks[pos], f'composition {name}')
                pos += 1
                n_read = 0
                while (pos + 1 < len(ctoks)
                       and ctoks[pos] not in ('POINT_WISE', 'DENSITY')):
                    number(ctoks[pos + 1], f'composition {name}')
                    n_read += 1
                    pos += 2
                if count != n_read:
                    errors.append(f'composition {name} declares {count} '
                                  f'nuclides, {n_read} follow')
                compos.append(name)
        elif toks[0] == 'GEOMCOMP':
            while i < len(lines) and lines[i] != 'END_GEOMCOMP':
                gtoks = lines[i].split()
                i += 1
                if not gtoks:
                    continue
                ids = [integer(t, f'GEOMCOMP {gtoks[0]}') for t in gtoks[2:]]
                if integer(gtoks[1], f'GEOMCOMP {gtoks[0]}') != len(ids):
                    errors.append(f'GEOMCOMP {gtoks[0]}: wrong count')
                geomcomp.append((gtoks[0], ids))
            i += 1
        elif toks[0] == 'BOUNDARY_CONDITION':
            bc_count = integer(lines[i], 'BOUNDARY_CONDITION')
            i += 1
            while i < len(lines) and lines[i] != 'END_BOUNDARY_CONDITION':
                btoks = lines[i].split()
                i += 1
                if btoks:
                    bcs.append((btoks[1], integer(btoks[2], 'BC')))
            i += 1
    # cross references
    for key, vol in vols.items():
        for word in ('PLUS', 'MINUS'):
            for surf in vol[word]:
                if surf not in surfs:
                    errors.append(f'VOLU {key}: surface {surf} is not '
                                  'defined')
        both = set(vol['PLUS']) & set(vol['MINUS'])
        if both:
            errors.append(f'VOLU {key}: surfaces {sorted(both)} on both sides')
        for word in ('UNION', 'INTE'):
            for other in vol[word]:
                if other not in vols:
                    errors.append(f'VOLU {key}: volume {other} is not '
                                  'defined')
    if compo_count is None:
        errors.append('no COMPOSITION block')
    elif compo_count != len(compos):
        errors.append(f'COMPOSITION declares {compo_count} compositions, '
                      f'{len(compos)} are written')
    assigned = {}
    for name, ids in geomcomp:
        if name not in compos:
            errors.append(f'GEOMCOMP: composition {name} is not defined')
        for vol in ids:
            if vol not in vols:
                errors.append(f'GEOMCOMP {name}: volume {vol} is not defined')
            assigned.setdefault(vol, []).append(name)
    for key, vol in vols.items():
        if not vol['FICTIVE'] and len(assigned.get(key, [])) != 1:
            errors.append(f'non-virtual volume {key} is assigned to '
                          f'{len(assigned.get(key, []))} compositions')
    if bc_count is not None and bc_count != len(bcs):
        errors.append('BOUNDARY_CONDITION: wrong count')
    for _, surf in bcs:
        if surf not in surfs:
            errors.append(f'BOUNDARY_CONDITION: surface {surf} is not '
                          'defined')
    return {'surfs': surfs, 'vols': vols, 'compos': compos,
            'assigned': assigned, 'bcs': bcs}, errors


def side(surf, point):
    '''Return +1 if `point` is on the positive side of the T4 surface.'''
    typ, par = surf
    x, y, z = point
    if typ == 'PLANEX':
        val = x - par[0]
    elif typ == 'PLANEY':
        val = y - par[0]
    elif typ == 'PLANEZ':
        val = z - par[0]
    elif typ == 'PLANE':
        val = par[0] * x + par[1] * y + par[2] * z + par[3]
    elif typ == 'SPHERE':
        val = ((x - par[0])**2 + (y - par[1])**2 + (z - par[2])**2
               - par[3]**2)
    else:
        raise ValueError(f'surface type {typ} not handled by this demo')
    return 1 if val > 0 else -1


def inside(parsed, key, point):
    '''Is `point` inside T4 volume `key`?'''
    vol = parsed['vols'][key]
    equa = (all(side(parsed['surfs'][s], point) > 0 for s in vol['PLUS'])
            and all(side(parsed['surfs'][s], point) < 0
                    for s in vol['MINUS']))
    if vol['UNION']:
        return equa or any(inside(parsed, other, point)
                           for other in vol['UNION'])
    return equa and all(inside(parsed, other, point) for other in vol['INTE'])


def run_converter(deck, options):
    '''Write the deck to a temporary directory and convert it; return the text
    of the TRIPOLI-4 file.'''
    from t4_geom_convert.main import parse_args, conversion
    with tempfile.TemporaryDirectory() as tmp:
        deck_path = Path(tmp) / 'deck.imcnp'
        out_path = Path(tmp) / 'deck.t4'
        deck_path.write_text(deck)
        args = parse_args([str(deck_path), '-o', str(out_path)] + options)
        with contextlib.redirect_stdout(io.StringIO()):
            conversion(args)
        return out_path.read_text()


def is_deliberate(err):
    '''A clear, deliberate refusal: NotImplementedError or one of the
    project's own exception classes, with a message.'''
    module = type(err).__module__ or ''
    return bool(str(err)) and (isinstance(err, NotImplementedError)
                               or module.startswith(('t4_geom_convert',
                                                     'MIP')))


def main():
    warnings.simplefilter('ignore')
    try:
        text = run_converter(DECK, OPTIONS)
    except Exception as err:  # pylint: disable=broad-except
        if is_deliberate(err):
            print(f'PASS (deliberate refusal: {type(err).__name__}: {err})')
            return 0
        print('FAIL: a deck with periodic surfaces (surface card "1 -2 px 5") '
              f'stops with {type(err).__name__}({str(err)[:100]!r}) instead '
              'of being converted or refused with a clear message')
        return 1
    parsed, errors = parse_t4(text)
    if errors:
        print(f'FAIL: structurally invalid output: {errors[:3]}')
        return 1
    expected = {(0., 0., 0.): 1, (4.9, 4.9, 4.9): 1, (-4.9, -4.9, -4.9): 1,
                (5.1, 0., 0.): 0, (0., -5.1, 0.): 0, (0., 0., 5.1): 0}
    for point, n_expected in expected.items():
        owners = [key for key, vol in parsed['vols'].items()
                  if not vol['FICTIVE'] and inside(parsed, key, point)]
        if len(owners) != n_expected:
            print(f'FAIL: point {point} lies in {len(owners)} non-virtual '
                  f'volumes, expected {n_expected}')
            return 1
        if owners and parsed['assigned'][owners[0]][0] != 'm1_-1.0':
            print(f'FAIL: point {point} is in composition '
                  f'{parsed["assigned"][owners[0]][0]}, expected m1_-1.0')
            return 1
    print('PASS')
    return 0


if __name__ == '__main__':
    sys.exit(main())
