#!/usr/bin/env python
'''C15 demo 1: LIKE n BUT MAT=0 (voiding a copy of a filled-with-material cell).

Cell 2 is "LIKE 1 BUT MAT=0 RHO=0 TRCL=(10 0 0)": the explicit card it
abbreviates is the void cell "2 0 -1 IMP:N=1 TRCL=(10 0 0)".  The converted
volume 2 must therefore get exactly the same (void) composition as the
explicitly void cell 3, and that composition must be defined in the COMPOSITION
block.  We compare the LIKE deck with the explicit deck, and we also check the
LIKE deck on its own.
'''
import os
import re
import subprocess
import sys
import tempfile

DECK = '''LIKE n BUT MAT=0
1 1 -2.0 -1 imp:n=1
{cell2}
3 0 1 2001 -2 imp:n=1
4 0 2 imp:n=0

1 so 2
2 so 50

m1 1001 1
'''

LIKE_VARIANTS = {
    'MAT=0 RHO=0': '2 like 1 but mat=0 rho=0 trcl=(10 0 0)',
    'MAT=0': '2 like 1 but mat=0 trcl=(10 0 0)',
}
EXPLICIT = '2 0 -1 imp:n=1 trcl=(10 0 0)'


def convert(cell2, workdir, name):
    deck = os.path.join(workdir, name + '.imcnp')
    out = os.path.join(workdir, name + '.t4')
    with open(deck, 'w') as fil:
        fil.write(DECK.format(cell2=cell2))
    code = 'from t4_geom_convert.main import main; main()'
    res = subprocess.run([sys.executable, '-c', code, deck, '-o', out],
                         capture_output=True, text=True)
    if res.returncode != 0 or not os.path.exists(out):
        return None, res.stderr.strip().splitlines()[-1:]
    with open(out) as fil:
        return fil.read(), None


def block(text, start, end):
    lines = text.splitlines()
    i = next(k for k, l in enumerate(lines) if l.strip() == start)
    j = next(k for k, l in enumerate(lines) if l.strip() == end)
    return lines[i + 1:j]


def analyse(text):
    '''Return ({volume: composition name}, set of defined compositions).'''
    vol_to_comp = {}
    for line in block(text, 'GEOMCOMP', 'END_GEOMCOMP'):
        tokens = line.split()
        if len(tokens) < 3:
            continue
        name, count, vols = tokens[0], int(tokens[1]), tokens[2:]
        assert count == len(vols), line
        for vol in vols:
            vol_to_comp[int(vol)] = name
    defined = set()
    for line in block(text, 'COMPOSITION', 'END_COMPOSITION'):
        match = re.match(r'\s*(DENSITY|POINT_WISE)\s+\S+\s+(\S+)', line)
        if match:
            defined.add(match.group(2))
    return vol_to_comp, defined


def main():
    failures = []
    with tempfile.TemporaryDirectory() as workdir:
        text, err = convert(EXPLICIT, workdir, 'explicit')
        if text is None:
            print('FAIL: the explicit (reference) deck could not be '
                  f'converted: {err}')
            return 1
        ref_comp, ref_defined = analyse(text)
        assert ref_comp[2] == ref_comp[3] and ref_comp[2] in ref_defined

        for i, (label, cell2) in enumerate(LIKE_VARIANTS.items()):
            text, err = convert(cell2, workdir, f'like{i}')
            if text is None:
                if i == 0:
                    failures.append(f'[{label}] conversion stopped: {err}')
                # the bare MAT=0 spelling is only judged if it is converted
                continue
            comp, defined = analyse(text)
            problems = []
            if comp.get(2) != comp.get(3):
                problems.append(
                    f'volume 2 (LIKE 1 BUT {label}, i.e. a void cell) gets '
                    f'composition {comp.get(2)!r} whereas the explicitly '
                    f'void cell 3 gets {comp.get(3)!r}')
            if comp.get(2) not in defined:
                problems.append(
                    f'composition {comp.get(2)!r} assigned to volume 2 is '
                    f'not defined in the COMPOSITION block {sorted(defined)}')
            if comp.get(2) != ref_comp[2]:
                problems.append(
                    f'the explicit card "{EXPLICIT}" gives composition '
                    f'{ref_comp[2]!r} to volume 2, the LIKE card gives '
                    f'{comp.get(2)!r}')
            if problems:
                failures.append(f'[{label}] ' + '; '.join(problems))

    if failures:
        print('FAIL: LIKE n BUT MAT=0 is not converted as the void cell it '
              'abbreviates: ' + ' || '.join(failures))
        return 1
    print('PASS: LIKE n BUT MAT=0 gives the same void composition as the '
          'explicit void card')
    return 0


if __name__ == '__main__':
    sys.exit(main())
