#!/usr/bin/env python
'''C06 demo 1: a transformation attached to the LAST entry of a FILL array is
applied to EVERY element of the lattice.

Run as:  PYTHONPATH=/tmp/t4shim:<tree> /venv/bin/python demo_1.py
'''
import contextlib
import io
import os
import sys
import tempfile

DECK = '''lattice: transformation on the last entry of the FILL array only
c universe 1: a small sphere of material 1 centred on the origin of the
c universe, surrounded by material 2
11 1 -1.0 -801 u=1 imp:n=1
12 2 -2.0  801 u=1 imp:n=1
c one-dimensional lattice along x, pitch 3, elements -1, 0, 1; only the
c last element (i=1) carries a transformation (translation by 0.5 along x)
10 0 -2 1 lat=1 u=20 imp:n=1
        fill=-1:1 0:0 0:0  1 1 1 (0.5 0 0)
100 0 -10 fill=20 imp:n=1
1000 0 10 imp:n=0

1 px -1.5
2 px 1.5
10 so 20
801 so 0.2

m1 13027 1.
m2 13027 1.
'''


# ---------------------------------------------------------------- helpers
def run_converter(deck, args=()):
    '''Run the converter in-process. Return (exception or None, out path).'''
    from t4_geom_convert.main import main
    tmpdir = tempfile.mkdtemp(prefix='c06_demo_')
    inp = os.path.join(tmpdir, 'deck.imcnp')
    out = os.path.join(tmpdir, 'deck.t4')
    with open(inp, 'w') as fil:
        fil.write(deck)
    old_argv = sys.argv
    sys.argv = ['t4_geom_convert', inp, '-o', out] + list(args)
    buf = io.StringIO()
    try:
        with contextlib.redirect_stdout(buf), contextlib.redirect_stderr(buf):
            main()
    except SystemExit as exc:
        if exc.code not in (0, None):
            return exc, out
    except Exception as exc:  # pylint: disable=broad-except
        return exc, out
    finally:
        sys.argv = old_argv
    return None, out


def is_deliberate_refusal(exc):
    '''True if the exception is one of the converter's own error classes (a
    clear, deliberate refusal), False for incidental internal errors.'''
    if isinstance(exc, (KeyError, IndexError, TypeError, AttributeError,
                        ZeroDivisionError, AssertionError, NameError,
                        UnboundLocalError, RecursionError)):
        return False
    mod = type(exc).__module__ or ''
    return (mod.startswith('t4_geom_convert') or mod.startswith('MIP')
            or isinstance(exc, (NotImplementedError, SystemExit)))


class T4:
    '''Minimal evaluator of the generated TRIPOLI-4 geometry.'''

    def __init__(self, path):
        txt = open(path).read()
        self.surfs, self.vols, self.comp = {}, {}, {}
        geom = txt.split('GEOMETRY', 1)[1].split('ENDG', 1)[0]
        for line in geom.splitlines():
            tok = line.split('//')[0].split()
            if not tok:
                continue
            if tok[0] == 'SURF':
                self.surfs[int(tok[1])] = (tok[2], [float(x) for x in tok[3:]])
            elif tok[0] == 'VOLU':
                self.vols[int(tok[1])] = self._parse_vol(tok[2:])
        if 'GEOMCOMP' in txt:
            tok = txt.split('GEOMCOMP', 1)[1].split('END_GEOMCOMP')[0].split()
            i = 0
            while i < len(tok):
                name, num = tok[i], int(tok[i + 1])
                for vol in tok[i + 2:i + 2 + num]:
                    self.comp[int(vol)] = name
                i += 2 + num

    @staticmethod
    def _parse_vol(tok):
        vol = dict(plus=[], minus=[], inte=[], union=[], fictive=False)
        i = 0
        while i < len(tok):
            if tok[i] in ('PLUS', 'MINUS', 'INTE', 'UNION'):
                num = int(tok[i + 1])
                vol[tok[i].lower()] += [int(x) for x in tok[i + 2:i + 2 + num]]
                i += 2 + num
            elif tok[i] == 'FICTIVE':
                vol['fictive'] = True
                i += 1
            elif tok[i] == 'ENDV':
                break
            else:  # EQUA
                i += 1
        return vol

    def sval(self, sid, pnt):
        typ, par = self.surfs[sid]
        x, y, z = pnt
        if typ == 'PLANEX':
            return x - par[0]
        if typ == 'PLANEY':
            return y - par[0]
        if typ == 'PLANEZ':
            return z - par[0]
        if typ == 'PLANE':
            return par[0] * x + par[1] * y + par[2] * z + par[3]
        if typ == 'SPHERE':
            return ((x - par[0])**2 + (y - par[1])**2 + (z - par[2])**2
                    - par[3]**2)
        raise ValueError('unsupported T4 surface type ' + typ)

    def inside(self, vid, pnt):
        vol = self.vols[vid]
        if (all(self.sval(s, pnt) > 0 for s in vol['plus'])
                and all(self.sval(s, pnt) < 0 for s in vol['minus'])
                and all(self.inside(w, pnt) for w in vol['inte'])):
            return True
        return any(self.inside(w, pnt) for w in vol['union'])

    def materials_at(self, pnt):
        '''Sorted list of the MCNP material numbers of all the real volumes
        that contain the point.'''
        names = [self.comp.get(vid, '?') for vid, vol in self.vols.items()
                 if not vol['fictive'] and self.inside(vid, pnt)]
        return sorted(name.split('_')[0] for name in names)


# ------------------------------------------------------------------ check
def main():
    import t4_geom_convert
    print('converter under test:', os.path.dirname(t4_geom_convert.__file__))
    exc, out = run_converter(DECK)
    if exc is not None:
        if is_deliberate_refusal(exc):
            print(f'PASS (the converter refuses the deck: '
                  f'{type(exc).__name__}: {exc})')
            return 0
        print(f'FAIL: incidental internal error {type(exc).__name__}: {exc}')
        return 1
    geom = T4(out)
    # expected composition: the sphere of universe 1 sits at the centre of
    # elements -1 and 0 (no transformation) and is shifted by +0.5 along x in
    # element 1 only
    expected = {
        (-3.0, 0.0, 0.0): ['m1'],   # element -1, centre: inside the sphere
        (-2.5, 0.0, 0.0): ['m2'],   # element -1, 0.5 off-centre: outside
        (0.0, 0.0, 0.0): ['m1'],    # element 0, centre: inside the sphere
        (0.5, 0.0, 0.0): ['m2'],    # element 0, 0.5 off-centre: outside
        (3.0, 0.0, 0.0): ['m2'],    # element 1: the sphere has moved away
        (3.5, 0.0, 0.0): ['m1'],    # element 1: ... to x = 3 + 0.5
    }
    wrong = []
    for pnt, exp in expected.items():
        got = geom.materials_at(pnt)
        if got != exp:
            wrong.append(f'at {pnt}: expected {exp}, got {got}')
    if wrong:
        print('FAIL: the transformation written after the last entry of the '
              'FILL array (element i=1 only) displaced the content of other '
              'lattice elements: ' + '; '.join(wrong))
        return 1
    print('PASS')
    return 0


if __name__ == '__main__':
    sys.exit(main())
