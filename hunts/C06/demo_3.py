#!/usr/bin/env python
'''C06 demo 3: the U, LAT and FILL cell parameters given in their data-card
form (in the data block, like the IMP card) are silently ignored: the lattice
is not developed and the cells of all the universes are written at level 0.

Run as:  PYTHONPATH=/tmp/t4shim:<tree> /venv/bin/python demo_3.py
'''
import contextlib
import io
import os
import sys
import tempfile

# the cell parameters in data-card form have one entry per cell, in the order
# of the cell cards: 11 12 21 22 10 100 1000
CELLS = '''c universe 1: material 1 everywhere; universe 2: material 2 everywhere
11 1 -1.0 -901 {p11}
12 1 -1.0  901 {p12}
21 2 -2.0 -901 {p21}
22 2 -2.0  901 {p22}
c one-dimensional lattice along x (pitch 3): elements -1, 0, 1, 2
10 0 -2 1 {p10}
100 0 -10 {p100}
1000 0 10 {p1000}
'''
TAIL = '''
1 px -1.5
2 px 1.5
10 so 20
901 py 0

m1 13027 1.
m2 13027 1.
'''
DATA_FORM = ('lattice: U, LAT and FILL in data-card form\n'
             + CELLS.format(p11='', p12='', p21='', p22='', p10='', p100='',
                            p1000='')
             + TAIL
             + 'imp:n 1 1 1 1 1 1 0\n'
             + 'u     1 1 2 2 20 0 0\n'
             + 'lat   0 0 0 0 1 0 0\n'
             + 'fill  0 0 0 0 2 20 0\n')
CELL_FORM = ('lattice: U, LAT and FILL in cell-card form\n'
             + CELLS.format(p11='u=1 imp:n=1', p12='u=1 imp:n=1',
                            p21='u=2 imp:n=1', p22='u=2 imp:n=1',
                            p10='u=20 lat=1 fill=2 imp:n=1',
                            p100='fill=20 imp:n=1', p1000='imp:n=0')
             + TAIL)
ARGS = ['--lattice', '10,-1:2']


# ---------------------------------------------------------------- helpers
def run_converter(deck, args=()):
    '''Run the converter in-process. Return (exception or None, out path).'''
    from t4_geom_convert.main import main
    tmpdir = tempfile.mkdtemp(prefix='c06_demo_')
    inp = os.path.join(tmpdir, 'deck.imcnp')
    out = os.path.join(tmpdir, 'deck.t4')
    with open(inp, 'w') as fil:
        fil.write(deck)
    old_argv = sys.argv
    sys.argv = ['t4_geom_convert', inp, '-o', out] + list(args)
    buf = io.StringIO()
    try:
        with contextlib.redirect_stdout(buf), contextlib.redirect_stderr(buf):
            main()
    except SystemExit as exc:
        if exc.code not in (0, None):
            return exc, out
    except Exception as exc:  # pylint: disable=broad-except
        return exc, out
    finally:
        sys.argv = old_argv
    return None, out


def is_deliberate_refusal(exc):
    '''True if the exception is one of the converter's own error classes (a
    clear, deliberate refusal), False for incidental internal errors.'''
    if isinstance(exc, (KeyError, IndexError, TypeError, AttributeError,
                        ZeroDivisionError, AssertionError, NameError,
                        UnboundLocalError, RecursionError)):
        return False
    mod = type(exc).__module__ or ''
    return (mod.startswith('t4_geom_convert') or mod.startswith('MIP')
            or isinstance(exc, (NotImplementedError, SystemExit)))


class T4:
    '''Minimal evaluator of the generated TRIPOLI-4 geometry.'''

    def __init__(self, path):
        txt = open(path).read()
        self.surfs, self.vols, self.comp = {}, {}, {}
        geom = txt.split('GEOMETRY', 1)[1].split('ENDG', 1)[0]
        for line in geom.splitlines():
            tok = line.split('//')[0].split()
            if not tok:
                continue
            if tok[0] == 'SURF':
                self.surfs[int(tok[1])] = (tok[2], [float(x) for x in tok[3:]])
            elif tok[0] == 'VOLU':
                self.vols[int(tok[1])] = self._parse_vol(tok[2:])
        if 'GEOMCOMP' in txt:
            tok = txt.split('GEOMCOMP', 1)[1].split('END_GEOMCOMP')[0].split()
            i = 0
            while i < len(tok):
                name, num = tok[i], int(tok[i + 1])
                for vol in tok[i + 2:i + 2 + num]:
                    self.comp[int(vol)] = name
                i += 2 + num

    @staticmethod
    def _parse_vol(tok):
        vol = dict(plus=[], minus=[], inte=[], union=[], fictive=False)
        i = 0
        while i < len(tok):
            if tok[i] in ('PLUS', 'MINUS', 'INTE', 'UNION'):
                num = int(tok[i + 1])
                vol[tok[i].lower()] += [int(x) for x in tok[i + 2:i + 2 + num]]
                i += 2 + num
            elif tok[i] == 'FICTIVE':
                vol['fictive'] = True
                i += 1
            elif tok[i] == 'ENDV':
                break
            else:  # EQUA
                i += 1
        return vol

    def sval(self, sid, pnt):
        typ, par = self.surfs[sid]
        x, y, z = pnt
        if typ == 'PLANEX':
            return x - par[0]
        if typ == 'PLANEY':
            return y - par[0]
        if typ == 'PLANEZ':
            return z - par[0]
        if typ == 'PLANE':
            return par[0] * x + par[1] * y + par[2] * z + par[3]
        if typ == 'SPHERE':
            return ((x - par[0])**2 + (y - par[1])**2 + (z - par[2])**2
                    - par[3]**2)
        raise ValueError('unsupported T4 surface type ' + typ)

    def inside(self, vid, pnt):
        vol = self.vols[vid]
        if (all(self.sval(s, pnt) > 0 for s in vol['plus'])
                and all(self.sval(s, pnt) < 0 for s in vol['minus'])
                and all(self.inside(w, pnt) for w in vol['inte'])):
            return True
        return any(self.inside(w, pnt) for w in vol['union'])

    def materials_at(self, pnt):
        '''Sorted list of the MCNP material numbers of all the real volumes
        that contain the point.'''
        names = [self.comp.get(vid, '?') for vid, vol in self.vols.items()
                 if not vol['fictive'] and self.inside(vid, pnt)]
        return sorted(name.split('_')[0] for name in names)


# ------------------------------------------------------------------ check
def main():
    import t4_geom_convert
    print('converter under test:', os.path.dirname(t4_geom_convert.__file__))
    points = [(3.0 * i + 0.4, y, 0.3)
              for i in range(-3, 5) for y in (-0.7, 0.6)]

    def expected(pnt):
        i = int((pnt[0] + 1.5) // 3)
        return ['m2'] if -1 <= i <= 2 else []

    # sanity: the same deck with the parameters on the cell cards
    exc, out = run_converter(CELL_FORM, ARGS)
    if exc is not None:
        print(f'FAIL: the reference deck (cell-card form) is not converted: '
              f'{type(exc).__name__}: {exc}')
        return 1
    ref = T4(out)
    bad_ref = [p for p in points if ref.materials_at(p) != expected(p)]
    if bad_ref:
        print('FAIL: the reference deck (cell-card form) is converted '
              f'wrongly at {bad_ref[:4]}')
        return 1

    exc, out = run_converter(DATA_FORM, ARGS)
    if exc is not None:
        if is_deliberate_refusal(exc):
            print(f'PASS (the converter refuses the deck: '
                  f'{type(exc).__name__}: {exc})')
            return 0
        print(f'FAIL: incidental internal error {type(exc).__name__}: {exc}')
        return 1
    geom = T4(out)
    wrong = []
    for pnt in points:
        got = geom.materials_at(pnt)
        if got != expected(pnt):
            wrong.append(f'at {pnt}: expected {expected(pnt)}, got {got}')
    if wrong:
        print('FAIL: with U/LAT/FILL written as data cards (valid MCNP, same '
              'geometry as the cell-card form, which converts correctly) the '
              'lattice is not developed and the universes are not nested: '
              + '; '.join(wrong[:4]) + f' ({len(wrong)} of {len(points)} '
              'probe points wrong)')
        return 1
    print('PASS')
    return 0


if __name__ == '__main__':
    sys.exit(main())
