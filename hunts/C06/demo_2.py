#!/usr/bin/env python
'''C06 demo 2: a LAT=1 cell that contains a material and has no FILL entry (a
lattice of homogeneous elements, all made of the material of the lattice cell)
stops the converter with a bare AssertionError.

Run as:  PYTHONPATH=/tmp/t4shim:<tree> /venv/bin/python demo_2.py
'''
import contextlib
import io
import os
import sys
import tempfile

DECK = '''lattice of homogeneous elements: LAT=1 cell with a material, no FILL
c two-dimensional lattice, pitch 3 along x and 1 along y; every element is
c made of the material of the lattice cell (material 4)
10 4 -4.0 -2 1 -4 3 lat=1 u=20 imp:n=1
100 0 -10 fill=20 imp:n=1
1000 0 10 imp:n=0

1 px -1.5
2 px 1.5
3 py -0.5
4 py 0.5
10 so 20

m4 13027 1.
'''
ARGS = ['--lattice', '10,-1:1,0:1']


# ---------------------------------------------------------------- helpers
def run_converter(deck, args=()):
    '''Run the converter in-process. Return (exception or None, out path).'''
    from t4_geom_convert.main import main
    tmpdir = tempfile.mkdtemp(prefix='c06_demo_')
    inp = os.path.join(tmpdir, 'deck.imcnp')
    out = os.path.join(tmpdir, 'deck.t4')
    with open(inp, 'w') as fil:
        fil.write(deck)
    old_argv = sys.argv
    sys.argv = ['t4_geom_convert', inp, '-o', out] + list(args)
    buf = io.StringIO()
    try:
        with contextlib.redirect_stdout(buf), contextlib.redirect_stderr(buf):
            main()
    except SystemExit as exc:
        if exc.code not in (0, None):
            return exc, out
    except Exception as exc:  # pylint: disable=broad-except
        return exc, out
    finally:
        sys.argv = old_argv
    return None, out


def is_deliberate_refusal(exc):
    '''True if the exception is one of the converter's own error classes (a
    clear, deliberate refusal), False for incidental internal errors.'''
    if isinstance(exc, (KeyError, IndexError, TypeError, AttributeError,
                        ZeroDivisionError, AssertionError, NameError,
                        UnboundLocalError, RecursionError)):
        return False
    mod = type(exc).__module__ or ''
    return (mod.startswith('t4_geom_convert') or mod.startswith('MIP')
            or isinstance(exc, (NotImplementedError, SystemExit)))


class T4:
    '''Minimal evaluator of the generated TRIPOLI-4 geometry.'''

    def __init__(self, path):
        txt = open(path).read()
        self.surfs, self.vols, self.comp = {}, {}, {}
        geom = txt.split('GEOMETRY', 1)[1].split('ENDG', 1)[0]
        for line in geom.splitlines():
            tok = line.split('//')[0].split()
            if not tok:
                continue
            if tok[0] == 'SURF':
                self.surfs[int(tok[1])] = (tok[2], [float(x) for x in tok[3:]])
            elif tok[0] == 'VOLU':
                self.vols[int(tok[1])] = self._parse_vol(tok[2:])
        if 'GEOMCOMP' in txt:
            tok = txt.split('GEOMCOMP', 1)[1].split('END_GEOMCOMP')[0].split()
            i = 0
            while i < len(tok):
                name, num = tok[i], int(tok[i + 1])
                for vol in tok[i + 2:i + 2 + num]:
                    self.comp[int(vol)] = name
                i += 2 + num

    @staticmethod
    def _parse_vol(tok):
        vol = dict(plus=[], minus=[], inte=[], union=[], fictive=False)
        i = 0
        while i < len(tok):
            if tok[i] in ('PLUS', 'MINUS', 'INTE', 'UNION'):
                num = int(tok[i + 1])
                vol[tok[i].lower()] += [int(x) for x in tok[i + 2:i + 2 + num]]
                i += 2 + num
            elif tok[i] == 'FICTIVE':
                vol['fictive'] = True
                i += 1
            elif tok[i] == 'ENDV':
                break
            else:  # EQUA
                i += 1
        return vol

    def sval(self, sid, pnt):
        typ, par = self.surfs[sid]
        x, y, z = pnt
        if typ == 'PLANEX':
            return x - par[0]
        if typ == 'PLANEY':
            return y - par[0]
        if typ == 'PLANEZ':
            return z - par[0]
        if typ == 'PLANE':
            return par[0] * x + par[1] * y + par[2] * z + par[3]
        if typ == 'SPHERE':
            return ((x - par[0])**2 + (y - par[1])**2 + (z - par[2])**2
                    - par[3]**2)
        raise ValueError('unsupported T4 surface type ' + typ)

    def inside(self, vid, pnt):
        vol = self.vols[vid]
        if (all(self.sval(s, pnt) > 0 for s in vol['plus'])
                and all(self.sval(s, pnt) < 0 for s in vol['minus'])
                and all(self.inside(w, pnt) for w in vol['inte'])):
            return True
        return any(self.inside(w, pnt) for w in vol['union'])

    def materials_at(self, pnt):
        '''Sorted list of the MCNP material numbers of all the real volumes
        that contain the point.'''
        names = [self.comp.get(vid, '?') for vid, vol in self.vols.items()
                 if not vol['fictive'] and self.inside(vid, pnt)]
        return sorted(name.split('_')[0] for name in names)


# ------------------------------------------------------------------ check
def main():
    import t4_geom_convert
    print('converter under test:', os.path.dirname(t4_geom_convert.__file__))
    exc, out = run_converter(DECK, ARGS)
    if exc is not None:
        if is_deliberate_refusal(exc):
            print(f'PASS (the converter refuses the deck: '
                  f'{type(exc).__name__}: {exc})')
            return 0
        print('FAIL: a valid LAT=1 cell without FILL (elements made of the '
              'material of the lattice cell), converted with --lattice '
              f'10,-1:1,0:1, stops with an incidental {type(exc).__name__}'
              f'{": " + str(exc) if str(exc) else ""} '
              '(raised in CellConversion.develop_lattice)')
        return 1
    geom = T4(out)
    # elements i=-1..1 (pitch 3 along +x), j=0..1 (pitch 1 along +y) are made
    # of material 4; nothing else is generated
    wrong = []
    for i in range(-3, 4):
        for j in range(-2, 4):
            pnt = (3.0 * i + 0.4, 1.0 * j + 0.1, 0.3)
            exp = ['m4'] if -1 <= i <= 1 and 0 <= j <= 1 else []
            got = geom.materials_at(pnt)
            if got != exp:
                wrong.append(f'element ({i},{j}) at {pnt}: expected {exp}, '
                             f'got {got}')
    if wrong:
        print('FAIL: wrong lattice development: ' + '; '.join(wrong[:6]))
        return 1
    print('PASS')
    return 0


if __name__ == '__main__':
    sys.exit(main())
