#!/usr/bin/env python
'''C10: a +F6 tally card (collision heating, valid MCNP data card whose name
starts with a plus sign) next to the material cards makes the data-card
splitter fail with AttributeError, so that no composition is produced at all.
'''
import os
import sys
import tempfile
import io
import contextlib
import warnings

from t4_geom_convert.main import conversion, parse_args

DECK = '''a +F6 tally next to the material card
1 1 -1.0 -1 imp:n=1
2 0 1 imp:n=0

1 so 5

mode n p
m1 1001.70c 2 8016.70c 1
{tally}
nps 1000
'''

EXPECTED = [('H1', 2.0), ('O16', 1.0)]


def convert(tally):
    '''Convert the deck, return the list of (nuclide, amount) of m1.'''
    tmpdir = tempfile.mkdtemp()
    deck = os.path.join(tmpdir, 'deck.imcnp')
    out = os.path.join(tmpdir, 'deck.t4')
    with open(deck, 'w') as fil:
        fil.write(DECK.format(tally=tally))
    sink = io.StringIO()
    with warnings.catch_warnings():
        warnings.simplefilter('ignore')
        with contextlib.redirect_stdout(sink), contextlib.redirect_stderr(sink):
            conversion(parse_args([deck, '-o', out]))
    with open(out) as fil:
        lines = [line.split() for line in fil]
    for i, line in enumerate(lines):
        if line and line[0] in ('DENSITY', 'POINT_WISE') \
                and line[2].startswith('m1_'):
            n_nucl = int(line[-1])
            return [(name, float(val)) for name, val in lines[i+1:i+1+n_nucl]]
    return None


def main():
    problems = []
    for tally in ['f6:n 1', '+f6 1', '+F16 1 2 T']:
        try:
            got = convert(tally)
        except Exception as err:  # pylint: disable=broad-except
            problems.append(f'with data card {tally!r} the conversion '
                            f'stopped with {type(err).__name__}: {err}')
            continue
        if got != EXPECTED:
            problems.append(f'with data card {tally!r} composition m1 is '
                            f'{got}, expected {EXPECTED}')
    if problems:
        print('FAIL: ' + ' | '.join(problems))
        sys.exit(1)
    print('PASS')
    sys.exit(0)


if __name__ == '__main__':
    main()
