#!/usr/bin/env python
'''C10: multi-valued keyword entries of a material card (REFC, REFS) are not
ignored: their second and following values are read as (ZAID, fraction) pairs.

MCNP6.2 material card keywords REFC (4 Cauchy coefficients) and REFS (6
Sellmeier coefficients) take several values; they describe the refractive
index of the material and have nothing to do with its nuclide content.  The
composition must therefore be the same as without the keyword.
'''
import os
import sys
import tempfile
import io
import contextlib
import warnings

from t4_geom_convert.main import conversion, parse_args

DECK = '''keyword entries with several values on a material card
1 1 -1.0 -1 imp:n=1
2 0 1 imp:n=0

1 so 5

m1 1001.70c 2 8016.70c 1 {kw}
'''

EXPECTED = [('H1', 2.0), ('O16', 1.0)]


def convert(kw):
    '''Convert the deck, return the list of (nuclide, amount) of m1.'''
    tmpdir = tempfile.mkdtemp()
    deck = os.path.join(tmpdir, 'deck.imcnp')
    out = os.path.join(tmpdir, 'deck.t4')
    with open(deck, 'w') as fil:
        fil.write(DECK.format(kw=kw))
    sink = io.StringIO()
    with warnings.catch_warnings():
        warnings.simplefilter('ignore')
        with contextlib.redirect_stdout(sink), contextlib.redirect_stderr(sink):
            conversion(parse_args([deck, '-o', out]))
    with open(out) as fil:
        lines = [line.split() for line in fil]
    for i, line in enumerate(lines):
        if line and line[0] in ('DENSITY', 'POINT_WISE') \
                and line[2].startswith('m1_'):
            n_nucl = int(line[-1])
            return [(name, float(val)) for name, val in lines[i+1:i+1+n_nucl]]
    return None


def main():
    problems = []
    variants = ['', 'refi=1.33',
                'refc=1.32 0.0031 0 0',
                'REFC 1.32 0.0031 0 0',
                'refs = 0.5684 0.1726 0.0209 5.1018e-3 1.8211e-2 2.6207e-2',
                'gas=0 refs=0.5684 0.1726 0.0209 5.1018e-3 1.8211e-2 2.6207e-2 '
                'nlib=70c']
    for kw in variants:
        try:
            got = convert(kw)
        except Exception as err:  # pylint: disable=broad-except
            problems.append(f'{kw!r}: conversion stopped with '
                            f'{type(err).__name__}: {err}')
            continue
        if got != EXPECTED:
            problems.append(f'{kw!r}: composition m1 is {got}, expected '
                            f'{EXPECTED}')
    if problems:
        print('FAIL: keyword entries with several values (REFC/REFS) on a '
              'material card are not ignored: ' + ' | '.join(problems))
        sys.exit(1)
    print('PASS')
    sys.exit(0)


if __name__ == '__main__':
    main()
