#!/usr/bin/env python
"""C05 demo 2: the universe hierarchy is ignored when U and FILL are given as
cell-parameter DATA cards instead of cell-card keywords.

MCNP: every cell parameter (IMP, VOL, U, TRCL, LAT, FILL, ...) can be given
either on the cell cards ("U=1") or as a card of the data block with one entry
per cell, in the order of the cell cards ("U 1 1 0 0").  The converter already
honours the data-card form of IMP, but it silently drops the U and FILL data
cards: the cells of the universe are written out as ordinary, untruncated
cells of the real world and the filled cell is written as an unfilled cell.
"""
import contextlib
import io
import os
import sys
import tempfile


def convert(deck, extra=()):
    '''Write `deck` to a temporary file, run t4_geom_convert on it and return
    the text of the output file.  Exceptions raised by the converter are
    propagated.'''
    from t4_geom_convert.main import main
    tmpdir = tempfile.mkdtemp(prefix='c05demo_')
    inp = os.path.join(tmpdir, 'deck.imcnp')
    out = os.path.join(tmpdir, 'deck.t4')
    with open(inp, 'w') as fil:
        fil.write(deck)
    old_argv = sys.argv
    sys.argv = ['t4_geom_convert', inp, '-o', out] + list(extra)
    buf = io.StringIO()
    try:
        with contextlib.redirect_stdout(buf):
            main()
    finally:
        sys.argv = old_argv
    with open(out) as fil:
        return fil.read()


def parse_t4(txt):
    surfs, vols, order = {}, {}, []
    geom = txt.split('GEOMETRY', 1)[1].split('ENDG', 1)[0]
    for line in geom.splitlines():
        line = line.strip()
        comment = ''
        if '//' in line:
            line, comment = line.split('//', 1)
            comment = comment.strip()
        tok = line.split()
        if not tok:
            continue
        if tok[0] == 'SURF':
            surfs[int(tok[1])] = (tok[2], [float(x) for x in tok[3:]])
        elif tok[0] == 'VOLU':
            vid = int(tok[1])
            assert tok[2] == 'EQUA', line
            i = 3
            plus, minus, ops, fictive = [], [], None, False
            while i < len(tok):
                word = tok[i]
                if word in ('PLUS', 'MINUS'):
                    num = int(tok[i + 1])
                    ids = [int(x) for x in tok[i + 2:i + 2 + num]]
                    (plus if word == 'PLUS' else minus).extend(ids)
                    i += 2 + num
                elif word in ('INTE', 'UNION'):
                    num = int(tok[i + 1])
                    ops = (word, [int(x) for x in tok[i + 2:i + 2 + num]])
                    i += 2 + num
                elif word == 'FICTIVE':
                    fictive = True
                    i += 1
                elif word == 'ENDV':
                    i += 1
                else:
                    raise ValueError('cannot parse ' + line)
            vols[vid] = dict(plus=plus, minus=minus, ops=ops, fictive=fictive,
                             comment=comment)
            order.append(vid)
    return surfs, vols, order


def feval(surf, point):
    typ, par = surf
    x, y, z = point
    if typ == 'PLANEX':
        return x - par[0]
    if typ == 'PLANEY':
        return y - par[0]
    if typ == 'PLANEZ':
        return z - par[0]
    if typ == 'PLANE':
        return par[0] * x + par[1] * y + par[2] * z + par[3]
    if typ == 'SPHERE':
        return ((x - par[0])**2 + (y - par[1])**2 + (z - par[2])**2
                - par[3]**2)
    if typ == 'CYLZ':
        return (x - par[0])**2 + (y - par[1])**2 - par[2]**2
    raise NotImplementedError(typ)


def inside(surfs, vols, vid, point):
    vol = vols[vid]
    equa = (all(feval(surfs[s], point) > 0 for s in vol['plus'])
            and all(feval(surfs[s], point) < 0 for s in vol['minus']))
    if vol['ops'] is None:
        return equa
    oper, ids = vol['ops']
    if oper == 'INTE':
        return equa and all(inside(surfs, vols, i, point) for i in ids)
    return equa or any(inside(surfs, vols, i, point) for i in ids)


def locate(txt, point):
    '''Return the list of (volume id, comment) of the real (non-FICTIVE)
    volumes of the converted geometry that contain `point`.'''
    surfs, vols, order = parse_t4(txt)
    return [(vid, vols[vid]['comment']) for vid in order
            if not vols[vid]['fictive'] and inside(surfs, vols, vid, point)]


def composition_of(txt, vid):
    '''Return the name of the composition assigned to volume `vid` in the
    GEOMCOMP block, or None.'''
    block = txt.split('GEOMCOMP', 1)[1].split('END_GEOMCOMP', 1)[0]
    for line in block.splitlines():
        tok = line.split()
        if len(tok) >= 3 and str(vid) in tok[2:]:
            return tok[0]
    return None



DECK = """U and FILL given as data cards
c universe 1: a small sphere (cell 1) and the rest (cell 2)
1  1 -1.0  -1       imp:n=1
2  2 -2.0   1       imp:n=1
c the container (a sphere of radius 5) is filled with universe 1
10 0       -10      imp:n=1
20 3 -3.0   10 -20  imp:n=1
99 0        20      imp:n=0

1  so 2
10 so 5
20 so 8

m1 13027 1
m2 13027 1
m3 13027 1
c one entry per cell, in the order of the cell cards (cells 1 2 10 20 99)
u    1 1 0 0 0
fill 2j 1 2j
"""

# the same deck, with the parameters on the cell cards
DECK_REFERENCE = """U and FILL given as cell-card keywords
1  1 -1.0  -1       imp:n=1 u=1
2  2 -2.0   1       imp:n=1 u=1
10 0       -10      imp:n=1 fill=1
20 3 -3.0   10 -20  imp:n=1
99 0        20      imp:n=0

1  so 2
10 so 5
20 so 8

m1 13027 1
m2 13027 1
m3 13027 1
"""

# (point, expected filler cell or None, expected container cell or plain cell)
CHECKS = [((0.0, 0.0, 0.0), 1, 10),
          ((0.5, -1.0, 1.0), 1, 10),
          ((3.0, 0.0, 0.0), 2, 10),
          ((0.0, -4.0, 0.0), 2, 10),
          ((6.0, 0.0, 0.0), None, 20),
          ((0.0, 0.0, -7.0), None, 20),
          ((9.0, 0.0, 0.0), None, None)]


def check(txt, label):
    problems = []
    for point, filler, cell in CHECKS:
        found = locate(txt, point)
        if cell is None:
            if found:
                problems.append('%s: point %s is outside the geometry but '
                                'belongs to %s' % (label, point, found))
            continue
        if len(found) != 1:
            problems.append('%s: point %s belongs to %d converted volumes %s '
                            'instead of exactly one'
                            % (label, point, len(found), found))
            continue
        vid, comment = found[0]
        comp = composition_of(txt, vid)
        if filler is None:
            if vid != cell or comp is None or not comp.startswith('m3_'):
                problems.append('%s: point %s should be in cell %d, found '
                                'volume %d (%r)' % (label, point, cell, vid,
                                                    comp))
            continue
        if not comment.replace(' ', '').startswith('(%d,%d)' % (filler, cell)):
            problems.append('%s: point %s: expected a volume generated from '
                            '(%d, %d), found volume %d with comment %r'
                            % (label, point, filler, cell, vid, comment))
        elif comp is None or not comp.startswith('m%d_' % filler):
            problems.append('%s: point %s: volume %d has composition %r, '
                            'expected material %d'
                            % (label, point, vid, comp, filler))
    return problems


def main():
    # sanity check of the oracle on the cell-card form
    try:
        reference = check(convert(DECK_REFERENCE), 'cell-card form')
    except Exception as err:  # pylint: disable=broad-except
        print('FAIL: the converter crashed on the reference deck: %s: %s'
              % (type(err).__name__, err))
        return 1
    if reference:
        print('FAIL: ' + '; '.join(reference))
        return 1
    try:
        txt = convert(DECK)
    except Exception as err:  # pylint: disable=broad-except
        # a clear refusal of the data-card form would be acceptable
        if type(err).__name__ in ('KeyError', 'IndexError', 'TypeError',
                                  'AttributeError', 'ValueError',
                                  'AssertionError', 'ZeroDivisionError'):
            print('FAIL: the converter crashed on U/FILL data cards: %s: %s'
                  % (type(err).__name__, err))
            return 1
        print('PASS: the converter refuses U/FILL data cards: %s: %s'
              % (type(err).__name__, err))
        return 0
    problems = check(txt, 'data-card form')
    if problems:
        print('FAIL: the U and FILL data cards are silently ignored (the '
              'cells of universe 1 are not placed in filled cell 10): '
              + '; '.join(problems))
        return 1
    print('PASS: U and FILL data cards give the same hierarchy as the '
          'cell-card keywords')
    return 0


if __name__ == '__main__':
    sys.exit(main())
