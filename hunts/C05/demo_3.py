#!/usr/bin/env python
"""C05 demo 3: a FILL transformation given by number crashes the conversion
when the TR card uses the jump feature (nJ) for entries of the displacement
vector.

MCNP: "nJ" on a data card means "jump over n entries and use their default
values"; the defaults of the TR card are TRn 0 0 0  1 0 0  0 1 0  0 0 1  1, so
that "TR1 2J 3" is the same card as "TR1 0 0 3".  The converter already
accepts jumped entries in the rotation matrix of a TR card, but a jumped
displacement is kept as None and blows up (TypeError) as soon as the
transformation is applied to the cells of the filling universe.
"""
import contextlib
import io
import os
import sys
import tempfile


def convert(deck, extra=()):
    '''Write `deck` to a temporary file, run t4_geom_convert on it and return
    the text of the output file.  Exceptions raised by the converter are
    propagated.'''
    from t4_geom_convert.main import main
    tmpdir = tempfile.mkdtemp(prefix='c05demo_')
    inp = os.path.join(tmpdir, 'deck.imcnp')
    out = os.path.join(tmpdir, 'deck.t4')
    with open(inp, 'w') as fil:
        fil.write(deck)
    old_argv = sys.argv
    sys.argv = ['t4_geom_convert', inp, '-o', out] + list(extra)
    buf = io.StringIO()
    try:
        with contextlib.redirect_stdout(buf):
            main()
    finally:
        sys.argv = old_argv
    with open(out) as fil:
        return fil.read()


def parse_t4(txt):
    surfs, vols, order = {}, {}, []
    geom = txt.split('GEOMETRY', 1)[1].split('ENDG', 1)[0]
    for line in geom.splitlines():
        line = line.strip()
        comment = ''
        if '//' in line:
            line, comment = line.split('//', 1)
            comment = comment.strip()
        tok = line.split()
        if not tok:
            continue
        if tok[0] == 'SURF':
            surfs[int(tok[1])] = (tok[2], [float(x) for x in tok[3:]])
        elif tok[0] == 'VOLU':
            vid = int(tok[1])
            assert tok[2] == 'EQUA', line
            i = 3
            plus, minus, ops, fictive = [], [], None, False
            while i < len(tok):
                word = tok[i]
                if word in ('PLUS', 'MINUS'):
                    num = int(tok[i + 1])
                    ids = [int(x) for x in tok[i + 2:i + 2 + num]]
                    (plus if word == 'PLUS' else minus).extend(ids)
                    i += 2 + num
                elif word in ('INTE', 'UNION'):
                    num = int(tok[i + 1])
                    ops = (word, [int(x) for x in tok[i + 2:i + 2 + num]])
                    i += 2 + num
                elif word == 'FICTIVE':
                    fictive = True
                    i += 1
                elif word == 'ENDV':
                    i += 1
                else:
                    raise ValueError('cannot parse ' + line)
            vols[vid] = dict(plus=plus, minus=minus, ops=ops, fictive=fictive,
                             comment=comment)
            order.append(vid)
    return surfs, vols, order


def feval(surf, point):
    typ, par = surf
    x, y, z = point
    if typ == 'PLANEX':
        return x - par[0]
    if typ == 'PLANEY':
        return y - par[0]
    if typ == 'PLANEZ':
        return z - par[0]
    if typ == 'PLANE':
        return par[0] * x + par[1] * y + par[2] * z + par[3]
    if typ == 'SPHERE':
        return ((x - par[0])**2 + (y - par[1])**2 + (z - par[2])**2
                - par[3]**2)
    if typ == 'CYLZ':
        return (x - par[0])**2 + (y - par[1])**2 - par[2]**2
    raise NotImplementedError(typ)


def inside(surfs, vols, vid, point):
    vol = vols[vid]
    equa = (all(feval(surfs[s], point) > 0 for s in vol['plus'])
            and all(feval(surfs[s], point) < 0 for s in vol['minus']))
    if vol['ops'] is None:
        return equa
    oper, ids = vol['ops']
    if oper == 'INTE':
        return equa and all(inside(surfs, vols, i, point) for i in ids)
    return equa or any(inside(surfs, vols, i, point) for i in ids)


def locate(txt, point):
    '''Return the list of (volume id, comment) of the real (non-FICTIVE)
    volumes of the converted geometry that contain `point`.'''
    surfs, vols, order = parse_t4(txt)
    return [(vid, vols[vid]['comment']) for vid in order
            if not vols[vid]['fictive'] and inside(surfs, vols, vid, point)]


def composition_of(txt, vid):
    '''Return the name of the composition assigned to volume `vid` in the
    GEOMCOMP block, or None.'''
    block = txt.split('GEOMCOMP', 1)[1].split('END_GEOMCOMP', 1)[0]
    for line in block.splitlines():
        tok = line.split()
        if len(tok) >= 3 and str(vid) in tok[2:]:
            return tok[0]
    return None



DECK = """fill transformation number, TR card with jumps
c universe 1: a unit sphere (cell 1) and the rest (cell 2)
1  1 -1.0  -1   u=1     imp:n=1
2  2 -2.0   1   u=1     imp:n=1
c the container: universe 1 is moved by TR1, i.e. by (0, 0, 3)
10 0       -10  fill=1 (1) imp:n=1
99 0        10          imp:n=0

1  so 1
10 so 5

m1 13027 1
m2 13027 1
%s
"""

# (point, expected filler cell, container cell); None = outside
CHECKS = [((0.0, 0.0, 3.0), 1, 10),
          ((0.5, 0.0, 3.5), 1, 10),
          ((0.0, 0.0, 0.0), 2, 10),
          ((0.0, 0.0, 1.5), 2, 10),
          ((0.0, 0.0, 4.5), 2, 10),
          ((0.0, 0.0, 5.5), None, None)]

INCIDENTAL = ('KeyError', 'IndexError', 'TypeError', 'AttributeError',
              'ValueError', 'AssertionError', 'ZeroDivisionError',
              'NameError', 'UnboundLocalError', 'RecursionError')


def check(txt, label):
    problems = []
    for point, filler, cell in CHECKS:
        found = locate(txt, point)
        if cell is None:
            if found:
                problems.append('%s: point %s is outside the geometry but '
                                'belongs to %s' % (label, point, found))
            continue
        if len(found) != 1:
            problems.append('%s: point %s belongs to %d converted volumes %s '
                            'instead of exactly one'
                            % (label, point, len(found), found))
            continue
        vid, comment = found[0]
        comp = composition_of(txt, vid)
        if not comment.replace(' ', '').startswith('(%d,%d)' % (filler, cell)):
            problems.append('%s: point %s: expected a volume generated from '
                            '(%d, %d), found volume %d with comment %r'
                            % (label, point, filler, cell, vid, comment))
        elif comp is None or not comp.startswith('m%d_' % filler):
            problems.append('%s: point %s: volume %d has composition %r, '
                            'expected material %d'
                            % (label, point, vid, comp, filler))
    return problems


def main():
    # sanity check of the oracle with the fully written TR card
    try:
        reference = check(convert(DECK % 'tr1 0 0 3'), '"tr1 0 0 3"')
    except Exception as err:  # pylint: disable=broad-except
        print('FAIL: the converter crashed on the reference deck: %s: %s'
              % (type(err).__name__, err))
        return 1
    if reference:
        print('FAIL: ' + '; '.join(reference))
        return 1
    try:
        with contextlib.redirect_stdout(io.StringIO()):
            txt = convert(DECK % 'tr1 2j 3')
    except Exception as err:  # pylint: disable=broad-except
        if type(err).__name__ in INCIDENTAL:
            print('FAIL: FILL=1 (1) with the card "TR1 2J 3" (same as "TR1 0 '
                  '0 3") stops the conversion with an internal error: %s: %s'
                  % (type(err).__name__, err))
            return 1
        print('PASS: the converter refuses the card deliberately: %s: %s'
              % (type(err).__name__, err))
        return 0
    problems = check(txt, '"tr1 2j 3"')
    if problems:
        print('FAIL: ' + '; '.join(problems))
        return 1
    print('PASS: "TR1 2J 3" moves the filling universe like "TR1 0 0 3"')
    return 0


if __name__ == '__main__':
    sys.exit(main())
