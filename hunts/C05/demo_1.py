#!/usr/bin/env python
"""C05 demo 1: cells that belong to a universe through a NEGATIVE universe
number (U=-n) are lost when the universe is used in a FILL.

MCNP: "U=-n" puts the cell in universe n exactly like "U=n"; the minus sign is
only a hint that the cell is not truncated by the boundary of the filled cell
(it lies entirely inside it), which lets MCNP skip some distance calculations.
The README of the converter lists the *optimisation* of negative universes as
a to-do item, i.e. such cells are supposed to be converted (just without the
optimisation).
"""
import contextlib
import io
import os
import sys
import tempfile


def convert(deck, extra=()):
    '''Write `deck` to a temporary file, run t4_geom_convert on it and return
    the text of the output file.  Exceptions raised by the converter are
    propagated.'''
    from t4_geom_convert.main import main
    tmpdir = tempfile.mkdtemp(prefix='c05demo_')
    inp = os.path.join(tmpdir, 'deck.imcnp')
    out = os.path.join(tmpdir, 'deck.t4')
    with open(inp, 'w') as fil:
        fil.write(deck)
    old_argv = sys.argv
    sys.argv = ['t4_geom_convert', inp, '-o', out] + list(extra)
    buf = io.StringIO()
    try:
        with contextlib.redirect_stdout(buf):
            main()
    finally:
        sys.argv = old_argv
    with open(out) as fil:
        return fil.read()


def parse_t4(txt):
    surfs, vols, order = {}, {}, []
    geom = txt.split('GEOMETRY', 1)[1].split('ENDG', 1)[0]
    for line in geom.splitlines():
        line = line.strip()
        comment = ''
        if '//' in line:
            line, comment = line.split('//', 1)
            comment = comment.strip()
        tok = line.split()
        if not tok:
            continue
        if tok[0] == 'SURF':
            surfs[int(tok[1])] = (tok[2], [float(x) for x in tok[3:]])
        elif tok[0] == 'VOLU':
            vid = int(tok[1])
            assert tok[2] == 'EQUA', line
            i = 3
            plus, minus, ops, fictive = [], [], None, False
            while i < len(tok):
                word = tok[i]
                if word in ('PLUS', 'MINUS'):
                    num = int(tok[i + 1])
                    ids = [int(x) for x in tok[i + 2:i + 2 + num]]
                    (plus if word == 'PLUS' else minus).extend(ids)
                    i += 2 + num
                elif word in ('INTE', 'UNION'):
                    num = int(tok[i + 1])
                    ops = (word, [int(x) for x in tok[i + 2:i + 2 + num]])
                    i += 2 + num
                elif word == 'FICTIVE':
                    fictive = True
                    i += 1
                elif word == 'ENDV':
                    i += 1
                else:
                    raise ValueError('cannot parse ' + line)
            vols[vid] = dict(plus=plus, minus=minus, ops=ops, fictive=fictive,
                             comment=comment)
            order.append(vid)
    return surfs, vols, order


def feval(surf, point):
    typ, par = surf
    x, y, z = point
    if typ == 'PLANEX':
        return x - par[0]
    if typ == 'PLANEY':
        return y - par[0]
    if typ == 'PLANEZ':
        return z - par[0]
    if typ == 'PLANE':
        return par[0] * x + par[1] * y + par[2] * z + par[3]
    if typ == 'SPHERE':
        return ((x - par[0])**2 + (y - par[1])**2 + (z - par[2])**2
                - par[3]**2)
    if typ == 'CYLZ':
        return (x - par[0])**2 + (y - par[1])**2 - par[2]**2
    raise NotImplementedError(typ)


def inside(surfs, vols, vid, point):
    vol = vols[vid]
    equa = (all(feval(surfs[s], point) > 0 for s in vol['plus'])
            and all(feval(surfs[s], point) < 0 for s in vol['minus']))
    if vol['ops'] is None:
        return equa
    oper, ids = vol['ops']
    if oper == 'INTE':
        return equa and all(inside(surfs, vols, i, point) for i in ids)
    return equa or any(inside(surfs, vols, i, point) for i in ids)


def locate(txt, point):
    '''Return the list of (volume id, comment) of the real (non-FICTIVE)
    volumes of the converted geometry that contain `point`.'''
    surfs, vols, order = parse_t4(txt)
    return [(vid, vols[vid]['comment']) for vid in order
            if not vols[vid]['fictive'] and inside(surfs, vols, vid, point)]


def composition_of(txt, vid):
    '''Return the name of the composition assigned to volume `vid` in the
    GEOMCOMP block, or None.'''
    block = txt.split('GEOMCOMP', 1)[1].split('END_GEOMCOMP', 1)[0]
    for line in block.splitlines():
        tok = line.split()
        if len(tok) >= 3 and str(vid) in tok[2:]:
            return tok[0]
    return None


DECK = """negative universe number
c universe 1: a small sphere (cell 1, entirely inside the container, hence
c flagged with a negative universe number) and the rest (cell 2)
1  1 -1.0  -1     u=-1  imp:n=1
2  2 -2.0   1     u=1   imp:n=1
c the container: a sphere of radius 5 filled with universe 1
10 0       -10    fill=1 imp:n=1
20 3 -3.0   10 -20       imp:n=1
99 0        20           imp:n=0

1  so 2
10 so 5
20 so 8

m1 13027 1
m2 13027 1
m3 13027 1
"""


def main():
    try:
        txt = convert(DECK)
    except Exception as err:  # pylint: disable=broad-except
        print('FAIL: the converter crashed on a deck with a negative universe '
              'number: %s: %s' % (type(err).__name__, err))
        return 1
    problems = []
    # (point, expected filler cell, expected container cell)
    checks = [((0.0, 0.0, 0.0), 1, 10),
              ((0.5, -1.0, 1.0), 1, 10),
              ((3.0, 0.0, 0.0), 2, 10),
              ((0.0, -4.0, 0.0), 2, 10)]
    for point, filler, container in checks:
        found = locate(txt, point)
        if len(found) != 1:
            problems.append('point %s lies inside filled cell %d, in cell %d '
                            'of universe 1, but it belongs to %d converted '
                            'volumes %s' % (point, container, filler,
                                            len(found), found))
            continue
        vid, comment = found[0]
        if not comment.replace(' ', '').startswith('(%d,%d)'
                                                   % (filler, container)):
            problems.append('point %s: expected a volume generated from '
                            '(%d, %d), found volume %d with comment %r'
                            % (point, filler, container, vid, comment))
            continue
        comp = composition_of(txt, vid)
        if comp is None or not comp.startswith('m%d_' % filler):
            problems.append('point %s: volume %d has composition %r, expected '
                            'material %d' % (point, vid, comp, filler))
    if problems:
        print('FAIL: cell 1 (U=-1) is not placed in the cell filled with '
              'universe 1: ' + '; '.join(problems))
        return 1
    print('PASS: the cells of universe 1 (U=-1 and U=1) are both placed in '
          'the filled cell')
    return 0


if __name__ == '__main__':
    sys.exit(main())
