#!/usr/bin/env python
"""C14 demo 2: a material number spelled with a leading zero on the cell card
breaks the volume/composition association.

`1 01 -1.0 -1` and `1 1 -1.0 -1` are the same cell for MCNP (the material number
is an integer, read with Fortran rules: 01 == 1).  The converter keeps the
material number of the cell as a *string*: the COMPOSITION block is named after
int(material) (`m1_-1.0`), the GEOMCOMP block after the raw string
(`m01_-1.0`).  The volume is thus associated with a composition that does not
exist.
"""
import contextlib
import io
import os
import sys
import tempfile

DECK = """C14 demo: leading zero in the material number
1 {mat} -1.0 -1     imp:n=1
2 0      1 -2   imp:n=1
3 0      2      imp:n=0

1 so 2
2 so 50

m1 1001 2 8016 1
"""


def convert(text):
    from t4_geom_convert.main import main
    tmpdir = tempfile.mkdtemp()
    deck = os.path.join(tmpdir, 'deck.imcnp')
    out = os.path.join(tmpdir, 'deck.t4')
    with open(deck, 'w') as fil:
        fil.write(text)
    old_argv = sys.argv
    sys.argv = ['t4_geom_convert', deck, '-o', out]
    sink = io.StringIO()
    try:
        with contextlib.redirect_stdout(sink), contextlib.redirect_stderr(sink):
            main()
    finally:
        sys.argv = old_argv
    with open(out) as fil:
        return fil.read()


def section(t4_text, start, end):
    lines = t4_text.splitlines()
    i_start = next(i for i, l in enumerate(lines) if l.strip() == start)
    i_end = next(i for i, l in enumerate(lines) if l.strip() == end)
    return lines[i_start + 1:i_end]


def compositions(t4_text):
    """Dictionary name -> definition (everything but the name) of the
    compositions defined in the COMPOSITION block."""
    compos = {}
    current = None
    for line in section(t4_text, 'COMPOSITION', 'END_COMPOSITION'):
        toks = line.split()
        if not toks:
            continue
        if toks[0] in ('DENSITY', 'POINT_WISE'):
            current = toks[2]
            compos[current] = [tuple(toks[:2] + toks[3:])]
        elif current is not None:
            compos[current].append(tuple(toks))
    return {name: tuple(defn) for name, defn in compos.items()}


def associations(t4_text):
    """Dictionary volume -> composition name from the GEOMCOMP block."""
    assoc = {}
    for line in section(t4_text, 'GEOMCOMP', 'END_GEOMCOMP'):
        toks = line.split()
        if not toks:
            continue
        name, n_vols, vols = toks[0], int(toks[1]), toks[2:]
        assert n_vols == len(vols)
        for vol in vols:
            assoc[int(vol)] = name
    return assoc


def main():
    try:
        ref = convert(DECK.format(mat='1'))
        res = convert(DECK.format(mat='01'))
    except Exception as err:  # pylint: disable=broad-except
        print(f'FAIL: conversion stopped with {type(err).__name__}: {err}')
        return 1
    ref_assoc, res_assoc = associations(ref), associations(res)
    ref_compos, res_compos = compositions(ref), compositions(res)
    if ref_assoc.get(1) not in ref_compos:
        print('FAIL: unexpected reference output', ref_assoc, ref_compos)
        return 1
    problems = []
    undefined = {vol: name for vol, name in res_assoc.items()
                 if name not in res_compos}
    if undefined:
        problems.append(f'with material spelling 01, GEOMCOMP associates '
                        f'volumes with compositions that are not defined in '
                        f'COMPOSITION: {undefined} '
                        f'(defined: {sorted(res_compos)})')
    else:
        # compare what each volume is made of, whatever the names
        ref_made = {vol: ref_compos[name] for vol, name in ref_assoc.items()}
        res_made = {vol: res_compos[name] for vol, name in res_assoc.items()}
        if ref_made != res_made:
            problems.append(f"volume contents differ between material "
                            f"spellings '1' and '01': {ref_made} vs "
                            f"{res_made}")
    if problems:
        print('FAIL: ' + '; '.join(problems))
        return 1
    print("PASS: material number '01' gives the same associations as '1'")
    return 0


if __name__ == '__main__':
    sys.exit(main())
