#!/usr/bin/env python
"""C14 demo 1: the nJ data-card shorthand on a TR card crashes the converter.

`TR1 20 2J` is MCNP shorthand for `TR1 20 0 0` (nJ jumps over n entries and
leaves them at their default value; the default displacement vector of a TRn
card is 0 0 0).  Both spellings must give the same converted geometry.
The converter instead stops with an incidental TypeError (None + float) as soon
as a surface or a cell uses the transformation.
"""
import contextlib
import io
import os
import re
import sys
import tempfile
import traceback

DECK = """C14 demo: nJ on a TR card
1 1 -1.0 -1     imp:n=1
2 0      1 -2   imp:n=1
3 0      2      imp:n=0

1 1 so 2
2   so 50

m1 1001 2 8016 1
{trcard}
"""

EXPANDED = 'tr1 20 0 0'
SHORTHAND = 'tr1 20 2j'


def convert(text):
    """Convert the deck, return (output text or None, exception or None)."""
    from t4_geom_convert.main import main
    tmpdir = tempfile.mkdtemp()
    deck = os.path.join(tmpdir, 'deck.imcnp')
    out = os.path.join(tmpdir, 'deck.t4')
    with open(deck, 'w') as fil:
        fil.write(text)
    old_argv = sys.argv
    sys.argv = ['t4_geom_convert', deck, '-o', out]
    sink = io.StringIO()
    try:
        with contextlib.redirect_stdout(sink), contextlib.redirect_stderr(sink):
            main()
    except SystemExit as err:
        if err.code not in (0, None):
            return None, err
    except Exception as err:  # pylint: disable=broad-except
        err.tb_text = traceback.format_exc()
        return None, err
    finally:
        sys.argv = old_argv
    with open(out) as fil:
        return fil.read(), None


def spheres(t4_text):
    """Return the list of (centre, radius) of the SPHERE surfaces."""
    res = []
    for line in t4_text.splitlines():
        match = re.match(r'\s*SURF\s+\d+\s+SPHERE\s+(\S+)\s+(\S+)\s+(\S+)\s+(\S+)',
                         line)
        if match:
            res.append(tuple(round(float(x), 9) for x in match.groups()))
    return sorted(res)


def main():
    ref, err = convert(DECK.format(trcard=EXPANDED))
    if err is not None:
        print(f'FAIL: the reference spelling {EXPANDED!r} could not be '
              f'converted: {type(err).__name__}: {err}')
        return 1
    ref_spheres = spheres(ref)
    if (20.0, 0.0, 0.0, 2.0) not in ref_spheres:
        print('FAIL: unexpected reference output, spheres:', ref_spheres)
        return 1

    res, err = convert(DECK.format(trcard=SHORTHAND))
    if err is not None:
        kind = type(err).__name__
        print(f'FAIL: {SHORTHAND!r} (MCNP shorthand for {EXPANDED!r}) makes '
              f'the converter stop with {kind}: {err}')
        return 1
    res_spheres = spheres(res)
    if res_spheres != ref_spheres:
        print(f'FAIL: {SHORTHAND!r} and {EXPANDED!r} give different '
              f'surfaces: {res_spheres} vs {ref_spheres}')
        return 1
    print('PASS: the nJ shorthand on the TR card gives the same geometry as '
          'its expansion')
    return 0


if __name__ == '__main__':
    sys.exit(main())
