"""C02 demo 2: a surface card that refers to a TR card whose rotation matrix
is given by the single vector (-1, 0, 0) stops the conversion with a
ZeroDivisionError, so that the surface is not converted at all.

Run from the root of the tree:
    PYTHONPATH=/tmp/t4shim:<tree> /venv/bin/python _found/demo_2.py
"""
import math
import os
import subprocess
import sys
import tempfile


def run_converter(deck_text, extra_args=()):
    """Write the deck, run the converter of the tree given by PYTHONPATH/cwd.
    Return (returncode, stdout+stderr, output text or None)."""
    tmpdir = tempfile.mkdtemp(prefix='c02_demo_')
    inp = os.path.join(tmpdir, 'deck.imcnp')
    out = os.path.join(tmpdir, 'deck.t4')
    with open(inp, 'w') as fil:
        fil.write(deck_text)
    cmd = [sys.executable, '-c',
           'from t4_geom_convert.main import main; main()',
           inp, '-o', out, *extra_args]
    proc = subprocess.run(cmd, stdout=subprocess.PIPE,
                          stderr=subprocess.STDOUT, text=True)
    text = None
    if proc.returncode == 0 and os.path.exists(out):
        with open(out) as fil:
            text = fil.read()
    return proc.returncode, proc.stdout, text


def parse_t4(text):
    """Minimal reader of the GEOMETRY block: SURF, TRANSFORM and VOLU."""
    surfs, vols, transforms = {}, {}, {}
    geom = text.split('GEOMETRY', 1)[1].split('ENDG')[0]
    for line in geom.splitlines():
        tok = line.split('//')[0].split()
        if not tok:
            continue
        if tok[0] == 'TRANSFORM':
            transforms[int(tok[1])] = [float(x) for x in tok[3:15]]
        elif tok[0] == 'SURF':
            rest = tok[2:]
            trans = None
            if rest[0] == 'TRANSFORM':
                trans = transforms[int(rest[1])]
                rest = rest[2:]
            surfs[int(tok[1])] = (rest[0], [float(x) for x in rest[1:]],
                                  trans)
        elif tok[0] == 'VOLU':
            body = tok[3:-1]
            vol = {'PLUS': [], 'MINUS': [], 'INTE': [], 'UNION': []}
            i = 0
            while i < len(body):
                if body[i] == 'FICTIVE':
                    i += 1
                    continue
                num = int(body[i + 1])
                vol[body[i]] = [int(x) for x in body[i + 2:i + 2 + num]]
                i += 2 + num
            vols[int(tok[1])] = vol
    return surfs, vols


def t4_value(surf, point):
    """Value of the TRIPOLI-4 surface equation (>0 on the PLUS side)."""
    typ, par, trans = surf
    x, y, z = point
    if trans is not None:
        d = [point[i] - trans[i] for i in range(3)]
        mat = [trans[3:6], trans[6:9], trans[9:12]]
        x, y, z = (sum(mat[r][c] * d[r] for r in range(3)) for c in range(3))
    if typ == 'SPHERE':
        return ((x - par[0])**2 + (y - par[1])**2 + (z - par[2])**2
                - par[3]**2)
    if typ == 'PLANEX':
        return x - par[0]
    if typ == 'PLANEY':
        return y - par[0]
    if typ == 'PLANEZ':
        return z - par[0]
    if typ == 'PLANE':
        return par[0] * x + par[1] * y + par[2] * z + par[3]
    if typ == 'CYLX':
        return (y - par[0])**2 + (z - par[1])**2 - par[2]**2
    if typ == 'CYLY':
        return (x - par[0])**2 + (z - par[1])**2 - par[2]**2
    if typ == 'CYLZ':
        return (x - par[0])**2 + (y - par[1])**2 - par[2]**2
    if typ in ('CYL', 'CONE', 'CONEX', 'CONEY', 'CONEZ'):
        d = (x - par[0], y - par[1], z - par[2])
        if typ in ('CYL', 'CONE'):
            axis = par[4:7]
            norm = math.sqrt(sum(a * a for a in axis))
            axis = [a / norm for a in axis]
        else:
            axis = {'CONEX': (1., 0., 0.), 'CONEY': (0., 1., 0.),
                    'CONEZ': (0., 0., 1.)}[typ]
        along = sum(a * b for a, b in zip(d, axis))
        rad2 = sum(a * a for a in d) - along**2
        if typ == 'CYL':
            return rad2 - par[3]**2
        return rad2 - (math.tan(math.radians(par[3])) * along)**2
    if typ == 'QUAD':
        return (par[0] * x * x + par[1] * y * y + par[2] * z * z
                + par[3] * x * y + par[4] * y * z + par[5] * z * x
                + par[6] * x + par[7] * y + par[8] * z + par[9])
    raise ValueError('surface type not handled by the demo: ' + typ)


def in_volume(key, surfs, vols, point):
    """Is `point` inside TRIPOLI-4 volume `key`?  (EQUA and INTE) or UNION."""
    if key not in vols:
        return False
    vol = vols[key]
    inside = (all(t4_value(surfs[s], point) > 0 for s in vol['PLUS'])
              and all(t4_value(surfs[s], point) < 0 for s in vol['MINUS'])
              and all(in_volume(o, surfs, vols, point) for o in vol['INTE']))
    return inside or any(in_volume(o, surfs, vols, point)
                         for o in vol['UNION'])


# TR1 puts the origin of the auxiliary frame in (5,0,0) and gives ONE vector
# of the rotation matrix: the x' axis is -x.  MCNP completes the matrix with
# two arbitrary vectors; surfaces that are axisymmetric about x' do not
# depend on that choice.
DECK = '''surfaces with a one-vector TR card
11 0 -1 imp:n=1
12 0  1 imp:n=1
21 0 -2 imp:n=1
22 0  2 imp:n=1
31 0 -3 imp:n=1
32 0  3 imp:n=1

1 1 kx 1 0.25 1
2 1 cx 2
3 1 px 1.5

tr1 5 0 0  -1 0 0

'''


def expected_negative(num, point):
    '''MCNP sense (True = negative) in the main frame; x' = -(x-5) and
    y'^2 + z'^2 = y^2 + z^2 whatever the two other vectors are.'''
    x, y, z = point
    xaux = -(x - 5.)
    rad2 = y * y + z * z
    if num == 1:   # kx 1 0.25 +1 : r^2 = 0.25 (x'-1)^2, sheet x' > 1
        return xaux > 1. and rad2 - 0.25 * (xaux - 1.)**2 < 0
    if num == 2:   # cx 2
        return rad2 - 4. < 0
    return xaux - 1.5 < 0  # px 1.5


def main():
    code, log, text = run_converter(DECK)
    if text is None:
        last = [line for line in log.splitlines() if line.strip()][-1:]
        kind = ('an incidental internal error' if 'ZeroDivisionError' in log
                else 'an error')
        print(f'FAIL: the converter stopped with {kind} on a valid deck '
              '(surface cards referring to "TR1 5 0 0 -1 0 0", one vector of '
              f'the rotation matrix given): {" ".join(last)}')
        return 1
    t4_surfs, t4_vols = parse_t4(text)
    points = [(0., 0., 0.), (2., 0.3, 0.2), (3.9, 0., 0.), (4.5, 0., 0.),
              (6., 0.1, 0.1), (8., 0., 0.), (1., 1., 1.), (1., 2.5, 0.),
              (-3., 1., -1.), (-3., 3., 3.), (3., 0., 1.9), (3., 0., 2.1),
              (3.6, 0., 0.), (3.4, 0., 0.)]
    errors = []
    for num in (1, 2, 3):
        for point in points:
            exp = expected_negative(num, point)
            in_neg = in_volume(10 * num + 1, t4_surfs, t4_vols, point)
            in_pos = in_volume(10 * num + 2, t4_surfs, t4_vols, point)
            if in_neg != exp or in_pos != (not exp):
                errors.append(f'surface {num}, point {point}: expected '
                              f'negative sense = {exp}, converted cells: '
                              f'"-{num}": {in_neg}, "+{num}": {in_pos}')
    if errors:
        print(f'FAIL: {len(errors)} points are on the wrong side of the '
              'transformed surfaces; first: ' + errors[0])
        return 1
    print('PASS: the surfaces transformed with the one-vector TR card keep '
          'their locus and sense')
    return 0


if __name__ == '__main__':
    sys.exit(main())
