"""C02 demo 1: an equation-defined SQ surface whose constant term G is
positive is written with all its coefficients negated, i.e. with the wrong
sense: the cell '-s' receives the points MCNP puts in '+s' and vice versa.

Run from the root of the tree:
    PYTHONPATH=/tmp/t4shim:<tree> /venv/bin/python _found/demo_1.py
"""
import math
import os
import subprocess
import sys
import tempfile


def run_converter(deck_text, extra_args=()):
    """Write the deck, run the converter of the tree given by PYTHONPATH/cwd.
    Return (returncode, stdout+stderr, output text or None)."""
    tmpdir = tempfile.mkdtemp(prefix='c02_demo_')
    inp = os.path.join(tmpdir, 'deck.imcnp')
    out = os.path.join(tmpdir, 'deck.t4')
    with open(inp, 'w') as fil:
        fil.write(deck_text)
    cmd = [sys.executable, '-c',
           'from t4_geom_convert.main import main; main()',
           inp, '-o', out, *extra_args]
    proc = subprocess.run(cmd, stdout=subprocess.PIPE,
                          stderr=subprocess.STDOUT, text=True)
    text = None
    if proc.returncode == 0 and os.path.exists(out):
        with open(out) as fil:
            text = fil.read()
    return proc.returncode, proc.stdout, text


def parse_t4(text):
    """Minimal reader of the GEOMETRY block: SURF, TRANSFORM and VOLU."""
    surfs, vols, transforms = {}, {}, {}
    geom = text.split('GEOMETRY', 1)[1].split('ENDG')[0]
    for line in geom.splitlines():
        tok = line.split('//')[0].split()
        if not tok:
            continue
        if tok[0] == 'TRANSFORM':
            transforms[int(tok[1])] = [float(x) for x in tok[3:15]]
        elif tok[0] == 'SURF':
            rest = tok[2:]
            trans = None
            if rest[0] == 'TRANSFORM':
                trans = transforms[int(rest[1])]
                rest = rest[2:]
            surfs[int(tok[1])] = (rest[0], [float(x) for x in rest[1:]],
                                  trans)
        elif tok[0] == 'VOLU':
            body = tok[3:-1]
            vol = {'PLUS': [], 'MINUS': [], 'INTE': [], 'UNION': []}
            i = 0
            while i < len(body):
                if body[i] == 'FICTIVE':
                    i += 1
                    continue
                num = int(body[i + 1])
                vol[body[i]] = [int(x) for x in body[i + 2:i + 2 + num]]
                i += 2 + num
            vols[int(tok[1])] = vol
    return surfs, vols


def t4_value(surf, point):
    """Value of the TRIPOLI-4 surface equation (>0 on the PLUS side)."""
    typ, par, trans = surf
    x, y, z = point
    if trans is not None:
        d = [point[i] - trans[i] for i in range(3)]
        mat = [trans[3:6], trans[6:9], trans[9:12]]
        x, y, z = (sum(mat[r][c] * d[r] for r in range(3)) for c in range(3))
    if typ == 'SPHERE':
        return ((x - par[0])**2 + (y - par[1])**2 + (z - par[2])**2
                - par[3]**2)
    if typ == 'PLANEX':
        return x - par[0]
    if typ == 'PLANEY':
        return y - par[0]
    if typ == 'PLANEZ':
        return z - par[0]
    if typ == 'PLANE':
        return par[0] * x + par[1] * y + par[2] * z + par[3]
    if typ == 'CYLX':
        return (y - par[0])**2 + (z - par[1])**2 - par[2]**2
    if typ == 'CYLY':
        return (x - par[0])**2 + (z - par[1])**2 - par[2]**2
    if typ == 'CYLZ':
        return (x - par[0])**2 + (y - par[1])**2 - par[2]**2
    if typ in ('CYL', 'CONE', 'CONEX', 'CONEY', 'CONEZ'):
        d = (x - par[0], y - par[1], z - par[2])
        if typ in ('CYL', 'CONE'):
            axis = par[4:7]
            norm = math.sqrt(sum(a * a for a in axis))
            axis = [a / norm for a in axis]
        else:
            axis = {'CONEX': (1., 0., 0.), 'CONEY': (0., 1., 0.),
                    'CONEZ': (0., 0., 1.)}[typ]
        along = sum(a * b for a, b in zip(d, axis))
        rad2 = sum(a * a for a in d) - along**2
        if typ == 'CYL':
            return rad2 - par[3]**2
        return rad2 - (math.tan(math.radians(par[3])) * along)**2
    if typ == 'QUAD':
        return (par[0] * x * x + par[1] * y * y + par[2] * z * z
                + par[3] * x * y + par[4] * y * z + par[5] * z * x
                + par[6] * x + par[7] * y + par[8] * z + par[9])
    raise ValueError('surface type not handled by the demo: ' + typ)


def in_volume(key, surfs, vols, point):
    """Is `point` inside TRIPOLI-4 volume `key`?  (EQUA and INTE) or UNION."""
    if key not in vols:
        return False
    vol = vols[key]
    inside = (all(t4_value(surfs[s], point) > 0 for s in vol['PLUS'])
              and all(t4_value(surfs[s], point) < 0 for s in vol['MINUS'])
              and all(in_volume(o, surfs, vols, point) for o in vol['INTE']))
    return inside or any(in_volume(o, surfs, vols, point)
                         for o in vol['UNION'])


# Surfaces under test.  MCNP: the sense of a point with respect to
# f(x,y,z) = 0 is the sign of f; for SQ
#   f = A(x-x0)^2 + B(y-y0)^2 + C(z-z0)^2
#       + 2D(x-x0) + 2E(y-y0) + 2F(z-z0) + G
SQ_CARDS = {
    # hyperboloid of two sheets about z:  x^2 + y^2 - z^2 + 1 = 0
    1: (1., 1., -1., 0., 0., 0., 1., 0., 0., 0.),
    # sphere of radius 2 centred in (1,1,1), written "inside out":
    # the inside of the sphere has POSITIVE sense
    2: (-1., -1., -1., 0., 0., 0., 4., 1., 1., 1.),
    # control: ordinary ellipsoid, G < 0
    3: (1., 2., 3., 0., 0., 0., -9., 1., 1., 1.),
}


# the equation of surface 1 again, this time as a GQ card (surface 4): MCNP
# gives both cards the same sense, so must the converter
GQ_TWIN = {4: (1., 1., -1., 0., 0., 0., 0., 0., 0., 1.)}


def gq_value(par, point):
    a, b, c, d, e, f, g, h, j, k = par
    x, y, z = point
    return (a * x * x + b * y * y + c * z * z + d * x * y + e * y * z
            + f * z * x + g * x + h * y + j * z + k)


def sq_value(par, point):
    a, b, c, d, e, f, g, x0, y0, z0 = par
    x, y, z = point
    return (a * (x - x0)**2 + b * (y - y0)**2 + c * (z - z0)**2
            + 2 * d * (x - x0) + 2 * e * (y - y0) + 2 * f * (z - z0) + g)


def main():
    cells = []
    for num in list(SQ_CARDS) + list(GQ_TWIN):
        cells.append(f'{10 * num + 1} 0 -{num} imp:n=1')
        cells.append(f'{10 * num + 2} 0 {num} imp:n=1')
    surfs = [f'{num} sq ' + ' '.join(str(p) for p in par)
             for num, par in SQ_CARDS.items()]
    surfs += [f'{num} gq ' + ' '.join(str(p) for p in par)
              for num, par in GQ_TWIN.items()]
    deck = ('sense of SQ surfaces\n' + '\n'.join(cells) + '\n\n'
            + '\n'.join(surfs) + '\n\n')
    code, log, text = run_converter(deck)
    if text is None:
        print('FAIL: the converter stopped on a valid deck '
              f'(exit status {code}):\n{log[-1500:]}')
        return 1
    t4_surfs, t4_vols = parse_t4(text)

    points = [(0., 0., 0.), (0., 0., 3.), (0.3, -0.2, -2.5), (2., 2., 0.5),
              (1., 1., 1.), (1.5, 0.5, 1.2), (4., 1., 1.), (-3., 2., 5.),
              (0.2, 0.1, 0.9), (1., 1., 3.5), (1., 1., 2.5), (2.2, 1., 1.)]
    errors = []
    all_cards = [(num, 'SQ', par, sq_value) for num, par in SQ_CARDS.items()]
    all_cards += [(num, 'GQ', par, gq_value) for num, par in GQ_TWIN.items()]
    for num, kind, par, func in all_cards:
        for point in points:
            val = func(par, point)
            if abs(val) < 1e-9:
                continue
            in_neg = in_volume(10 * num + 1, t4_surfs, t4_vols, point)
            in_pos = in_volume(10 * num + 2, t4_surfs, t4_vols, point)
            if in_neg != (val < 0) or in_pos != (val > 0):
                errors.append(
                    f'surface {num} ({kind} {par}): point {point} has '
                    f'f = {val:+.3f}, i.e. MCNP sense '
                    f'{"-" if val < 0 else "+"}, but the converted cells '
                    f'put it in cell "-{num}": {in_neg}, '
                    f'cell "+{num}": {in_pos}')
    if errors:
        print(f'FAIL: {len(errors)} point/surface pairs get the wrong sense '
              'for SQ (or GQ) surfaces; first: ' + errors[0])
        for err in errors[1:4]:
            print('      ' + err)
        for num in list(SQ_CARDS) + list(GQ_TWIN):
            if num in t4_surfs:
                print(f'      emitted surface {num}: {t4_surfs[num][0]} '
                      f'{t4_surfs[num][1]}')
        return 1
    print('PASS: all the SQ surfaces keep the sense given by the sign of '
          'their equation')
    return 0


if __name__ == '__main__':
    sys.exit(main())
