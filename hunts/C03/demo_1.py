#!/usr/bin/env python
'''C03 demo 1: a macrobody card written with the MCNP repeat shorthand (nR).

MCNP's horizontal input format (manual, "Card format": it applies to cell,
surface and data cards alike) lets any entry be followed by ``nR`` = "repeat the
preceding entry n times".  Macrobody cards are full of repeated zeros, so

    1 box 0 2r  2 0 2r  3 0 2r  4        (= 0 0 0  2 0 0  0 3 0  0 0 4)
    2 rcc 0 4r 10 3                      (= 0 0 0  0 0 10  3)

are ordinary, valid spellings.  The converter must produce the same solids as
for the fully spelled-out cards.  Run from the root of the tree:

    PYTHONPATH=/tmp/t4shim:<tree> /venv/bin/python demo_1.py
'''
import math
import os
import re
import subprocess
import sys
import tempfile

DECK = '''macrobody cards with the nR repeat shorthand
1 0 -1 imp:n=1
2 0 -2 1 imp:n=1
3 0 1 2 -99 imp:n=1
4 0 -1.3 -99 imp:n=1
5 0 2.2 -99 imp:n=1
9 0 99 imp:n=0

{box}
{rcc}
99 so 50

'''

EXPLICIT = dict(box='1 box 0 0 0  2 0 0  0 3 0  0 0 4',
                rcc='2 rcc 0 0 0  0 0 10  3')
SHORTHAND = dict(box='1 box 0 2r  2 0 2r  3 0 2r  4',
                 rcc='2 rcc 0 4r 10 3')


def convert(deck_text, name):
    tmpdir = tempfile.mkdtemp(prefix='c03_demo1_')
    deck = os.path.join(tmpdir, name + '.imcnp')
    out = os.path.join(tmpdir, name + '.t4')
    with open(deck, 'w') as fil:
        fil.write(deck_text)
    proc = subprocess.run(
        [sys.executable, '-c',
         'from t4_geom_convert.main import main; main()', deck, '-o', out],
        capture_output=True, text=True)
    return proc, out


def parse_t4(path):
    text = open(path).read()
    geom = text.split('GEOMETRY', 1)[1].split('ENDG', 1)[0]
    surfs, vols = {}, {}
    for line in geom.splitlines():
        tok = re.sub(r'//.*', '', line).split()
        if not tok:
            continue
        if tok[0] == 'SURF':
            surfs[int(tok[1])] = (tok[2], [float(x) for x in tok[3:]])
        elif tok[0] == 'VOLU':
            vol = {'PLUS': [], 'MINUS': [], 'INTE': [], 'UNION': [],
                   'FICTIVE': False}
            i = 3
            while tok[i] != 'ENDV':
                if tok[i] == 'FICTIVE':
                    vol['FICTIVE'] = True
                    i += 1
                else:
                    num = int(tok[i + 1])
                    vol[tok[i]] = [int(x) for x in tok[i + 2:i + 2 + num]]
                    i += 2 + num
            vols[int(tok[1])] = vol
    return surfs, vols


def surf_val(surf, pnt):
    typ, par = surf
    x, y, z = pnt
    if typ == 'PLANEX':
        return x - par[0]
    if typ == 'PLANEY':
        return y - par[0]
    if typ == 'PLANEZ':
        return z - par[0]
    if typ == 'PLANE':
        return par[0] * x + par[1] * y + par[2] * z + par[3]
    if typ == 'SPHERE':
        return ((x - par[0])**2 + (y - par[1])**2 + (z - par[2])**2
                - par[3]**2)
    if typ == 'CYLX':
        return (y - par[0])**2 + (z - par[1])**2 - par[2]**2
    if typ == 'CYLY':
        return (x - par[0])**2 + (z - par[1])**2 - par[2]**2
    if typ == 'CYLZ':
        return (x - par[0])**2 + (y - par[1])**2 - par[2]**2
    if typ == 'CYL':
        nrm = math.sqrt(sum(c * c for c in par[4:7]))
        uvec = [c / nrm for c in par[4:7]]
        dvec = [x - par[0], y - par[1], z - par[2]]
        along = sum(a * b for a, b in zip(dvec, uvec))
        return sum(c * c for c in dvec) - along**2 - par[3]**2
    raise ValueError('surface type not handled by the demo: ' + typ)


def in_vol(surfs, vols, vid, pnt):
    vol = vols[vid]
    equa = (all(surf_val(surfs[s], pnt) > 0 for s in vol['PLUS'])
            and all(surf_val(surfs[s], pnt) < 0 for s in vol['MINUS']))
    if vol['UNION']:
        return equa or any(in_vol(surfs, vols, w, pnt) for w in vol['UNION'])
    if vol['INTE']:
        return equa and all(in_vol(surfs, vols, w, pnt) for w in vol['INTE'])
    return equa


def expected(pnt):
    '''The MCNP meaning of cells 1..5 at `pnt`.'''
    x, y, z = pnt
    in_box = 0 < x < 2 and 0 < y < 3 and 0 < z < 4
    in_rcc = x * x + y * y < 9 and 0 < z < 10
    in_sph = x * x + y * y + z * z < 2500
    cells = set()
    if in_box:
        cells.add(1)
    if in_rcc and not in_box:
        cells.add(2)
    if not in_box and not in_rcc and in_sph:
        cells.add(3)
    if y < 3 and in_sph:      # -1.3: inner side of the facet at the end of a2
        cells.add(4)
    if z > 10 and in_sph:     # +2.2: outer side of the RCC top plane
        cells.add(5)
    return cells


POINTS = [(1, 1, 1), (1, 2.5, 3.5), (-1, -1, 5), (1, 1, 7), (2.5, 0.5, 1),
          (1, 3.5, 1), (0, 0, 12), (5, 5, 5), (0.5, 0.5, -2), (-2, 1, 11)]


def cells_at(surfs, vols, pnt):
    return set(vid for vid in (1, 2, 3, 4, 5)
               if vid in vols and in_vol(surfs, vols, vid, pnt))


def main():
    # control: the fully spelled-out cards
    proc, out = convert(DECK.format(**EXPLICIT), 'explicit')
    if proc.returncode != 0:
        print('FAIL: even the explicit deck does not convert:',
              proc.stderr.strip().splitlines()[-1:])
        return 1
    surfs, vols = parse_t4(out)
    for pnt in POINTS:
        if cells_at(surfs, vols, pnt) != expected(pnt):
            print(f'FAIL: explicit deck: point {pnt} is in cells '
                  f'{sorted(cells_at(surfs, vols, pnt))}, expected '
                  f'{sorted(expected(pnt))}')
            return 1

    # the same cards with the nR shorthand
    proc, out = convert(DECK.format(**SHORTHAND), 'shorthand')
    if proc.returncode != 0:
        last = (proc.stderr.strip().splitlines() or ['<no message>'])[-1]
        print('FAIL: BOX/RCC cards written with the MCNP repeat shorthand '
              '(e.g. "box 0 2r 2 0 2r 3 0 2r 4") crash the converter '
              f'instead of giving the same solids: {last}')
        return 1
    surfs, vols = parse_t4(out)
    for pnt in POINTS:
        got = cells_at(surfs, vols, pnt)
        if got != expected(pnt):
            print(f'FAIL: with the nR shorthand, point {pnt} is in cells '
                  f'{sorted(got)}, expected {sorted(expected(pnt))}')
            return 1
    print('PASS: macrobody cards with the nR shorthand give the same solids '
          'as the explicit cards')
    return 0


if __name__ == '__main__':
    sys.exit(main())
