#!/usr/bin/env python
'''C03 demo 2: an ARB macrobody that leaves one of its first corners unused.

The MCNP manual (ARB): "There must be eight triplets of entries input for the
ARB to describe the (x,y,z) of the corners, although some may not be used
(just use zero triplets of entries)", and the facets are identified by the
*numbers* of the corners they join.  A triangular prism obtained from a
box-like corner numbering (bottom 1-2-3-4, top 5-6-7-8) by dropping the edge
4-8 is therefore written with zero triplets for corners 4 and 8 and the five
facets 1230 5670 1265 2376 1375 (sixth facet 0).  The converter must give the
prism 0<x, 0<y, x+y<4, 0<z<5.  Run from the root of the tree:

    PYTHONPATH=/tmp/t4shim:<tree> /venv/bin/python demo_2.py
'''
import math
import os
import re
import subprocess
import sys
import tempfile

DECK = '''ARB with unused corners 4 and 8
1 0 -1 imp:n=1
2 0 1 -99 imp:n=1
3 0 -1.4 -99 imp:n=1
4 0 1.3 -99 imp:n=1
9 0 99 imp:n=0

1 arb 0 0 0  4 0 0  0 4 0  0 0 0
      0 0 5  4 0 5  0 4 5  0 0 0
      1230 5670 1265 2376 1375 0
99 so 50

'''

# control: the same prism with its six corners numbered 1..6
DECK_CONTROL = DECK.replace('''1 arb 0 0 0  4 0 0  0 4 0  0 0 0
      0 0 5  4 0 5  0 4 5  0 0 0
      1230 5670 1265 2376 1375 0''', '''1 arb 0 0 0  4 0 0  0 4 0
      0 0 5  4 0 5  0 4 5  0 0 0  0 0 0
      1230 4560 1254 2365 1364 0''')


def convert(deck_text, name):
    tmpdir = tempfile.mkdtemp(prefix='c03_demo2_')
    deck = os.path.join(tmpdir, name + '.imcnp')
    out = os.path.join(tmpdir, name + '.t4')
    with open(deck, 'w') as fil:
        fil.write(deck_text)
    proc = subprocess.run(
        [sys.executable, '-c',
         'from t4_geom_convert.main import main; main()', deck, '-o', out],
        capture_output=True, text=True)
    return proc, out


def parse_t4(path):
    text = open(path).read()
    geom = text.split('GEOMETRY', 1)[1].split('ENDG', 1)[0]
    surfs, vols = {}, {}
    for line in geom.splitlines():
        tok = re.sub(r'//.*', '', line).split()
        if not tok:
            continue
        if tok[0] == 'SURF':
            surfs[int(tok[1])] = (tok[2], [float(x) for x in tok[3:]])
        elif tok[0] == 'VOLU':
            vol = {'PLUS': [], 'MINUS': [], 'INTE': [], 'UNION': [],
                   'FICTIVE': False}
            i = 3
            while tok[i] != 'ENDV':
                if tok[i] == 'FICTIVE':
                    vol['FICTIVE'] = True
                    i += 1
                else:
                    num = int(tok[i + 1])
                    vol[tok[i]] = [int(x) for x in tok[i + 2:i + 2 + num]]
                    i += 2 + num
            vols[int(tok[1])] = vol
    return surfs, vols


def surf_val(surf, pnt):
    typ, par = surf
    x, y, z = pnt
    if typ == 'PLANEX':
        return x - par[0]
    if typ == 'PLANEY':
        return y - par[0]
    if typ == 'PLANEZ':
        return z - par[0]
    if typ == 'PLANE':
        return par[0] * x + par[1] * y + par[2] * z + par[3]
    if typ == 'SPHERE':
        return ((x - par[0])**2 + (y - par[1])**2 + (z - par[2])**2
                - par[3]**2)
    if typ == 'CYLX':
        return (y - par[0])**2 + (z - par[1])**2 - par[2]**2
    if typ == 'CYLY':
        return (x - par[0])**2 + (z - par[1])**2 - par[2]**2
    if typ == 'CYLZ':
        return (x - par[0])**2 + (y - par[1])**2 - par[2]**2
    if typ == 'CYL':
        nrm = math.sqrt(sum(c * c for c in par[4:7]))
        uvec = [c / nrm for c in par[4:7]]
        dvec = [x - par[0], y - par[1], z - par[2]]
        along = sum(a * b for a, b in zip(dvec, uvec))
        return sum(c * c for c in dvec) - along**2 - par[3]**2
    raise ValueError('surface type not handled by the demo: ' + typ)


def in_vol(surfs, vols, vid, pnt):
    vol = vols[vid]
    equa = (all(surf_val(surfs[s], pnt) > 0 for s in vol['PLUS'])
            and all(surf_val(surfs[s], pnt) < 0 for s in vol['MINUS']))
    if vol['UNION']:
        return equa or any(in_vol(surfs, vols, w, pnt) for w in vol['UNION'])
    if vol['INTE']:
        return equa and all(in_vol(surfs, vols, w, pnt) for w in vol['INTE'])
    return equa


def expected(pnt):
    '''The MCNP meaning of cells 1..4 at `pnt`.'''
    x, y, z = pnt
    in_arb = x > 0 and y > 0 and x + y < 4 and 0 < z < 5
    in_sph = x * x + y * y + z * z < 2500
    cells = set()
    if in_arb:
        cells.add(1)
    if not in_arb and in_sph:
        cells.add(2)
    if x + y < 4 and in_sph:   # -1.4: inner side of the slanted facet 2376
        cells.add(3)
    if y < 0 and in_sph:       # +1.3: outer side of the facet 1265 (y=0)
        cells.add(4)
    return cells


POINTS = [(1, 1, 2.5), (3, 3, 2.5), (1, 1, 6), (-1, 1, 2), (1, -1, 2),
          (1, 1, -1), (0.5, 3, 4.5), (3, 0.5, 0.5), (2.5, 2.5, 1), (-3, -3, 20)]


def cells_at(surfs, vols, pnt):
    return set(vid for vid in (1, 2, 3, 4)
               if vid in vols and in_vol(surfs, vols, vid, pnt))


def main():
    proc, out = convert(DECK_CONTROL, 'control')
    if proc.returncode != 0:
        print('FAIL: even the control deck (corners numbered 1..6) does not '
              'convert:', proc.stderr.strip().splitlines()[-1:])
        return 1
    surfs, vols = parse_t4(out)
    for pnt in POINTS:
        if cells_at(surfs, vols, pnt) != expected(pnt):
            print(f'FAIL: control deck: point {pnt} is in cells '
                  f'{sorted(cells_at(surfs, vols, pnt))}, expected '
                  f'{sorted(expected(pnt))}')
            return 1

    proc, out = convert(DECK, 'unused_corner')
    if proc.returncode != 0:
        last = (proc.stderr.strip().splitlines() or ['<no message>'])[-1]
        print('FAIL: an ARB whose unused (zero) corners are not the last ones '
              '(corners 4 and 8 unused, facets 1230 5670 1265 2376 1375) '
              f'crashes the converter: {last}')
        return 1
    surfs, vols = parse_t4(out)
    for pnt in POINTS:
        got = cells_at(surfs, vols, pnt)
        if got != expected(pnt):
            print(f'FAIL: ARB with unused corners 4 and 8: point {pnt} is in '
                  f'cells {sorted(got)}, expected {sorted(expected(pnt))}')
            return 1
    print('PASS: the ARB with unused corners 4 and 8 is the expected prism')
    return 0


if __name__ == '__main__':
    sys.exit(main())
