#!/usr/bin/env python
'''C17 demo 1: a lattice cell (LAT=1) that has no FILL keyword.

MCNP accepts a lattice cell without FILL: every element of the lattice is then
filled with the material of the lattice cell itself (this is the usual way to
build a homogeneous voxel grid for lattice tallies). The converter can only
develop a lattice whose index ranges come from FILL (array) or from --lattice
(FILL=n). Here the ranges are given with --lattice, so either the lattice is
developed, or the run must stop with an error that names the problem.

Expected (property C17): a conversion that contains the lattice elements, or a
deliberate error naming the problem.
Observed on the defective tree: a bare ``AssertionError`` (no message) raised
from CellConversion.develop_lattice.
'''
import contextlib
import io
import os
import sys
import tempfile

DECK = '''lattice cell without FILL: filled with its own material
1 1 -1.0 -1 2 -3 4 imp:n=1 u=1 lat=1 {fill}
2 0 -10 fill=1 imp:n=1
3 0 10 imp:n=0

1 px 1
2 px -1
3 py 1
4 py -1
10 so 5

m1 1001 1
'''

INTERNAL = (AssertionError, AttributeError, KeyError, IndexError, TypeError,
            ZeroDivisionError, NameError, RecursionError)


def convert(deck, options):
    '''Run the converter, return (exception or None, output text or None).'''
    from t4_geom_convert.main import main
    with tempfile.TemporaryDirectory() as tmp:
        inp = os.path.join(tmp, 'deck.imcnp')
        out = os.path.join(tmp, 'deck.t4')
        with open(inp, 'w') as fil:
            fil.write(deck)
        old_argv = sys.argv
        sys.argv = ['t4_geom_convert', inp, '-o', out] + list(options)
        buf = io.StringIO()
        try:
            with contextlib.redirect_stdout(buf), \
                    contextlib.redirect_stderr(buf):
                main()
        except SystemExit as err:
            if err.code not in (0, None):
                return err, None
        except Exception as err:  # pylint: disable=broad-except
            return err, None
        finally:
            sys.argv = old_argv
        with open(out) as fil:
            return None, fil.read()


def n_volumes_of(text, compo_prefix):
    '''Number of volumes associated to the composition in GEOMCOMP.'''
    in_block = False
    for line in text.splitlines():
        if line.strip() == 'GEOMCOMP':
            in_block = True
            continue
        if line.strip() == 'END_GEOMCOMP':
            in_block = False
        if in_block and line.startswith(compo_prefix):
            return int(line.split()[1])
    return 0


def run():
    opts = ['--lattice', '1,-1:1,-1:1']
    # control: the same lattice, with the explicit spelling FILL=<own universe>
    err_c, text_c = convert(DECK.format(fill='fill=1'), opts)
    if err_c is None:
        print('control (FILL=1, i.e. own universe): converted, '
              f'{n_volumes_of(text_c, "m1_")} volumes of material 1')
    else:
        print(f'control (FILL=1) raised {type(err_c).__name__}: {err_c}')

    err, text = convert(DECK.format(fill=''), opts)
    if err is not None:
        if isinstance(err, INTERNAL) or not str(err).strip():
            print(f'FAIL: a LAT=1 cell without FILL (valid MCNP, ranges given '
                  f'with --lattice) stops with the internal error '
                  f'{type(err).__name__}({str(err)!r}) instead of being '
                  'converted or refused with an error naming the problem')
            return 1
        print(f'PASS: refused with {type(err).__name__}: {err}')
        return 0
    n_vol = n_volumes_of(text, 'm1_')
    if n_vol < 9:
        print('FAIL: the conversion finished normally but only '
              f'{n_vol} volumes of material 1 were generated; the 9 lattice '
              'elements of the 3x3 range are all inside the filled sphere')
        return 1
    print(f'PASS: the lattice was developed ({n_vol} volumes of material 1)')
    return 0


if __name__ == '__main__':
    sys.exit(run())
