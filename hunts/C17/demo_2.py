#!/usr/bin/env python
'''C17 demo 2: a malformed --lattice argument (range bounds in the wrong order)
is accepted and the whole lattice silently disappears from the output.

The --lattice syntax is <cell>,<i-from>:<i-to>[,<j-from>:<j-to>[,...]] where
the first number of each range is the lower bound and the second one the upper
bound. `1,1:-1,1:-1` (lower bound greater than upper bound, the same mistake
that MCNP reports as a fatal error in FILL=1:-1) is malformed. With ONE
reversed range the run happens to stop (with an obscure "must have exactly -1
elements"), but with TWO reversed ranges the negative sizes multiply to a
positive number, the consistency check passes, no lattice element at all is
generated and the conversion finishes normally. `1,1:0,0:0` (size zero) behaves
the same.

Expected (property C17): an error naming the malformed option.
Observed on the defective tree: normal end of the conversion; the sphere that
is filled by the lattice contains no volume at all.
'''
import contextlib
import io
import os
import sys
import tempfile

DECK = '''square lattice of pins in a sphere, plus an outer shell
1 0 -1 2 -3 4 imp:n=1 u=1 lat=1 fill=2
5 1 -1.0 -11 u=2 imp:n=1
6 0 11 u=2 imp:n=1
2 0 -10 fill=1 imp:n=1
7 1 -1.0 10 -12 imp:n=1
3 0 12 imp:n=0

1 px 1
2 px -1
3 py 1
4 py -1
10 so 5
11 so 0.5
12 so 8

m1 1001 1
'''


def convert(deck, options):
    '''Run the converter, return (exception or None, output text or None).'''
    from t4_geom_convert.main import main
    with tempfile.TemporaryDirectory() as tmp:
        inp = os.path.join(tmp, 'deck.imcnp')
        out = os.path.join(tmp, 'deck.t4')
        with open(inp, 'w') as fil:
            fil.write(deck)
        old_argv = sys.argv
        sys.argv = ['t4_geom_convert', inp, '-o', out] + list(options)
        buf = io.StringIO()
        try:
            with contextlib.redirect_stdout(buf), \
                    contextlib.redirect_stderr(buf):
                main()
        except SystemExit as err:
            if err.code not in (0, None):
                return err, None
        except Exception as err:  # pylint: disable=broad-except
            return err, None
        finally:
            sys.argv = old_argv
        with open(out) as fil:
            return None, fil.read()


def real_volumes(text):
    '''IDs of the non-fictive volumes of the output.'''
    return [line.split()[1] for line in text.splitlines()
            if line.startswith('VOLU') and 'FICTIVE' not in line]


def run():
    # control: well-formed ranges give the 9 pins + 9 pin surroundings + shell
    err, text = convert(DECK, ['--lattice', '1,-1:1,-1:1'])
    if err is not None:
        print(f'control (1,-1:1,-1:1) raised {type(err).__name__}: {err}')
    else:
        print(f'control (1,-1:1,-1:1): {len(real_volumes(text))} volumes')

    accepted = []
    for option in ('1,1:-1,1:-1', '1,1:0,0:0'):
        err, text = convert(DECK, ['--lattice', option])
        if err is None:
            accepted.append((option, real_volumes(text)))
        else:
            print(f'--lattice {option}: refused with '
                  f'{type(err).__name__}: {err}')
    if accepted:
        details = '; '.join(f'--lattice {opt} -> volumes {vols}'
                            for opt, vols in accepted)
        print('FAIL: malformed --lattice ranges (lower bound > upper bound) '
              'are accepted and the conversion finishes normally with the '
              'lattice missing from the output (only the outer shell, cell 7, '
              f'is left): {details}')
        return 1
    print('PASS: the malformed --lattice ranges were refused')
    return 0


if __name__ == '__main__':
    sys.exit(run())
