#!/usr/bin/env python
'''C17 demo 3: a material given by weight fractions in a cell whose density is
an atom density is not supported by the converter, but the run does not stop:
it prints a warning, writes a composition that contains no nuclide at all and
finishes normally.

In MCNP the sign of the density on the cell card (positive: atoms/(b cm),
negative: g/cm3) and the sign of the fractions on the M card (positive: atom
fractions, negative: weight fractions) are independent of each other, so this
deck is valid MCNP. ConstructCompositionT4.constructCompositionT4 detects the
combination ("... are not supported at the moment") but only calls
warnings.warn() and carries on with an empty nuclide list.

Expected (property C17): the run stops with an error naming the unsupported
combination (or converts the composition correctly).
Observed on the defective tree: the conversion finishes normally and the output
contains `POINT_WISE 300 m1_0.1 0`, i.e. water has become a material without
any nuclide.
'''
import contextlib
import io
import os
import sys
import tempfile
import warnings

DECK = '''water given by weight fractions, atom density on the cell card
1 1 0.1 -1 imp:n=1
2 0 1 imp:n=0

1 so 5

m1 1001 -0.111894 8016 -0.888106
'''


def convert(deck, options):
    '''Run the converter, return (exception or None, output text or None).'''
    from t4_geom_convert.main import main
    with tempfile.TemporaryDirectory() as tmp:
        inp = os.path.join(tmp, 'deck.imcnp')
        out = os.path.join(tmp, 'deck.t4')
        with open(inp, 'w') as fil:
            fil.write(deck)
        old_argv = sys.argv
        sys.argv = ['t4_geom_convert', inp, '-o', out] + list(options)
        buf = io.StringIO()
        try:
            with contextlib.redirect_stdout(buf), \
                    contextlib.redirect_stderr(buf), \
                    warnings.catch_warnings():
                warnings.simplefilter('ignore')
                main()
        except SystemExit as err:
            if err.code not in (0, None):
                return err, None
        except Exception as err:  # pylint: disable=broad-except
            return err, None
        finally:
            sys.argv = old_argv
        with open(out) as fil:
            return None, fil.read()


def compositions(text):
    '''Parse the COMPOSITION block: {name: [(nuclide, value), ...]}.'''
    compos = {}
    lines = text.splitlines()
    try:
        start = lines.index('COMPOSITION')
    except ValueError:
        return compos
    current = None
    for line in lines[start + 2:]:
        tokens = line.split()
        if not tokens:
            continue
        if tokens[0] == 'END_COMPOSITION':
            break
        if tokens[0] in ('POINT_WISE', 'DENSITY'):
            current = tokens[2]
            compos[current] = []
        elif current is not None and len(tokens) == 2:
            compos[current].append((tokens[0], float(tokens[1])))
    return compos


def run():
    err, text = convert(DECK, [])
    if err is not None:
        print(f'PASS: the run stopped with {type(err).__name__}: {err}')
        return 0
    compos = compositions(text)
    water = [(name, nuclides) for name, nuclides in compos.items()
             if name.startswith('m1_')]
    geomcomp = [line for line in text.splitlines() if line.startswith('m1_')]
    if not water:
        print('FAIL: the conversion finished normally but material 1 is '
              'missing from the COMPOSITION block')
        return 1
    name, nuclides = water[0]
    names = {nuc for nuc, _ in nuclides}
    if not {'H1', 'O16'} <= names or any(val <= 0. for _, val in nuclides):
        print('FAIL: weight fractions + atom density is reported as '
              '"not supported" only through a warning; the conversion '
              f'finishes normally and composition {name} (assigned to the '
              f'volumes in GEOMCOMP line {geomcomp}) has the nuclide list '
              f'{nuclides} instead of H1 and O16')
        return 1
    print(f'PASS: composition {name} was converted: {nuclides}')
    return 0


if __name__ == '__main__':
    sys.exit(run())
