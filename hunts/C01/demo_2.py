#!/usr/bin/env python
"""C01 demo 2: when the importance of one particle type is given on the cell
cards (IMP:P=...) and the importance of another one on a data card (IMP:N ...),
the data card is ignored: a cell with IMP:P=0 on its card and a neutron
importance of 1 on the IMP:N card is dropped from the TRIPOLI-4 geometry,
although the converter keeps it when the very same importances are written
both on the cell cards or both on data cards.

Run from the root of the tree:
    PYTHONPATH=/tmp/t4shim:<tree> /venv/bin/python _found/demo_2.py
"""
import contextlib
import io
import os
import random
import sys
import tempfile

SURFACES = """\
1 so 3
2 px 0
3 py 1
4 so 4
5 so 5
"""
DATA = """\
mode n p
m1 13027 1
sdef pos=1 0 0 erg=2
nps 1000
"""
# cell 2 (a shield region): photons are killed there (IMP:P=0) but neutrons
# are transported (IMP:N=1), so the cell has a non-zero importance.
# Deck A: IMP:P on the cell cards, IMP:N on a data card.
DECK_MIXED = """\
C01 demo: photon importances on the cell cards, neutron importances in data
1 1 -2.7  -1 2              imp:p=1
2 1 -2.7  -1 -2 : (1 -4 -3) imp:p=0
3 0       #1 #2 -5          imp:p=1
4 0       5                 imp:p=0

""" + SURFACES + "\n" + DATA + "imp:n 1 1 1 0\n"
# Deck B: the same importances, all on the cell cards.
DECK_CELLS = """\
C01 demo: all importances on the cell cards
1 1 -2.7  -1 2              imp:p=1 imp:n=1
2 1 -2.7  -1 -2 : (1 -4 -3) imp:p=0 imp:n=1
3 0       #1 #2 -5          imp:p=1 imp:n=1
4 0       5                 imp:p=0 imp:n=0

""" + SURFACES + "\n" + DATA
# Deck C: the same importances, all on data cards.
DECK_DATA = """\
C01 demo: all importances on data cards
1 1 -2.7  -1 2
2 1 -2.7  -1 -2 : (1 -4 -3)
3 0       #1 #2 -5
4 0       5

""" + SURFACES + "\n" + DATA + "imp:n 1 1 1 0\nimp:p 1 0 1 0\n"


def run_converter(deck):
    from t4_geom_convert.main import parse_args, conversion
    tmpdir = tempfile.mkdtemp(prefix='c01_demo2_')
    inp = os.path.join(tmpdir, 'deck.imcnp')
    out = os.path.join(tmpdir, 'deck.t4')
    with open(inp, 'w') as fil:
        fil.write(deck)
    sink = io.StringIO()
    with contextlib.redirect_stdout(sink), contextlib.redirect_stderr(sink):
        conversion(parse_args([inp, '-o', out]))
    with open(out) as fil:
        return fil.read()


# ---- minimal TRIPOLI-4 reader/evaluator (planes and spheres are enough) ----
def parse_t4(text):
    surfs, vols = {}, {}
    for line in text.splitlines():
        line = line.split('//')[0].split()
        if not line:
            continue
        if line[0] == 'SURF':
            surfs[int(line[1])] = (line[2], [float(x) for x in line[3:]])
        elif line[0] == 'VOLU':
            tok = line[3:-1]
            plus, minus, ops, fictive, i = [], [], None, False, 0
            while i < len(tok):
                if tok[i] in ('PLUS', 'MINUS'):
                    n = int(tok[i + 1])
                    ids = [int(x) for x in tok[i + 2:i + 2 + n]]
                    (plus if tok[i] == 'PLUS' else minus).extend(ids)
                    i += 2 + n
                elif tok[i] in ('INTE', 'UNION'):
                    n = int(tok[i + 1])
                    ops = (tok[i], [int(x) for x in tok[i + 2:i + 2 + n]])
                    i += 2 + n
                elif tok[i] == 'FICTIVE':
                    fictive = True
                    i += 1
                else:
                    raise ValueError('cannot read VOLU: %r' % (line,))
            vols[int(line[1])] = (plus, minus, ops, fictive)
    return surfs, vols


def side(surf, pnt):
    typ, par = surf
    x, y, z = pnt
    if typ == 'PLANEX':
        return x - par[0]
    if typ == 'PLANEY':
        return y - par[0]
    if typ == 'PLANEZ':
        return z - par[0]
    if typ == 'PLANE':
        return par[0] * x + par[1] * y + par[2] * z + par[3]
    if typ == 'SPHERE':
        return ((x - par[0])**2 + (y - par[1])**2 + (z - par[2])**2
                - par[3]**2)
    raise ValueError('unexpected surface type ' + typ)


def inside(vid, pnt, surfs, vols):
    plus, minus, ops, _ = vols[vid]
    base = (all(side(surfs[s], pnt) > 0 for s in plus)
            and all(side(surfs[s], pnt) < 0 for s in minus))
    if ops is None:
        return base
    if ops[0] == 'INTE':
        return base and all(inside(v, pnt, surfs, vols) for v in ops[1])
    return base or any(inside(v, pnt, surfs, vols) for v in ops[1])


def mcnp_owner(pnt):
    """Reference: the MCNP cell that owns the point (None: importance 0)."""
    x, y, z = pnt
    r2 = x * x + y * y + z * z
    s1, s2, s3, s4, s5 = r2 - 9, x, y - 1, r2 - 16, r2 - 25
    if min(abs(v) for v in (s1, s2, s3, s4, s5)) < 1e-6:
        return 'skip'
    if s1 < 0 and s2 > 0:
        return 1
    if (s1 < 0 and s2 < 0) or (s1 > 0 and s4 < 0 and s3 < 0):
        return 2
    if s5 < 0:
        return 3
    return None


def check_geometry(text):
    surfs, vols = parse_t4(text)
    rnd = random.Random(12345)
    for _ in range(3000):
        pnt = tuple(rnd.uniform(-5.5, 5.5) for _ in range(3))
        exp = mcnp_owner(pnt)
        if exp == 'skip':
            continue
        got = sorted(v for v, val in vols.items()
                     if not val[3] and inside(v, pnt, surfs, vols))
        if got != ([] if exp is None else [exp]):
            return 'point %r: expected cell %r, found volumes %r' % (pnt, exp,
                                                                     got)
    return None


def main():
    results = {}
    for name, deck in (('cell cards only', DECK_CELLS),
                       ('data cards only', DECK_DATA),
                       ('IMP:P on cell cards + IMP:N data card', DECK_MIXED)):
        try:
            text = run_converter(deck)
        except Exception as exc:  # pylint: disable=broad-except
            print('FAIL: deck "%s" is not converted: %s: %s'
                  % (name, type(exc).__name__, exc))
            return 1
        results[name] = (check_geometry(text),
                         sorted(v for v, val in parse_t4(text)[1].items()
                                if not val[3]))
    for name in ('cell cards only', 'data cards only'):
        if results[name][0]:
            print('FAIL (control deck "%s" converted wrongly: %s)'
                  % (name, results[name][0]))
            return 1
    err, volumes = results['IMP:P on cell cards + IMP:N data card']
    if err:
        print('FAIL: cell 2 has IMP:P=0 on its cell card and IMP:N=1 on the '
              'IMP:N data card, i.e. a non-zero importance, but its region is '
              'not covered by any volume (%s); non-virtual volumes emitted: %r, '
              'whereas the same importances written all on cell cards or all '
              'on data cards give volumes %r'
              % (err, volumes, results['cell cards only'][1]))
        return 1
    print('PASS: the three spellings of the importances give the same, '
          'correct geometry (volumes %r)' % (volumes,))
    return 0


if __name__ == '__main__':
    sys.exit(main())
