#!/usr/bin/env python
"""C01 demo 1: a '+F6' (collision heating) tally card in the data block makes
the conversion of a plain boolean-cell deck die with AttributeError.

Run from the root of the tree:
    PYTHONPATH=/tmp/t4shim:<tree> /venv/bin/python _found/demo_1.py
"""
import contextlib
import io
import os
import random
import sys
import tempfile
import traceback

CELLS = """\
C01 demo: boolean cells next to an ordinary tally block
1 1 -2.7  -1 2            imp:n=1
2 1 -2.7  -1 -2 : (1 -4 -3) imp:n=1
3 0       #1 #2 -5        imp:n=1
4 0       5               imp:n=0

1 so 3
2 px 0
3 py 1
4 so 4
5 so 5

"""
# The data block of a real deck.  '+F6' is the collision-heating tally of
# MCNP5/MCNPX/MCNP6: it has no particle designator and its name starts with
# a plus sign.
DATA_PLUS = """\
mode n p
m1 13027 1
sdef pos=0 0 0 erg=2
f4:n 1 2
+f6 1 2
nps 1000
"""
DATA_PLAIN = DATA_PLUS.replace('+f6 1 2\n', 'f6:n 1 2\n')


def run_converter(deck):
    from t4_geom_convert.main import parse_args, conversion
    tmpdir = tempfile.mkdtemp(prefix='c01_demo1_')
    inp = os.path.join(tmpdir, 'deck.imcnp')
    out = os.path.join(tmpdir, 'deck.t4')
    with open(inp, 'w') as fil:
        fil.write(deck)
    sink = io.StringIO()
    with contextlib.redirect_stdout(sink), contextlib.redirect_stderr(sink):
        conversion(parse_args([inp, '-o', out]))
    with open(out) as fil:
        return fil.read()


# ---- minimal TRIPOLI-4 reader/evaluator (planes and spheres are enough) ----
def parse_t4(text):
    surfs, vols = {}, {}
    for line in text.splitlines():
        line = line.split('//')[0].split()
        if not line:
            continue
        if line[0] == 'SURF':
            surfs[int(line[1])] = (line[2], [float(x) for x in line[3:]])
        elif line[0] == 'VOLU':
            tok = line[3:-1]
            plus, minus, ops, fictive, i = [], [], None, False, 0
            while i < len(tok):
                if tok[i] in ('PLUS', 'MINUS'):
                    n = int(tok[i + 1])
                    ids = [int(x) for x in tok[i + 2:i + 2 + n]]
                    (plus if tok[i] == 'PLUS' else minus).extend(ids)
                    i += 2 + n
                elif tok[i] in ('INTE', 'UNION'):
                    n = int(tok[i + 1])
                    ops = (tok[i], [int(x) for x in tok[i + 2:i + 2 + n]])
                    i += 2 + n
                elif tok[i] == 'FICTIVE':
                    fictive = True
                    i += 1
                else:
                    raise ValueError('cannot read VOLU: %r' % (line,))
            vols[int(line[1])] = (plus, minus, ops, fictive)
    return surfs, vols


def side(surf, pnt):
    typ, par = surf
    x, y, z = pnt
    if typ == 'PLANEX':
        return x - par[0]
    if typ == 'PLANEY':
        return y - par[0]
    if typ == 'PLANEZ':
        return z - par[0]
    if typ == 'PLANE':
        return par[0] * x + par[1] * y + par[2] * z + par[3]
    if typ == 'SPHERE':
        return ((x - par[0])**2 + (y - par[1])**2 + (z - par[2])**2
                - par[3]**2)
    raise ValueError('unexpected surface type ' + typ)


def inside(vid, pnt, surfs, vols):
    plus, minus, ops, _ = vols[vid]
    base = (all(side(surfs[s], pnt) > 0 for s in plus)
            and all(side(surfs[s], pnt) < 0 for s in minus))
    if ops is None:
        return base
    if ops[0] == 'INTE':
        return base and all(inside(v, pnt, surfs, vols) for v in ops[1])
    return base or any(inside(v, pnt, surfs, vols) for v in ops[1])


def mcnp_owner(pnt):
    """Reference: the MCNP cell that owns the point (None: importance 0)."""
    x, y, z = pnt
    r2 = x * x + y * y + z * z
    s1, s2, s3, s4, s5 = r2 - 9, x, y - 1, r2 - 16, r2 - 25
    if min(abs(v) for v in (s1, s2, s3, s4, s5)) < 1e-6:
        return 'skip'
    if s1 < 0 and s2 > 0:
        return 1
    if (s1 < 0 and s2 < 0) or (s1 > 0 and s4 < 0 and s3 < 0):
        return 2
    if s5 < 0:
        return 3
    return None


def check_geometry(text):
    surfs, vols = parse_t4(text)
    rnd = random.Random(12345)
    for _ in range(3000):
        pnt = tuple(rnd.uniform(-5.5, 5.5) for _ in range(3))
        exp = mcnp_owner(pnt)
        if exp == 'skip':
            continue
        got = sorted(v for v, val in vols.items()
                     if not val[3] and inside(v, pnt, surfs, vols))
        if got != ([] if exp is None else [exp]):
            return 'point %r: expected cell %r, found volumes %r' % (pnt, exp,
                                                                     got)
    return None


def main():
    # sanity: the same deck with an ordinary F6:N tally must convert
    try:
        err = check_geometry(run_converter(CELLS + DATA_PLAIN))
    except Exception as exc:  # pylint: disable=broad-except
        print('FAIL (control deck without +F6 does not convert either: '
              '%s: %s)' % (type(exc).__name__, exc))
        return 1
    if err:
        print('FAIL (control deck converted wrongly: %s)' % err)
        return 1

    try:
        text = run_converter(CELLS + DATA_PLUS)
    except Exception as exc:  # pylint: disable=broad-except
        last = traceback.extract_tb(exc.__traceback__)[-1]
        print('FAIL: a deck whose data block contains the valid tally card '
              '"+F6 1 2" is not converted: %s: %s (raised in %s:%d, %s); the '
              'same deck with "F6:N 1 2" converts correctly'
              % (type(exc).__name__, exc, os.path.basename(last.filename),
                 last.lineno, last.name))
        return 1
    err = check_geometry(text)
    if err:
        print('FAIL: deck with +F6 converted to a wrong geometry: ' + err)
        return 1
    print('PASS: deck with a +F6 card converted, every sampled point is in '
          'the volume of its cell')
    return 0


if __name__ == '__main__':
    sys.exit(main())
