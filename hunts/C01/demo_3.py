#!/usr/bin/env python
"""C01 demo 3: a cell whose description has many operands (here a block
pierced by N=700 small spherical holes: "-9001 1 2 3 ... 700", and the cell
that is the union of the holes) makes the converter die with RecursionError.
The cell expression is parsed into a left-deep binary tree and every pass over
it (pot_complement, pot_flag, ...) recurses once or twice per operand, so the
conversion fails as soon as a cell has about 500 operands.

Run from the root of the tree:
    PYTHONPATH=/tmp/t4shim:<tree> /venv/bin/python _found/demo_3.py
"""
import contextlib
import io
import os
import random
import sys
import tempfile
import traceback

N_LARGE = 700
N_SMALL = 40
RADIUS = 0.004


def centre(i, n):
    return -4.0 + 8.0 * i / (n + 1)


def wrap(first, items, last):
    """Write a card on several lines (continuation lines start with 6
    blanks), at most 75 columns wide."""
    lines, cur = [], first
    for item in items + [last]:
        if len(cur) + 1 + len(item) > 75:
            lines.append(cur)
            cur = '      ' + item
        else:
            cur += ' ' + item
    lines.append(cur)
    return '\n'.join(lines) + '\n'


def make_deck(n):
    cells = 'C01 demo: a block pierced by %d small holes\n' % n
    # cell 1: inside sphere 9001, outside all the holes
    cells += wrap('1 1 -2.7 -9001', ['%d' % i for i in range(1, n + 1)],
                  'imp:n=1')
    # cell 2: the union of the holes
    cells += wrap('2 0', ['-%d' % i + (' :' if i < n else '')
                          for i in range(1, n + 1)], 'imp:n=1')
    cells += '3 0 9001 imp:n=0\n'
    surfs = ''.join('%d sx %.10g %g\n' % (i, centre(i, n), RADIUS)
                    for i in range(1, n + 1))
    surfs += '9001 so 5\n'
    return cells + '\n' + surfs + '\nmode n\nm1 13027 1\nnps 10\n'


def run_converter(deck):
    from t4_geom_convert.main import parse_args, conversion
    tmpdir = tempfile.mkdtemp(prefix='c01_demo3_')
    inp = os.path.join(tmpdir, 'deck.imcnp')
    out = os.path.join(tmpdir, 'deck.t4')
    with open(inp, 'w') as fil:
        fil.write(deck)
    sink = io.StringIO()
    with contextlib.redirect_stdout(sink), contextlib.redirect_stderr(sink):
        conversion(parse_args([inp, '-o', out]))
    with open(out) as fil:
        return fil.read()


# ---- minimal TRIPOLI-4 reader/evaluator (planes and spheres are enough) ----
def parse_t4(text):
    surfs, vols = {}, {}
    for line in text.splitlines():
        line = line.split('//')[0].split()
        if not line:
            continue
        if line[0] == 'SURF':
            surfs[int(line[1])] = (line[2], [float(x) for x in line[3:]])
        elif line[0] == 'VOLU':
            tok = line[3:-1]
            plus, minus, ops, fictive, i = [], [], None, False, 0
            while i < len(tok):
                if tok[i] in ('PLUS', 'MINUS'):
                    n = int(tok[i + 1])
                    ids = [int(x) for x in tok[i + 2:i + 2 + n]]
                    (plus if tok[i] == 'PLUS' else minus).extend(ids)
                    i += 2 + n
                elif tok[i] in ('INTE', 'UNION'):
                    n = int(tok[i + 1])
                    ops = (tok[i], [int(x) for x in tok[i + 2:i + 2 + n]])
                    i += 2 + n
                elif tok[i] == 'FICTIVE':
                    fictive = True
                    i += 1
                else:
                    raise ValueError('cannot read VOLU: %r' % (line,))
            vols[int(line[1])] = (plus, minus, ops, fictive)
    return surfs, vols


def side(surf, pnt):
    typ, par = surf
    x, y, z = pnt
    if typ == 'PLANEX':
        return x - par[0]
    if typ == 'PLANEY':
        return y - par[0]
    if typ == 'PLANEZ':
        return z - par[0]
    if typ == 'PLANE':
        return par[0] * x + par[1] * y + par[2] * z + par[3]
    if typ == 'SPHERE':
        return ((x - par[0])**2 + (y - par[1])**2 + (z - par[2])**2
                - par[3]**2)
    raise ValueError('unexpected surface type ' + typ)


def inside(vid, pnt, surfs, vols):
    plus, minus, ops, _ = vols[vid]
    base = (all(side(surfs[s], pnt) > 0 for s in plus)
            and all(side(surfs[s], pnt) < 0 for s in minus))
    if ops is None:
        return base
    if ops[0] == 'INTE':
        return base and all(inside(v, pnt, surfs, vols) for v in ops[1])
    return base or any(inside(v, pnt, surfs, vols) for v in ops[1])


def mcnp_owner(pnt, n):
    x, y, z = pnt
    r2 = x * x + y * y + z * z
    if abs(r2 - 25) < 1e-6:
        return 'skip'
    if r2 > 25:
        return None
    for i in range(1, n + 1):
        d2 = (x - centre(i, n))**2 + y * y + z * z - RADIUS**2
        if abs(d2) < 1e-9:
            return 'skip'
        if d2 < 0:
            return 2
    return 1


def check_geometry(text, n):
    surfs, vols = parse_t4(text)
    rnd = random.Random(4321)
    points = [tuple(rnd.uniform(-5.5, 5.5) for _ in range(3))
              for _ in range(300)]
    # some points inside the holes
    points += [(centre(i, n) + 0.001, 0.001, -0.001)
               for i in range(1, n + 1, max(1, n // 25))]
    for pnt in points:
        exp = mcnp_owner(pnt, n)
        if exp == 'skip':
            continue
        got = sorted(v for v, val in vols.items()
                     if not val[3] and inside(v, pnt, surfs, vols))
        if got != ([] if exp is None else [exp]):
            return 'point %r: expected cell %r, found volumes %r' % (pnt, exp,
                                                                     got)
    return None


def main():
    # sanity: the same model with few holes must convert correctly
    try:
        err = check_geometry(run_converter(make_deck(N_SMALL)), N_SMALL)
    except Exception as exc:  # pylint: disable=broad-except
        print('FAIL (control deck with %d holes does not convert: %s: %s)'
              % (N_SMALL, type(exc).__name__, exc))
        return 1
    if err:
        print('FAIL (control deck with %d holes converted wrongly: %s)'
              % (N_SMALL, err))
        return 1
    try:
        text = run_converter(make_deck(N_LARGE))
    except RecursionError as exc:
        names = [frame.name for frame in traceback.extract_tb(exc.__traceback__)]
        deepest = max(set(names), key=names.count)
        print('FAIL: the deck whose cells 1 and 2 have %d operands is not '
              'converted: RecursionError: %s (the stack is full of %s() '
              'frames); the same model with %d holes converts correctly'
              % (N_LARGE, exc, deepest, N_SMALL))
        return 1
    except Exception as exc:  # pylint: disable=broad-except
        print('FAIL: the deck whose cells 1 and 2 have %d operands is not '
              'converted: %s: %s' % (N_LARGE, type(exc).__name__, exc))
        return 1
    err = check_geometry(text, N_LARGE)
    if err:
        print('FAIL: deck with %d holes converted to a wrong geometry: %s'
              % (N_LARGE, err))
        return 1
    print('PASS: deck with %d-operand cells converted, every sampled point '
          'is in the volume of its cell' % N_LARGE)
    return 0


if __name__ == '__main__':
    sys.exit(main())
