#!/usr/bin/env python
'''C04 demo 1: an inline TRCL / *TRCL whose rotation matrix is abbreviated with
J placeholders (the 5-entry "one row + one column" form of the MCNP manual, or
the 6-entry two-column form) must move the cell exactly like the complete
matrix does.  The converter stops with a ValueError instead.

Run from the root of the tree:
    PYTHONPATH=/tmp/t4shim:<tree> /venv/bin/python demo_1.py
'''
import math, os, subprocess, sys, tempfile


def run_converter(deck_text, name):
    """Write the deck to a temporary directory, run the converter of the tree
    found on PYTHONPATH / cwd in a subprocess, return (returncode, output text
    of the T4 file or None, stderr)."""
    tmpd = tempfile.mkdtemp(prefix='c04_demo_')
    inp = os.path.join(tmpd, name + '.imcnp')
    out = os.path.join(tmpd, name + '.t4')
    with open(inp, 'w') as fil:
        fil.write(deck_text)
    cmd = [sys.executable, '-c',
           'from t4_geom_convert.main import main; main()', inp, '-o', out]
    proc = subprocess.run(cmd, stdout=subprocess.PIPE, stderr=subprocess.PIPE,
                          universal_newlines=True)
    text = None
    if proc.returncode == 0 and os.path.exists(out):
        with open(out) as fil:
            text = fil.read()
    return proc.returncode, text, proc.stderr


def last_error_line(stderr):
    lines = [line for line in stderr.strip().splitlines() if line.strip()]
    return lines[-1] if lines else '(no message)'


class T4Geom:
    """Minimal evaluator of the TRIPOLI-4 geometry written by the converter."""

    def __init__(self, text):
        self.surfs, self.vols = {}, {}
        for line in text.splitlines():
            tok = line.split('//')[0].split()
            if not tok:
                continue
            if tok[0] == 'SURF':
                self.surfs[int(tok[1])] = (tok[2], [float(x) for x in tok[3:]])
            elif tok[0] == 'VOLU':
                plus, minus, oper, fictive = [], [], None, False
                i = 2
                while tok[i] != 'ENDV':
                    if tok[i] == 'EQUA':
                        i += 1
                    elif tok[i] in ('PLUS', 'MINUS', 'INTE', 'UNION'):
                        num = int(tok[i + 1])
                        ids = [int(x) for x in tok[i + 2:i + 2 + num]]
                        if tok[i] == 'PLUS':
                            plus = ids
                        elif tok[i] == 'MINUS':
                            minus = ids
                        else:
                            oper = (tok[i], ids)
                        i += 2 + num
                    elif tok[i] == 'FICTIVE':
                        fictive = True
                        i += 1
                    else:
                        raise ValueError('unexpected token ' + tok[i])
                self.vols[int(tok[1])] = (plus, minus, oper, fictive)

    def side(self, sid, pnt):
        typ, par = self.surfs[sid]
        x, y, z = pnt
        if typ == 'PLANE':
            return par[0] * x + par[1] * y + par[2] * z + par[3]
        if typ == 'PLANEX':
            return x - par[0]
        if typ == 'PLANEY':
            return y - par[0]
        if typ == 'PLANEZ':
            return z - par[0]
        if typ == 'SPHERE':
            return ((x - par[0])**2 + (y - par[1])**2 + (z - par[2])**2
                    - par[3]**2)
        if typ == 'CYLX':
            return (y - par[0])**2 + (z - par[1])**2 - par[2]**2
        if typ == 'CYLY':
            return (x - par[0])**2 + (z - par[1])**2 - par[2]**2
        if typ == 'CYLZ':
            return (x - par[0])**2 + (y - par[1])**2 - par[2]**2
        if typ == 'CYL':
            dvec = [x - par[0], y - par[1], z - par[2]]
            norm = math.sqrt(sum(c * c for c in par[4:7]))
            uvec = [c / norm for c in par[4:7]]
            along = sum(a * b for a, b in zip(dvec, uvec))
            return sum(c * c for c in dvec) - along**2 - par[3]**2
        raise NotImplementedError(typ)

    def inside(self, vid, pnt):
        plus, minus, oper, _ = self.vols[vid]
        equa = (all(self.side(s, pnt) > 0 for s in plus)
                and all(self.side(s, pnt) < 0 for s in minus))
        if oper is None:
            return equa
        if oper[0] == 'INTE':
            return equa and all(self.inside(v, pnt) for v in oper[1])
        return equa or any(self.inside(v, pnt) for v in oper[1])


COS30 = math.cos(math.radians(30.))
SIN30 = math.sin(math.radians(30.))

DECK = '''inline trcl with J placeholders in the rotation matrix
1 0 -1 imp:n=1 {trcl}
2 0 #1 -9 imp:n=1
3 0 9 imp:n=0

1 rpp -1 3 -0.5 0.5 -0.25 0.25
9 so 50

'''

# auxiliary frame: origin (1, 2, 3), x' = (cos30, sin30, 0),
# y' = (-sin30, cos30, 0), z' = z
ORIGIN = (1., 2., 3.)
XP = (COS30, SIN30, 0.)
YP = (-SIN30, COS30, 0.)
ZP = (0., 0., 1.)

VARIANTS = {
    # control: complete matrix (must work for the demo to be meaningful)
    'control *TRCL, 9 angles':
        '*trcl=(1 2 3 30 60 90 120 30 90 90 90 0)',
    # 5-entry form: first row and first column, the rest jumped
    '*TRCL, 5 angles + J':
        '*trcl=(1 2 3 30 60 90 120 j j 90)',
    '*TRCL, 5 angles + 2J':
        '*trcl=(1 2 3 30 60 90 120 2j 90)',
    'TRCL, 5 cosines + J':
        'trcl=(1 2 3 {c!r} {s!r} 0 {ms!r} j j 0)'.format(c=COS30, s=SIN30,
                                                        ms=-SIN30),
    # 6-entry form given column-wise (two columns, third one jumped)
    'TRCL, two columns + J':
        'trcl=(1 2 3 {c!r} {s!r} j {ms!r} {c!r} j 0 0 j)'.format(
            c=COS30, s=SIN30, ms=-SIN30),
}


def to_main(aux):
    return tuple(ORIGIN[i] + aux[0] * XP[i] + aux[1] * YP[i] + aux[2] * ZP[i]
                 for i in range(3))


def in_box(aux):
    return (-1. < aux[0] < 3. and -0.5 < aux[1] < 0.5
            and -0.25 < aux[2] < 0.25)


def sample_points():
    pts = []
    for i in range(-8, 17):
        for j in range(-6, 7):
            for k in (-2, 0, 1):
                pts.append((0.25 * i + 0.11, 0.2 * j + 0.07, 0.2 * k + 0.03))
    return pts


def check(label, trcl):
    code, text, err = run_converter(DECK.format(trcl=trcl), 'demo1')
    if text is None:
        return '%s: conversion stopped (exit status %s): %s' % (
            label, code, last_error_line(err))
    geom = T4Geom(text)
    wrong = 0
    n_in = 0
    for aux in sample_points():
        expected = in_box(aux)
        n_in += expected
        if geom.inside(1, to_main(aux)) != expected:
            wrong += 1
    if n_in == 0:
        return '%s: harness error, no sample point in the box' % label
    if wrong:
        return '%s: %d sample points are on the wrong side of cell 1' % (
            label, wrong)
    return None


def main():
    problem = check('control *TRCL, 9 angles',
                    VARIANTS['control *TRCL, 9 angles'])
    if problem is not None:
        print('ERROR (control case does not work, demo inconclusive): '
              + problem)
        return 2
    failures = []
    for label, trcl in VARIANTS.items():
        problem = check(label, trcl)
        if problem is not None:
            failures.append(problem)
    if failures:
        print('FAIL: inline TRCL with J placeholders in the rotation matrix '
              'is not converted like the equivalent complete matrix: '
              + ' | '.join(failures))
        return 1
    print('PASS: inline TRCL transformations with J placeholders move the '
          'cell like the complete matrix')
    return 0


if __name__ == '__main__':
    sys.exit(main())
