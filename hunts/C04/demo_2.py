#!/usr/bin/env python
'''C04 demo 2: a TR card (or an inline TRCL) whose rotation matrix is given
as ONE vector (3 values, pattern 4 of the MCNP manual: "MCNP will create the
other two vectors in some arbitrary way") crashes with a ZeroDivisionError
when that vector is (-1, 0, 0), i.e. when the auxiliary x' axis is the
reversed main x axis.

The surfaces used here (planes normal to x', cylinder around x') do not
depend on how the two other axes are chosen, so the expected result is
unambiguous.

Run from the root of the tree:
    PYTHONPATH=/tmp/t4shim:<tree> /venv/bin/python demo_2.py
'''
import math, os, subprocess, sys, tempfile


def run_converter(deck_text, name):
    """Write the deck to a temporary directory, run the converter of the tree
    found on PYTHONPATH / cwd in a subprocess, return (returncode, output text
    of the T4 file or None, stderr)."""
    tmpd = tempfile.mkdtemp(prefix='c04_demo_')
    inp = os.path.join(tmpd, name + '.imcnp')
    out = os.path.join(tmpd, name + '.t4')
    with open(inp, 'w') as fil:
        fil.write(deck_text)
    cmd = [sys.executable, '-c',
           'from t4_geom_convert.main import main; main()', inp, '-o', out]
    proc = subprocess.run(cmd, stdout=subprocess.PIPE, stderr=subprocess.PIPE,
                          universal_newlines=True)
    text = None
    if proc.returncode == 0 and os.path.exists(out):
        with open(out) as fil:
            text = fil.read()
    return proc.returncode, text, proc.stderr


def last_error_line(stderr):
    lines = [line for line in stderr.strip().splitlines() if line.strip()]
    return lines[-1] if lines else '(no message)'


class T4Geom:
    """Minimal evaluator of the TRIPOLI-4 geometry written by the converter."""

    def __init__(self, text):
        self.surfs, self.vols = {}, {}
        for line in text.splitlines():
            tok = line.split('//')[0].split()
            if not tok:
                continue
            if tok[0] == 'SURF':
                self.surfs[int(tok[1])] = (tok[2], [float(x) for x in tok[3:]])
            elif tok[0] == 'VOLU':
                plus, minus, oper, fictive = [], [], None, False
                i = 2
                while tok[i] != 'ENDV':
                    if tok[i] == 'EQUA':
                        i += 1
                    elif tok[i] in ('PLUS', 'MINUS', 'INTE', 'UNION'):
                        num = int(tok[i + 1])
                        ids = [int(x) for x in tok[i + 2:i + 2 + num]]
                        if tok[i] == 'PLUS':
                            plus = ids
                        elif tok[i] == 'MINUS':
                            minus = ids
                        else:
                            oper = (tok[i], ids)
                        i += 2 + num
                    elif tok[i] == 'FICTIVE':
                        fictive = True
                        i += 1
                    else:
                        raise ValueError('unexpected token ' + tok[i])
                self.vols[int(tok[1])] = (plus, minus, oper, fictive)

    def side(self, sid, pnt):
        typ, par = self.surfs[sid]
        x, y, z = pnt
        if typ == 'PLANE':
            return par[0] * x + par[1] * y + par[2] * z + par[3]
        if typ == 'PLANEX':
            return x - par[0]
        if typ == 'PLANEY':
            return y - par[0]
        if typ == 'PLANEZ':
            return z - par[0]
        if typ == 'SPHERE':
            return ((x - par[0])**2 + (y - par[1])**2 + (z - par[2])**2
                    - par[3]**2)
        if typ == 'CYLX':
            return (y - par[0])**2 + (z - par[1])**2 - par[2]**2
        if typ == 'CYLY':
            return (x - par[0])**2 + (z - par[1])**2 - par[2]**2
        if typ == 'CYLZ':
            return (x - par[0])**2 + (y - par[1])**2 - par[2]**2
        if typ == 'CYL':
            dvec = [x - par[0], y - par[1], z - par[2]]
            norm = math.sqrt(sum(c * c for c in par[4:7]))
            uvec = [c / norm for c in par[4:7]]
            along = sum(a * b for a, b in zip(dvec, uvec))
            return sum(c * c for c in dvec) - along**2 - par[3]**2
        raise NotImplementedError(typ)

    def inside(self, vid, pnt):
        plus, minus, oper, _ = self.vols[vid]
        equa = (all(self.side(s, pnt) > 0 for s in plus)
                and all(self.side(s, pnt) < 0 for s in minus))
        if oper is None:
            return equa
        if oper[0] == 'INTE':
            return equa and all(self.inside(v, pnt) for v in oper[1])
        return equa or any(self.inside(v, pnt) for v in oper[1])


DECK_TR = '''surface transformation given as one vector
1 0 -1 2 -3 imp:n=1
2 0 #1 -9 imp:n=1
3 0 9 imp:n=0

1 7 px 2
2 7 px -0.5
3 7 cx 1.5
9 so 50

{trcard}
'''

DECK_TRCL = '''cell transformation given as one vector
1 0 -1 2 -3 imp:n=1 {trcl}
2 0 #1 -9 imp:n=1
3 0 9 imp:n=0

1 px 2
2 px -0.5
3 cx 1.5
9 so 50

'''

# With x' = -x and the origin of the auxiliary frame in (0.5, 0, 0):
#   x' = -(x - 0.5);  -0.5 < x' < 2  <=>  -1.5 < x < 1.0 ; y^2 + z^2 < 1.5^2
def expected(pnt):
    x, y, z = pnt
    return -1.5 < x < 1.0 and y * y + z * z < 1.5**2


def sample_points():
    pts = []
    for i in range(-12, 13):
        for j in (-9, -4, 0, 3, 7):
            for k in (-6, 0, 5):
                pts.append((0.21 * i + 0.013, 0.2 * j + 0.01, 0.2 * k + 0.02))
    return pts


def check(label, deck):
    code, text, err = run_converter(deck, 'demo2')
    if text is None:
        return '%s: conversion stopped (exit status %s): %s' % (
            label, code, last_error_line(err))
    geom = T4Geom(text)
    wrong = 0
    n_in = 0
    for pnt in sample_points():
        exp = expected(pnt)
        n_in += exp
        if geom.inside(1, pnt) != exp:
            wrong += 1
    if n_in == 0:
        return '%s: harness error, no sample point in cell 1' % label
    if wrong:
        return '%s: %d sample points are on the wrong side of cell 1' % (
            label, wrong)
    return None


def main():
    control = check('control, complete matrix',
                    DECK_TR.format(trcard='tr7 0.5 0 0  -1 0 0  0 -1 0  0 0 1'))
    if control is not None:
        print('ERROR (control case does not work, demo inconclusive): '
              + control)
        return 2
    cases = {
        'TR7 0.5 0 0 -1 0 0':
            DECK_TR.format(trcard='tr7 0.5 0 0  -1 0 0'),
        'TR7 with the vector as first column (J placeholders)':
            DECK_TR.format(trcard='tr7 0.5 0 0  -1 j j  0 j j  0 j j'),
        'TRCL=(0.5 0 0 -1 0 0)':
            DECK_TRCL.format(trcl='trcl=(0.5 0 0 -1 0 0)'),
    }
    failures = []
    for label, deck in cases.items():
        problem = check(label, deck)
        if problem is not None:
            failures.append(problem)
    if failures:
        print('FAIL: a transformation whose matrix is given as the single '
              'vector (-1 0 0) is not converted: ' + ' | '.join(failures))
        return 1
    print('PASS: one-vector rotation matrices equal to (-1 0 0) are completed '
          'to a rotation and applied')
    return 0


if __name__ == '__main__':
    sys.exit(main())
