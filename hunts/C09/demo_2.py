#!/usr/bin/env python
'''C09 demo 2: a material number written with a leading zero on the cell card
("01" instead of "1") makes GEOMCOMP attach the volume to a composition name
("m01_-1.0") that is not the one defined in the COMPOSITION block
("m1_-1.0"), i.e. to a composition that does not exist.

MCNP reads the material number as an integer item, so "01" and "1" (and
"MAT=02" and "MAT=2" on a LIKE n BUT card) denote the same material.  The
same deck written with "1"/"2" is converted as a control: every cell must be
attached to the same composition in both outputs, and every composition named
in GEOMCOMP must be defined in the COMPOSITION block.
'''
import contextlib
import io
import os
import sys
import tempfile

from t4_geom_convert.main import conversion, parse_args

DECK = '''leading zeros in the material numbers
1 {m1} -1.0  -3             imp:n=1
2 like 1 but mat={m2} rho=-2.0 trcl=(5 0 0)
3 0     3 #2 -1            imp:n=1
9 0     1                  imp:n=0

1 so 10
3 so 2

m1 13027 1.
m2 26056 1.
'''

INTERNAL = (KeyError, IndexError, TypeError, AttributeError,
            ZeroDivisionError, AssertionError, NameError)


def convert(deck, tmpdir, name):
    inp = os.path.join(tmpdir, name + '.imcnp')
    out = os.path.join(tmpdir, name + '.t4')
    with open(inp, 'w') as fil:
        fil.write(deck)
    with contextlib.redirect_stdout(io.StringIO()):
        conversion(parse_args([inp, '-o', out]))
    with open(out) as fil:
        return fil.read()


def parse(txt):
    '''Return ({volume id: composition name}, {defined composition names}).'''
    defined = set()
    block = txt[txt.index('\nCOMPOSITION'):txt.index('END_COMPOSITION')]
    for line in block.splitlines():
        tok = line.split()
        if tok and tok[0] in ('DENSITY', 'POINT_WISE'):
            defined.add(tok[2])
    attached = {}
    block = txt[txt.index('GEOMCOMP'):txt.index('END_GEOMCOMP')]
    for line in block.splitlines()[1:]:
        tok = line.split()
        if tok:
            for vol_id in tok[2:]:
                attached[int(vol_id)] = tok[0]
    return attached, defined


def main():
    with tempfile.TemporaryDirectory() as tmpdir:
        control = convert(DECK.format(m1='1', m2='2'), tmpdir, 'control')
        try:
            padded = convert(DECK.format(m1='01', m2='02'), tmpdir, 'padded')
        except INTERNAL as err:
            print(f'FAIL: internal error on zero-padded material numbers: '
                  f'{err!r}')
            return 1
    att_c, def_c = parse(control)
    att_p, def_p = parse(padded)
    if (set(att_c) != {1, 2, 3} or len(set(att_c.values())) != 3
            or not set(att_c.values()) <= def_c):
        print(f'FAIL: unexpected control conversion: {att_c}, {def_c}')
        return 1
    problems = []
    for vol_id, name in sorted(att_p.items()):
        if name not in def_p:
            problems.append(f'volume {vol_id} is attached to {name!r}, which '
                            f'is not defined in COMPOSITION {sorted(def_p)}')
        if name != att_c.get(vol_id):
            problems.append(f'volume {vol_id} is attached to {name!r} but to '
                            f'{att_c.get(vol_id)!r} when the same material '
                            'number is written without the leading zero')
    if problems:
        print('FAIL: ' + '; '.join(problems))
        return 1
    print('PASS: zero-padded material numbers give the same compositions')
    return 0


if __name__ == '__main__':
    sys.exit(main())
