#!/usr/bin/env python
'''C09 demo 1: the universe structure given by the data-block forms of the U
and FILL cell-parameter cards is silently ignored, so the container volume is
attached to the container's (void) composition instead of the filler's, and
the filler volumes overlap it.

Two decks describing the SAME MCNP geometry are converted:
  * deck A: U=/FILL= written on the cell cards (the usual form);
  * deck B: the same parameters written as U and FILL cards in the data block
            (MCNP manual: every cell-parameter card -- IMP, VOL, U, TRCL, LAT,
            FILL, TMP... -- may be given either on the cell cards or in the
            data block, with one entry per cell in cell-card order; deck B
            already does so for IMP:N, which the converter honours).
For sample points, the set of compositions of the non-virtual volumes that
contain the point must be the same for both decks, and must be the
composition of the filler cell that owns the point.
'''
import contextlib
import io
import os
import re
import sys
import tempfile

from t4_geom_convert.main import conversion, parse_args

SURFS_AND_MATS = '''
1 so 10
2 so 5

m1 13027 1.
m2 26056 1.
'''

DECK_A = '''U and FILL on the cell cards
1 0         -1  fill=1 imp:n=1
2 1 -1.0    -2  u=1    imp:n=1
3 2 -2.0     2  u=1    imp:n=1
9 0          1         imp:n=0
''' + SURFS_AND_MATS

DECK_B = '''U and FILL in the data block
1 0         -1
2 1 -1.0    -2
3 2 -2.0     2
9 0          1
''' + SURFS_AND_MATS + '''imp:n 1 1 1 0
u     0 1 1 0
fill  1 0 0 0
'''

INTERNAL = (KeyError, IndexError, TypeError, AttributeError,
            ZeroDivisionError, AssertionError, NameError)


def convert(deck, tmpdir, name):
    inp = os.path.join(tmpdir, name + '.imcnp')
    out = os.path.join(tmpdir, name + '.t4')
    with open(inp, 'w') as fil:
        fil.write(deck)
    with contextlib.redirect_stdout(io.StringIO()):
        conversion(parse_args([inp, '-o', out]))
    with open(out) as fil:
        return fil.read()


def parse_t4(txt):
    surfs, vols, geomcomp, compos = {}, {}, {}, set()
    for line in txt.splitlines():
        line = line.split('//')[0]
        tok = line.split()
        if not tok:
            continue
        if tok[0] == 'SURF':
            surfs[int(tok[1])] = (tok[2], [float(x) for x in tok[3:]])
        elif tok[0] == 'VOLU':
            vol = {'plus': [], 'minus': [], 'inte': [], 'union': [],
                   'fictive': 'FICTIVE' in tok}
            i = 3
            while i < len(tok):
                key = tok[i]
                if key in ('PLUS', 'MINUS', 'INTE', 'UNION'):
                    n = int(tok[i + 1])
                    vol[key.lower()] = [int(x) for x in tok[i + 2:i + 2 + n]]
                    i += 2 + n
                else:
                    i += 1
            vols[int(tok[1])] = vol
        elif tok[0] in ('DENSITY', 'POINT_WISE') and len(tok) > 2:
            compos.add(tok[2])
    block = txt[txt.index('GEOMCOMP'):txt.index('END_GEOMCOMP')]
    for line in block.splitlines()[1:]:
        tok = line.split()
        if tok:
            assert int(tok[1]) == len(tok[2:])
            for vol_id in tok[2:]:
                geomcomp[int(vol_id)] = tok[0]
    return surfs, vols, geomcomp, compos


def surf_value(surf, point):
    kind, par = surf
    x, y, z = point
    if kind == 'SPHERE':
        return ((x - par[0])**2 + (y - par[1])**2 + (z - par[2])**2
                - par[3]**2)
    if kind in ('PLANEX', 'PLANEY', 'PLANEZ'):
        return {'PLANEX': x, 'PLANEY': y, 'PLANEZ': z}[kind] - par[0]
    raise NotImplementedError(kind)


def inside(vol_id, vols, surfs, point):
    vol = vols[vol_id]
    res = (all(surf_value(surfs[s], point) > 0 for s in vol['plus'])
           and all(surf_value(surfs[s], point) < 0 for s in vol['minus'])
           and all(inside(v, vols, surfs, point) for v in vol['inte']))
    return res or any(inside(v, vols, surfs, point) for v in vol['union'])


def compositions_at(txt, point):
    surfs, vols, geomcomp, _ = parse_t4(txt)
    return sorted(geomcomp.get(vol_id, '<none>')
                  for vol_id, vol in vols.items()
                  if not vol['fictive'] and inside(vol_id, vols, surfs, point))


def main():
    # point -> owning MCNP cell at the lowest universe level
    points = {(0., 0., 0.): '2', (7., 0., 0.): '3'}
    with tempfile.TemporaryDirectory() as tmpdir:
        txt_a = convert(DECK_A, tmpdir, 'deck_a')
        try:
            txt_b = convert(DECK_B, tmpdir, 'deck_b')
        except INTERNAL as err:
            print(f'FAIL: internal error on the data-block form: {err!r}')
            return 1
        except Exception as err:  # a clear, deliberate refusal is acceptable
            print(f'PASS: the data-block form is refused explicitly: {err}')
            return 0
    problems = []
    seen = set()
    for point, cell in points.items():
        comp_a = compositions_at(txt_a, point)
        comp_b = compositions_at(txt_b, point)
        if len(comp_a) != 1 or comp_a[0] in seen or comp_a[0] == 'm0':
            problems.append(f'cell-card form: point {point} (MCNP cell {cell})'
                            f' is in volumes with compositions {comp_a}, '
                            'expected the single composition of that cell')
        seen.update(comp_a)
        if comp_b != comp_a:
            problems.append(f'data-block form (U/FILL cards): point {point} '
                            f'(owned by filler cell {cell}) is in volumes '
                            f'with compositions {comp_b}, expected {comp_a} '
                            'as in the cell-card form')
    if problems:
        print('FAIL: ' + '; '.join(problems))
        return 1
    print('PASS: both forms attach the filler composition to every point')
    return 0


if __name__ == '__main__':
    sys.exit(main())
