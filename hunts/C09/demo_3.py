#!/usr/bin/env python
'''C09 demo 3: cells of one material whose densities differ only in spelling
(a trailing zero in the mantissa of a number written with an exponent, or the
Fortran spelling of the exponent: E+00 / E0 / +0 / D0) are attached to
different compositions.

All of -2.7E+00, -2.70E+00, -2.7E0, -2.7+0 and -2.7D0 are the real number
-2.7 for MCNP (reals are read like Fortran does: exponent introduced by E, D
or just its sign, optional sign and leading zeros in the exponent).  The
converter already merges "-2.70"/"-2.7" and "E"/"D"/bare-sign exponents, but
not these.  A sixth cell with the numerically different density -2.71 must
(and does) get a composition of its own.
'''
import contextlib
import io
import os
import sys
import tempfile

from t4_geom_convert.main import conversion, parse_args

SPELLINGS = ['-2.7E+00', '-2.70E+00', '-2.7E0', '-2.7+0', '-2.7D0']
OTHER = '-2.71'

INTERNAL = (KeyError, IndexError, TypeError, AttributeError,
            ZeroDivisionError, AssertionError, NameError)


def make_deck():
    lines = ['one density, several spellings']
    densities = SPELLINGS + [OTHER]
    for i, dens in enumerate(densities):
        # slab i lies between the planes PZ i and PZ i+1, inside CZ 100
        lines.append(f'{i + 1} 1 {dens} -100 {i + 1} -{i + 2} imp:n=1')
    n = len(densities)
    lines.append(f'99 0 100:-1:{n + 1} imp:n=0')
    lines.append('')
    lines.append('100 cz 10')
    for i in range(n + 1):
        lines.append(f'{i + 1} pz {i}')
    lines.append('')
    lines.append('m1 13027 1.')
    return '\n'.join(lines) + '\n'


def convert(deck, tmpdir, name):
    inp = os.path.join(tmpdir, name + '.imcnp')
    out = os.path.join(tmpdir, name + '.t4')
    with open(inp, 'w') as fil:
        fil.write(deck)
    with contextlib.redirect_stdout(io.StringIO()):
        conversion(parse_args([inp, '-o', out]))
    with open(out) as fil:
        return fil.read()


def parse(txt):
    defined = {}
    block = txt[txt.index('\nCOMPOSITION'):txt.index('END_COMPOSITION')]
    for line in block.splitlines():
        tok = line.split()
        if tok and tok[0] == 'DENSITY':
            defined[tok[2]] = float(tok[3])
    attached = {}
    block = txt[txt.index('GEOMCOMP'):txt.index('END_GEOMCOMP')]
    for line in block.splitlines()[1:]:
        tok = line.split()
        if tok:
            for vol_id in tok[2:]:
                attached[int(vol_id)] = tok[0]
    return attached, defined


def main():
    with tempfile.TemporaryDirectory() as tmpdir:
        try:
            txt = convert(make_deck(), tmpdir, 'deck')
        except INTERNAL as err:
            print(f'FAIL: internal error: {err!r}')
            return 1
    attached, defined = parse(txt)
    same = {dens: attached.get(i + 1) for i, dens in enumerate(SPELLINGS)}
    other = attached.get(len(SPELLINGS) + 1)
    problems = []
    if len(set(same.values())) != 1:
        problems.append('cells of material 1 whose densities are all the '
                        'number -2.7, only spelled differently, are attached '
                        f'to {len(set(same.values()))} different '
                        f'compositions: {same}')
    if other in same.values():
        problems.append(f'density {OTHER} shares composition {other!r} with '
                        'density -2.7')
    for name in set(attached.values()):
        if name not in defined:
            problems.append(f'{name!r} is not defined in COMPOSITION')
    if problems:
        print('FAIL: ' + '; '.join(problems))
        return 1
    print(f'PASS: all the spellings of -2.7 share {set(same.values())}, '
          f'{OTHER} has {other!r}')
    return 0


if __name__ == '__main__':
    sys.exit(main())
