#!/usr/bin/env python
'''C11 demo 2: a cell expression with many operands.

A "rest of the world" cell written with the complement operator,

    9000 0 -9999 #1 #2 #3 ... #600

is ordinary MCNP (the manual puts no limit on the number of entries of a cell
card; continuation lines are used). The converter stores blank-separated
operands as a left-leaning binary tree and walks it with recursive functions
(two Python frames per operand), so that any cell with about 500 operands or
more (surfaces or #n alike) stops the conversion with RecursionError instead
of producing the converted expression.
'''
import contextlib
import io
import os
import sys
import tempfile
import traceback

from t4_geom_convert.main import conversion, parse_args

N_CELLS = 600


def make_deck():
    lines = ['many small cells and the rest of the world written with #n']
    for i in range(1, N_CELLS + 1):
        lines.append(f'{i} 0 -{i} imp:n=1')
    card = '9000 0 -9999'
    for i in range(1, N_CELLS + 1):
        item = f'#{i}'
        if len(card.splitlines()[-1]) + len(item) > 70:
            card += '\n      ' + item
        else:
            card += ' ' + item
    lines.append(card + ' imp:n=1')
    lines.append('9001 0 9999 imp:n=0')
    lines.append('')
    for i in range(1, N_CELLS + 1):
        lines.append(f'{i} s {3 * i} 0 0 1')
    lines.append('9999 so 5000')
    lines.append('')
    return '\n'.join(lines) + '\n'


def parse_t4(path):
    surfs, vols = {}, {}
    with open(path) as t4file:
        text = t4file.read()
    geom = text.split('GEOMETRY', 1)[1].split('ENDG')[0]
    for line in geom.splitlines():
        tok = line.split('//')[0].split()
        if not tok:
            continue
        if tok[0] == 'SURF':
            surfs[int(tok[1])] = (tok[2], [float(x) for x in tok[3:]])
        elif tok[0] == 'VOLU':
            plus, minus, oper, args, i = [], [], None, [], 3
            while i < len(tok):
                if tok[i] in ('PLUS', 'MINUS'):
                    num = int(tok[i + 1])
                    ids = [int(x) for x in tok[i + 2:i + 2 + num]]
                    (plus if tok[i] == 'PLUS' else minus).extend(ids)
                    i += 2 + num
                elif tok[i] in ('INTE', 'UNION'):
                    num = int(tok[i + 1])
                    oper = tok[i]
                    args = [int(x) for x in tok[i + 2:i + 2 + num]]
                    i += 2 + num
                else:
                    i += 1
            vols[int(tok[1])] = (plus, minus, oper, args)
    return surfs, vols


def value(surf, pnt):
    typ, par = surf
    if typ != 'SPHERE':
        raise ValueError(f'unexpected surface type {typ}')
    return sum((pnt[i] - par[i])**2 for i in range(3)) - par[3]**2


def inside(vid, pnt, surfs, vols):
    if vid not in vols:
        return False
    plus, minus, oper, args = vols[vid]
    equa = (all(value(surfs[s], pnt) > 0 for s in plus)
            and all(value(surfs[s], pnt) < 0 for s in minus))
    if oper is None:
        return equa
    if oper == 'INTE':
        return equa and all(inside(a, pnt, surfs, vols) for a in args)
    return equa or any(inside(a, pnt, surfs, vols) for a in args)


def main():
    with tempfile.TemporaryDirectory() as tmpdir:
        deck = os.path.join(tmpdir, 'many.imcnp')
        out = os.path.join(tmpdir, 'many.t4')
        with open(deck, 'w') as deckfile:
            deckfile.write(make_deck())
        try:
            with contextlib.redirect_stdout(io.StringIO()):
                conversion(parse_args([deck, '-o', out]))
        except RecursionError as err:
            frames = traceback.extract_tb(err.__traceback__)
            names = [frame.name for frame in frames
                     if frame.name.startswith('pot_')]
            where = names[-1] if names else frames[-1].name
            print(f'FAIL: cell 9000 = -9999 #1 #2 ... #{N_CELLS} (valid '
                  'MCNP, one operand per small cell) stops the conversion '
                  f'with RecursionError in CellConversion.{where}: the '
                  'expression is walked recursively, one level per operand')
            return 1
        except Exception as err:  # pylint: disable=broad-except
            print(f'FAIL: cell 9000 = -9999 #1 #2 ... #{N_CELLS} stops the '
                  f'conversion with {type(err).__name__}: {err}')
            return 1
        surfs, vols = parse_t4(out)
        # centre of a small cell, a point between two small cells, points
        # just inside/outside the last small cell, a point outside the big
        # sphere
        mid = 3. * (N_CELLS // 2)
        last = 3. * N_CELLS
        checks = [((mid, 0., 0.), False), ((mid + 1.5, 0., 0.), True),
                  ((0., 10., 0.), True), ((0., 6000., 0.), False),
                  ((3., 0.5, 0.), False), ((last, 0., 0.9), False),
                  ((last, 0., 1.1), True)]
        for pnt, expect in checks:
            if inside(9000, pnt, surfs, vols) != expect:
                print(f'FAIL: converted cell 9000 is wrong at {pnt}: '
                      f'expected inside={expect}')
                return 1
            small = round(pnt[0] / 3.)
            in_small = (1 <= small <= N_CELLS
                        and inside(small, pnt, surfs, vols))
            if in_small == expect and sum(c * c for c in pnt) < 25e6:
                print(f'FAIL: point {pnt} small cell / world cell mismatch')
                return 1
    print(f'PASS: a cell with {N_CELLS + 1} operands is converted correctly')
    return 0


if __name__ == '__main__':
    sys.exit(main())
