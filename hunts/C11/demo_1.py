#!/usr/bin/env python
'''C11 demo 1: a parenthesis (an MCNP delimiter) written directly after the
material number 0 of a void cell.

MCNP manual, cell cards: "Parentheses and operator symbols also function as
delimiters; where they are present, blank delimiters are not necessary."
So   1 0(-1:2) -3   is the same cell as   1 0 (-1:2) -3 .
The converter already accepts the same spelling after a density
(1 1 -1.0(-1:2) -3), but for a void cell it stops with an incidental
ValueError raised by float('0(-1:2)') in MIP/mip/cellcard.py.
'''
import contextlib
import io
import os
import sys
import tempfile
import traceback

from t4_geom_convert.main import conversion, parse_args

DECK = '''void cell, geometry opened by a parenthesis right after the 0
1 {matgeom} -3 imp:n=1
2 0 #1 -3 imp:n=1
3 0 3 imp:n=0

1 px -1
2 px 1
3 so 5

'''

POINTS = [(-2., 0., 0.), (0., 0., 0.), (2., 0., 0.), (0., 3., 0.),
          (-3., 1., 1.), (0.5, -2., 1.), (7., 0., 0.)]


def parse_t4(path):
    surfs, vols = {}, {}
    with open(path) as t4file:
        text = t4file.read()
    geom = text.split('GEOMETRY', 1)[1].split('ENDG')[0]
    for line in geom.splitlines():
        tok = line.split('//')[0].split()
        if not tok:
            continue
        if tok[0] == 'SURF':
            surfs[int(tok[1])] = (tok[2], [float(x) for x in tok[3:]])
        elif tok[0] == 'VOLU':
            plus, minus, oper, args, i = [], [], None, [], 3
            while i < len(tok):
                if tok[i] in ('PLUS', 'MINUS'):
                    num = int(tok[i + 1])
                    ids = [int(x) for x in tok[i + 2:i + 2 + num]]
                    (plus if tok[i] == 'PLUS' else minus).extend(ids)
                    i += 2 + num
                elif tok[i] in ('INTE', 'UNION'):
                    num = int(tok[i + 1])
                    oper = tok[i]
                    args = [int(x) for x in tok[i + 2:i + 2 + num]]
                    i += 2 + num
                else:
                    i += 1
            vols[int(tok[1])] = (plus, minus, oper, args)
    return surfs, vols


def value(surf, pnt):
    typ, par = surf
    if typ == 'PLANEX':
        return pnt[0] - par[0]
    if typ == 'PLANEY':
        return pnt[1] - par[0]
    if typ == 'PLANEZ':
        return pnt[2] - par[0]
    if typ == 'SPHERE':
        return sum((pnt[i] - par[i])**2 for i in range(3)) - par[3]**2
    raise ValueError(f'unexpected surface type {typ}')


def inside(vid, pnt, surfs, vols):
    if vid not in vols:
        return False
    plus, minus, oper, args = vols[vid]
    equa = (all(value(surfs[s], pnt) > 0 for s in plus)
            and all(value(surfs[s], pnt) < 0 for s in minus))
    if oper is None:
        return equa
    if oper == 'INTE':
        return equa and all(inside(a, pnt, surfs, vols) for a in args)
    return equa or any(inside(a, pnt, surfs, vols) for a in args)


def convert(matgeom, tmpdir, name):
    deck = os.path.join(tmpdir, name + '.imcnp')
    out = os.path.join(tmpdir, name + '.t4')
    with open(deck, 'w') as deckfile:
        deckfile.write(DECK.format(matgeom=matgeom))
    with contextlib.redirect_stdout(io.StringIO()):
        conversion(parse_args([deck, '-o', out]))
    return parse_t4(out)


def expected(cell, pnt):
    '''The MCNP meaning of the two cells.'''
    x = pnt[0]
    in_sphere = sum(c * c for c in pnt) < 25.
    cell1 = (x < -1. or x > 1.) and in_sphere
    if cell == 1:
        return cell1
    return (not cell1) and in_sphere


def main():
    with tempfile.TemporaryDirectory() as tmpdir:
        # control: the usual spelling, with a blank after the 0
        surfs, vols = convert('0 (-1:2)', tmpdir, 'blank')
        for pnt in POINTS:
            for cell in (1, 2):
                if inside(cell, pnt, surfs, vols) != expected(cell, pnt):
                    print('FAIL: even the control deck (blank after the 0) '
                          f'is converted wrongly for cell {cell} at {pnt}')
                    return 1
        # the spelling under test: no blank between the 0 and the parenthesis
        try:
            surfs, vols = convert('0(-1:2)', tmpdir, 'noblank')
        except Exception as err:  # pylint: disable=broad-except
            last = traceback.extract_tb(err.__traceback__)[-1]
            print("FAIL: the valid cell card '1 0(-1:2) -3 imp:n=1' (no "
                  'blank between the void material 0 and the opening '
                  'parenthesis) stops the conversion with '
                  f'{type(err).__name__}: {err} '
                  f'(raised in {os.path.basename(last.filename)}:'
                  f'{last.name}); the same card with a blank after the 0 is '
                  'converted correctly')
            return 1
        for pnt in POINTS:
            for cell in (1, 2):
                if inside(cell, pnt, surfs, vols) != expected(cell, pnt):
                    print(f'FAIL: cell {cell} of the deck written with '
                          f"'0(-1:2)' does not contain the right points "
                          f'(point {pnt})')
                    return 1
    print("PASS: '1 0(-1:2) -3' is converted like '1 0 (-1:2) -3'")
    return 0


if __name__ == '__main__':
    sys.exit(main())
