#!/usr/bin/env python
'''C16 demo 2: a deck that mixes reflecting surfaces with a pair of PERIODIC
surfaces (surface card "j -k type ...": a negative second entry means that
surface j is periodic with surface k) stops the conversion with a KeyError.

The periodic planes are not flagged with * or +, so they must not yield any
REFLECTION/COSINUS entry; the four flagged planes must yield one REFLECTION
entry each.  A clear, deliberate refusal ("periodic boundaries are not
supported") would also be acceptable.  The converter instead takes the
negative number for a TR card number and dies on `transform_parsed[-2]`.
'''
import contextlib
import io
import os
import sys
import tempfile
import warnings

DECK = '''periodic in x, reflecting in y and z
1 0 1 -2 3 -4 5 -6 imp:n=1
2 0 -1:2:-3:4:-5:6 imp:n=0

1 -2 px -1
2 -1 px 1
*3 py -1
*4 py 1
*5 pz -1
*6 pz 1

'''


def run(deck, opts=()):
    from t4_geom_convert.main import parse_args, conversion
    tmpdir = tempfile.mkdtemp(prefix='c16_demo2_')
    inp = os.path.join(tmpdir, 'deck.imcnp')
    out = os.path.join(tmpdir, 'deck.t4')
    with open(inp, 'w') as fil:
        fil.write(deck)
    args = parse_args([inp, '-o', out, *opts])
    buf = io.StringIO()
    with contextlib.redirect_stdout(buf), contextlib.redirect_stderr(buf), \
            warnings.catch_warnings():
        warnings.simplefilter('ignore')
        conversion(args)
    with open(out) as fil:
        return fil.read()


def parse_t4(text):
    surfs, bcs = {}, []
    in_bc = False
    for line in text.splitlines():
        tok = line.split('//')[0].split()
        if not tok:
            continue
        if tok[0] == 'SURF':
            surfs[int(tok[1])] = (tok[2], [float(x) for x in tok[3:]])
        elif tok[0] == 'BOUNDARY_CONDITION':
            in_bc = True
        elif tok[0] == 'END_BOUNDARY_CONDITION':
            in_bc = False
        elif in_bc and tok[0] == 'ALL_COMPLETE':
            bcs.append((tok[1], int(tok[2])))
    return surfs, bcs


def main():
    try:
        text = run(DECK)
    except NotImplementedError as err:
        print(f'PASS: deliberate refusal: {err}')
        return 0
    except Exception as err:  # pylint: disable=broad-except
        if 'periodic' in str(err).lower():
            print(f'PASS: deliberate refusal: {type(err).__name__}: {err}')
            return 0
        print('FAIL: a valid deck with two periodic planes (surface cards '
              '"1 -2 px -1" and "2 -1 px 1") next to four reflecting planes '
              f'stops the conversion with {type(err).__name__}: {err} -- the '
              'negative "periodic with surface k" entry is looked up as a TR '
              'card number; no output and no boundary conditions are written')
        return 1

    surfs, bcs = parse_t4(text)
    expected = {('PLANEY', -1.0), ('PLANEY', 1.0),
                ('PLANEZ', -1.0), ('PLANEZ', 1.0)}
    got = set()
    for kind, sid in bcs:
        if sid not in surfs:
            print(f'FAIL: boundary condition on SURF {sid}, not written')
            return 1
        typ, par = surfs[sid]
        if kind != 'REFLECTION' or (typ, par[0]) not in expected:
            print(f'FAIL: unexpected entry {kind} on SURF {sid} {typ} {par} '
                  '(the periodic planes x=-1 and x=1 are not flagged)')
            return 1
        got.add((typ, par[0]))
    if got != expected or len(bcs) != 4:
        print(f'FAIL: expected one REFLECTION entry for each of y=-1, y=1, '
              f'z=-1, z=1; got {bcs}')
        return 1
    planes_x = sorted(par[0] for typ, par in surfs.values()
                      if typ == 'PLANEX')
    if -1.0 not in planes_x or 1.0 not in planes_x:
        print(f'FAIL: the periodic planes x=-1, x=1 were moved: {planes_x}')
        return 1
    print('PASS: four REFLECTION entries, none on the periodic planes')
    return 0


if __name__ == '__main__':
    sys.exit(main())
