#!/usr/bin/env python
'''C16 demo 1: the reflecting flag of a one-sheet cone leaks onto a different,
unflagged one-sheet cone (the opposite sheet) through surface de-duplication.

MCNP deck: an "hourglass".  Surface 1 (*1 KZ 0 1 +1) is the UPPER sheet of a
cone and is reflecting; surface 2 (2 KZ 0 1 -1) is the LOWER sheet of the same
cone and is NOT flagged.  Cell 1 lies inside the upper sheet, cell 2 inside the
lower sheet.  The two surfaces are different MCNP surfaces (different loci).

Expected: one REFLECTION entry, on a surface that bounds cell 1 only; the
conical wall of cell 2 must not carry any boundary condition.
'''
import contextlib
import io
import math
import os
import sys
import tempfile
import warnings

DECK = '''hourglass: upper cone sheet reflecting, lower cone sheet not
1 0 -1 -3 imp:n=1
2 0 -2 4 imp:n=1
3 0 #1 #2 imp:n=0

*1 kz 0 1 1
2 kz 0 1 -1
3 pz 5
4 pz -5

'''


def run(deck, opts=()):
    from t4_geom_convert.main import parse_args, conversion
    tmpdir = tempfile.mkdtemp(prefix='c16_demo1_')
    inp = os.path.join(tmpdir, 'deck.imcnp')
    out = os.path.join(tmpdir, 'deck.t4')
    with open(inp, 'w') as fil:
        fil.write(deck)
    args = parse_args([inp, '-o', out, *opts])
    buf = io.StringIO()
    with contextlib.redirect_stdout(buf), contextlib.redirect_stderr(buf), \
            warnings.catch_warnings():
        warnings.simplefilter('ignore')
        conversion(args)
    with open(out) as fil:
        return fil.read()


def parse_t4(text):
    surfs, vols, bcs = {}, {}, []
    in_bc = False
    for line in text.splitlines():
        tok = line.split('//')[0].split()
        if not tok:
            continue
        if tok[0] == 'SURF':
            if tok[2] == 'TRANSFORM':
                raise SystemExit('unexpected TRANSFORM in this simple deck')
            surfs[int(tok[1])] = (tok[2], [float(x) for x in tok[3:]])
        elif tok[0] == 'VOLU':
            vol = {'PLUS': [], 'MINUS': [], 'INTE': [], 'UNION': []}
            i = 2
            while i < len(tok):
                if tok[i] in vol:
                    n = int(tok[i + 1])
                    vol[tok[i]] = [int(x) for x in tok[i + 2:i + 2 + n]]
                    i += 2 + n
                else:
                    i += 1
            vols[int(tok[1])] = vol
        elif tok[0] == 'BOUNDARY_CONDITION':
            in_bc = True
        elif tok[0] == 'END_BOUNDARY_CONDITION':
            in_bc = False
        elif in_bc and tok[0] == 'ALL_COMPLETE':
            bcs.append((tok[1], int(tok[2])))
    return surfs, vols, bcs


def surf_value(surf, point):
    '''Value of the equation of a T4 surface at `point` (0 on the surface).'''
    typ, par = surf
    x, y, z = point
    if typ == 'PLANEX':
        return x - par[0]
    if typ == 'PLANEY':
        return y - par[0]
    if typ == 'PLANEZ':
        return z - par[0]
    if typ == 'PLANE':
        return par[0] * x + par[1] * y + par[2] * z + par[3]
    if typ in ('CONEX', 'CONEY', 'CONEZ', 'CONE'):
        axis = {'CONEX': (1, 0, 0), 'CONEY': (0, 1, 0),
                'CONEZ': (0, 0, 1)}.get(typ) or par[4:7]
        norm = math.sqrt(sum(a * a for a in axis))
        axis = [a / norm for a in axis]
        dlt = (x - par[0], y - par[1], z - par[2])
        along = sum(d * a for d, a in zip(dlt, axis))
        tan2 = math.tan(math.radians(par[3]))**2
        return sum(d * d for d in dlt) - along**2 - tan2 * along**2
    if typ == 'QUAD':
        a, b, c, d, e, f, g, h, j, k = par
        return (a * x * x + b * y * y + c * z * z + d * x * y + e * y * z
                + f * z * x + g * x + h * y + j * z + k)
    raise SystemExit(f'surface type {typ} not expected in this deck')


def all_surfaces_of(vol_id, vols, seen=None):
    '''All the surface IDs that take part in the definition of a volume,
    including those of its INTE/UNION operands.'''
    seen = set() if seen is None else seen
    if vol_id in seen or vol_id not in vols:
        return set()
    seen.add(vol_id)
    vol = vols[vol_id]
    res = set(vol['PLUS']) | set(vol['MINUS'])
    for sub in vol['INTE'] + vol['UNION']:
        res |= all_surfaces_of(sub, vols, seen)
    return res


def main():
    text = run(DECK)
    surfs, vols, bcs = parse_t4(text)

    # points on the two sheets of the cone r = |z|
    p_upper = (2.0, 0.0, 2.0)    # on MCNP surface 1 (flagged), wall of cell 1
    p_lower = (2.0, 0.0, -2.0)   # on MCNP surface 2 (NOT flagged), cell 2

    for kind, sid in bcs:
        if sid not in surfs:
            print(f'FAIL: boundary condition on surface {sid}, which is not '
                  'written')
            return 1
    refl = [sid for kind, sid in bcs if kind == 'REFLECTION']
    if len(bcs) != 1 or len(refl) != 1:
        print(f'FAIL: expected exactly one REFLECTION entry, got {bcs}')
        return 1
    sid = refl[0]
    if abs(surf_value(surfs[sid], p_upper)) > 1e-9:
        print(f'FAIL: the REFLECTION entry designates SURF {sid} '
              f'{surfs[sid]}, which does not pass through {p_upper}')
        return 1
    if sid not in all_surfaces_of(1, vols):
        print(f'FAIL: SURF {sid} does not bound the volume of cell 1')
        return 1

    # the wall of cell 2 (lower sheet, unflagged surface 2) must be free of
    # boundary conditions
    cell2_surfs = all_surfaces_of(2, vols)
    leaking = [s for s in cell2_surfs
               if s == sid and abs(surf_value(surfs[s], p_lower)) < 1e-9]
    if leaking:
        print(f'FAIL: MCNP surface 2 (lower cone sheet, NOT flagged) is '
              f'written as SURF {sid}, the very surface designated by '
              f'"ALL_COMPLETE REFLECTION {sid}": VOLU 2 (MCNP cell 2) is '
              f'defined with SURF {sid}, so its conical wall through '
              f'{p_lower} becomes reflecting although only the upper sheet '
              '(*1 KZ 0 1 1) is reflecting in MCNP. With '
              '--skip-deduplication the two cones stay separate and cell 2 '
              'is not affected.')
        return 1
    print('PASS: the reflecting flag of surface 1 does not reach the wall of '
          'cell 2')
    return 0


if __name__ == '__main__':
    sys.exit(main())
