#!/usr/bin/env python
'''C12 demo 1: IMP:N given on the cell cards, IMP:P given as a data card.

MCNP lets each cell parameter be given either on the cell cards or in the data
block, independently for each mnemonic (IMP:N and IMP:P are two different
parameters).  Cell 2 below has a zero neutron importance (cell card) but a
photon importance of 1 (data card): it is NOT a zero-importance cell and must
be converted.  Cell 3 is zero for both particles and must be omitted.
'''
import contextlib
import io
import os
import re
import sys
import tempfile

DECK = '''photon-only shell: imp:n on cell cards, imp:p in the data block
1 0 -1    imp:n=1
2 0 1 -2  imp:n=0    $ neutrons are killed here, photons are still followed
3 0 2     imp:n=0    $ outside world

1 so 1
2 so 2

mode n p
imp:p 1 1 0
nps 10
'''


def convert(deck):
    from t4_geom_convert.main import main
    tmpdir = tempfile.mkdtemp()
    inp = os.path.join(tmpdir, 'deck.imcnp')
    out = os.path.join(tmpdir, 'deck.t4')
    with open(inp, 'w') as fil:
        fil.write(deck)
    buf = io.StringIO()
    old_argv = sys.argv
    sys.argv = ['t4_geom_convert', inp, '-o', out]
    try:
        with contextlib.redirect_stdout(buf), contextlib.redirect_stderr(buf):
            main()
    finally:
        sys.argv = old_argv
    with open(out) as fil:
        return fil.read(), buf.getvalue()


def parse_t4(text):
    '''Very small reader for the T4 geometry written for this deck (spheres,
    volumes made of PLUS/MINUS lists only).'''
    spheres = {}
    for match in re.finditer(r'^SURF\s+(\d+)\s+SPHERE\s+(\S+)\s+(\S+)\s+(\S+)'
                             r'\s+(\S+)', text, re.M):
        sid, *vals = match.groups()
        spheres[int(sid)] = tuple(float(val) for val in vals)
    volumes = {}
    for match in re.finditer(r'^VOLU\s+(\d+)\s+EQUA\s+(.*?)\s+ENDV', text,
                             re.M):
        tokens = match.group(2).split()
        pluses, minuses = [], []
        i = 0
        while i < len(tokens):
            if tokens[i] in ('PLUS', 'MINUS'):
                n_surf = int(tokens[i+1])
                ids = [int(tok) for tok in tokens[i+2:i+2+n_surf]]
                (pluses if tokens[i] == 'PLUS' else minuses).extend(ids)
                i += 2 + n_surf
            else:
                raise ValueError(f'unexpected token {tokens[i]} in volume')
        volumes[int(match.group(1))] = (pluses, minuses)
    return spheres, volumes


def volumes_containing(point, spheres, volumes):
    def outside(sid):
        x0, y0, z0, rad = spheres[sid]
        dist2 = ((point[0]-x0)**2 + (point[1]-y0)**2 + (point[2]-z0)**2)
        return dist2 > rad**2
    return [vid for vid, (pluses, minuses) in volumes.items()
            if all(outside(sid) for sid in pluses)
            and all(not outside(sid) for sid in minuses)]


def main():
    text, log = convert(DECK)
    spheres, volumes = parse_t4(text)
    match = re.search(r'equal to zero:\s*\n\s*\[(.*?)\]', log)
    noted = ([int(tok) for tok in match.group(1).split(',') if tok.strip()]
             if match else [])

    problems = []
    # a point in cell 2 (1 < r < 2): IMP:N=0 but IMP:P=1, must be converted
    in_shell = volumes_containing((1.5, 0., 0.), spheres, volumes)
    if not in_shell:
        problems.append('the point (1.5, 0, 0) of cell 2 (IMP:N=0 on the cell '
                        'card, IMP:P=1 on the data card) belongs to no T4 '
                        f'volume; volumes written: {sorted(volumes)}')
    if 2 in noted:
        problems.append('cell 2 is listed in the note of zero-importance '
                        f'cells ({noted}) although its photon importance is 1')
    # sanity: cell 1 converted, cell 3 (zero for n and p) omitted
    if not volumes_containing((0., 0., 0.), spheres, volumes):
        problems.append('cell 1 has not been converted')
    if volumes_containing((5., 0., 0.), spheres, volumes):
        problems.append('cell 3 (zero importance for n and p) was converted')
    if 3 not in noted:
        problems.append(f'cell 3 is not listed in the note ({noted})')

    if problems:
        print('FAIL: ' + '; '.join(problems))
        sys.exit(1)
    print('PASS: cell 2 (non-zero photon importance) was converted, cell 3 '
          'was omitted')
    sys.exit(0)


if __name__ == '__main__':
    main()
