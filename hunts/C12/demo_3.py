#!/usr/bin/env python
'''C12 demo 3: IMP data cards written in MCNP's vertical (column) input
format.

MCNP manual, "Vertical Input Format": "Column input is particularly useful for
cell parameters [...].  Cell importances or volumes strung out on horizontal
input lines are not very readable [...].  In column format, all the cell
parameters for one cell can be on a single line, labeled with the name of the
cell."  A `#` in columns 1-5 is followed by the card names; each column of
the following lines is a regular input card; the optional first entry of each
line is the cell name.  So

    #    imp:n  imp:p
    1    1      1
    2    1      1
    3    0      0

is exactly   IMP:N 1 1 0   and   IMP:P 1 1 0.

Cells 1 and 2 must be converted, cell 3 must be omitted.  The same deck with
horizontal cards is the reference.
'''
import contextlib
import io
import os
import re
import sys
import tempfile

DECK = '''importances in column format
1 0 -1
2 0 1 -2
3 0 2

1 so 1
2 so 2

mode n p
{imp}
nps 10
'''

HORIZONTAL = 'imp:n 1 1 0\nimp:p 1 1 0'
VERTICAL = ('#    imp:n  imp:p\n'
            '1    1      1\n'
            '2    1      1\n'
            '3    0      0')

INCIDENTAL = (KeyError, IndexError, TypeError, AttributeError, ValueError,
              ZeroDivisionError, AssertionError)


def convert(deck):
    from t4_geom_convert.main import main
    tmpdir = tempfile.mkdtemp()
    inp = os.path.join(tmpdir, 'deck.imcnp')
    out = os.path.join(tmpdir, 'deck.t4')
    with open(inp, 'w') as fil:
        fil.write(deck)
    buf = io.StringIO()
    old_argv = sys.argv
    sys.argv = ['t4_geom_convert', inp, '-o', out]
    try:
        with contextlib.redirect_stdout(buf), contextlib.redirect_stderr(buf):
            main()
    finally:
        sys.argv = old_argv
    with open(out) as fil:
        return fil.read(), buf.getvalue()


def parse_t4(text):
    spheres = {}
    for match in re.finditer(r'^SURF\s+(\d+)\s+SPHERE\s+(\S+)\s+(\S+)\s+(\S+)'
                             r'\s+(\S+)', text, re.M):
        sid, *vals = match.groups()
        spheres[int(sid)] = tuple(float(val) for val in vals)
    volumes = {}
    for match in re.finditer(r'^VOLU\s+(\d+)\s+EQUA\s+(.*?)\s+ENDV', text,
                             re.M):
        tokens = match.group(2).split()
        pluses, minuses = [], []
        i = 0
        while i < len(tokens):
            if tokens[i] in ('PLUS', 'MINUS'):
                n_surf = int(tokens[i+1])
                ids = [int(tok) for tok in tokens[i+2:i+2+n_surf]]
                (pluses if tokens[i] == 'PLUS' else minuses).extend(ids)
                i += 2 + n_surf
            else:
                raise ValueError(f'unexpected token {tokens[i]} in volume')
        volumes[int(match.group(1))] = (pluses, minuses)
    return spheres, volumes


def is_covered(point, spheres, volumes):
    def outside(sid):
        x0, y0, z0, rad = spheres[sid]
        dist2 = ((point[0]-x0)**2 + (point[1]-y0)**2 + (point[2]-z0)**2)
        return dist2 > rad**2
    return any(all(outside(sid) for sid in pluses)
               and all(not outside(sid) for sid in minuses)
               for pluses, minuses in volumes.values())


def coverage(imp):
    text, log = convert(DECK.format(imp=imp))
    spheres, volumes = parse_t4(text)
    points = [(0.5, 0, 0), (1.5, 0, 0), (2.5, 0, 0)]
    covered = [is_covered(point, spheres, volumes) for point in points]
    match = re.search(r'equal to zero:\s*\n\s*\[(.*?)\]', log)
    noted = ([int(tok) for tok in match.group(1).split(',') if tok.strip()]
             if match else [])
    return covered, noted


def main():
    expected = ([True, True, False], [3])
    reference = coverage(HORIZONTAL)
    if reference != expected:
        print(f'FAIL: reference deck (horizontal IMP cards) gives '
              f'{reference}, expected {expected}')
        sys.exit(1)
    try:
        result = coverage(VERTICAL)
    except INCIDENTAL as err:
        print('FAIL: IMP:N/IMP:P cards written in column format (# imp:n '
              'imp:p) stop the conversion with '
              f'{type(err).__name__}: {err}')
        sys.exit(1)
    except Exception as err:  # deliberate refusal with a message
        print(f'PASS: column format refused with {type(err).__name__}: {err}')
        sys.exit(0)
    if result != expected:
        print(f'FAIL: column-format IMP cards give cells covered/noted = '
              f'{result}, the equivalent horizontal cards give {expected}')
        sys.exit(1)
    print('PASS: column-format IMP cards are read like the horizontal ones')
    sys.exit(0)


if __name__ == '__main__':
    main()
