#!/usr/bin/env python
'''C12 demo 2: IMP data card using the logarithmic interpolate shorthand
without a count (ILOG / LOG, i.e. n=1).

MCNP6 horizontal input format: "nLOG (or nILOG) inserts n logarithmic
interpolates between the preceding and the following entry"; as for nR, nI and
nJ, "if n is omitted it is assumed to be 1".  So

    IMP:N 1 ILOG 100 0      ==   IMP:N 1 10 100 0

Cells 1-3 have a non-zero importance and must be converted, cell 4 must be
omitted.  The same deck with the count written explicitly (1ILOG) is the
reference.
'''
import contextlib
import io
import os
import re
import sys
import tempfile

DECK = '''geometric splitting, importances given with a log interpolation
1 0 -1
2 0 1 -2
3 0 2 -3
4 0 3

1 so 1
2 so 2
3 so 3

mode n
imp:n {imp}
nps 10
'''

INCIDENTAL = (KeyError, IndexError, TypeError, AttributeError, ValueError,
              ZeroDivisionError, AssertionError)


def convert(deck):
    from t4_geom_convert.main import main
    tmpdir = tempfile.mkdtemp()
    inp = os.path.join(tmpdir, 'deck.imcnp')
    out = os.path.join(tmpdir, 'deck.t4')
    with open(inp, 'w') as fil:
        fil.write(deck)
    buf = io.StringIO()
    old_argv = sys.argv
    sys.argv = ['t4_geom_convert', inp, '-o', out]
    try:
        with contextlib.redirect_stdout(buf), contextlib.redirect_stderr(buf):
            main()
    finally:
        sys.argv = old_argv
    with open(out) as fil:
        return fil.read(), buf.getvalue()


def parse_t4(text):
    spheres = {}
    for match in re.finditer(r'^SURF\s+(\d+)\s+SPHERE\s+(\S+)\s+(\S+)\s+(\S+)'
                             r'\s+(\S+)', text, re.M):
        sid, *vals = match.groups()
        spheres[int(sid)] = tuple(float(val) for val in vals)
    volumes = {}
    for match in re.finditer(r'^VOLU\s+(\d+)\s+EQUA\s+(.*?)\s+ENDV', text,
                             re.M):
        tokens = match.group(2).split()
        pluses, minuses = [], []
        i = 0
        while i < len(tokens):
            if tokens[i] in ('PLUS', 'MINUS'):
                n_surf = int(tokens[i+1])
                ids = [int(tok) for tok in tokens[i+2:i+2+n_surf]]
                (pluses if tokens[i] == 'PLUS' else minuses).extend(ids)
                i += 2 + n_surf
            else:
                raise ValueError(f'unexpected token {tokens[i]} in volume')
        volumes[int(match.group(1))] = (pluses, minuses)
    return spheres, volumes


def is_covered(point, spheres, volumes):
    def outside(sid):
        x0, y0, z0, rad = spheres[sid]
        dist2 = ((point[0]-x0)**2 + (point[1]-y0)**2 + (point[2]-z0)**2)
        return dist2 > rad**2
    return any(all(outside(sid) for sid in pluses)
               and all(not outside(sid) for sid in minuses)
               for pluses, minuses in volumes.values())


def coverage(imp):
    '''Convert the deck with the given IMP:N entries; say which of the four
    cells are covered by a T4 volume and which are listed in the final note.'''
    text, log = convert(DECK.format(imp=imp))
    spheres, volumes = parse_t4(text)
    points = [(0.5, 0, 0), (1.5, 0, 0), (2.5, 0, 0), (3.5, 0, 0)]
    covered = [is_covered(point, spheres, volumes) for point in points]
    match = re.search(r'equal to zero:\s*\n\s*\[(.*?)\]', log)
    noted = ([int(tok) for tok in match.group(1).split(',') if tok.strip()]
             if match else [])
    return covered, noted


def main():
    expected = ([True, True, True, False], [4])
    reference = coverage('1 1ILOG 100 0')
    if reference != expected:
        print(f'FAIL: reference deck (1ILOG) gives {reference}, expected '
              f'{expected}')
        sys.exit(1)

    problems = []
    for imp in ('1 ILOG 100 0', '1 LOG 100 0'):
        try:
            result = coverage(imp)
        except INCIDENTAL as err:
            problems.append(f'"IMP:N {imp}" (same as IMP:N 1 10 100 0) stops '
                            f'the conversion with {type(err).__name__}: {err}')
            continue
        except Exception as err:  # deliberate refusal with a message
            print(f'note: "IMP:N {imp}" refused with '
                  f'{type(err).__name__}: {err}')
            continue
        if result != expected:
            problems.append(f'"IMP:N {imp}": cells covered/noted = {result}, '
                            f'expected {expected}')
    if problems:
        print('FAIL: ' + '; '.join(problems))
        sys.exit(1)
    print('PASS: ILOG/LOG without a count are expanded like 1ILOG/1LOG; cells '
          '1-3 converted, cell 4 omitted')
    sys.exit(0)


if __name__ == '__main__':
    main()
