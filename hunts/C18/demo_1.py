#!/usr/bin/env python
'''C18 demo: the converter overwrites its own input file.

When no -o option is given, the output name is computed as
Path(input).with_suffix('.t4') (main.py, conversion()).  For an MCNP deck whose
file name already ends in ".t4" this is the input file itself: the deck is read
into memory, then the very same path is opened for writing and the TRIPOLI-4
text replaces the MCNP deck.  The property requires the conversion to leave the
input file unmodified (and a second conversion of "the same deck" is no longer
possible, since the deck is gone).

The README says that the default output is called "<mcnp_input>.t4" (i.e. the
suffix is appended), which could never collide with the input.
'''
import contextlib
import hashlib
import io
import os
import shutil
import sys
import tempfile

from t4_geom_convert.main import conversion, parse_args

DECK = '''simple valid deck: a sphere in a box
1 1 -2.7 -1      imp:n=1
2 0       1 -2   imp:n=1
3 0       2      imp:n=0

1 so 5.0
2 rpp -10 10 -10 10 -10 10

m1 13027 1.0
'''


def digest(path):
    with open(path, 'rb') as fil:
        return hashlib.sha256(fil.read()).hexdigest()


def convert(argv):
    args = parse_args(argv)
    with contextlib.redirect_stdout(io.StringIO()):
        conversion(args)


def main():
    tmpdir = tempfile.mkdtemp(prefix='c18_demo1_')
    try:
        # control: the same deck under a neutral name is converted fine and is
        # left untouched
        control = os.path.join(tmpdir, 'sphere.imcnp')
        with open(control, 'w') as fil:
            fil.write(DECK)
        before = digest(control)
        convert([control])
        if digest(control) != before:
            print('FAIL: control deck sphere.imcnp was modified')
            return 1
        if not os.path.exists(os.path.join(tmpdir, 'sphere.t4')):
            print('FAIL: control conversion did not write sphere.t4')
            return 1

        # the same deck, stored in a file whose name ends in .t4 (MCNP does
        # not care about the name of its input file: mcnp6 i=sphere_for.t4)
        deck = os.path.join(tmpdir, 'sphere_for.t4')
        with open(deck, 'w') as fil:
            fil.write(DECK)
        before = digest(deck)
        try:
            convert([deck])
        except SystemExit as err:
            # a clean refusal (argparse-like error) would be acceptable
            if digest(deck) == before:
                print(f'PASS: conversion refused ({err}), input unchanged')
                return 0
        except Exception as err:  # pylint: disable=broad-except
            if digest(deck) == before:
                print(f'PASS: conversion refused ({type(err).__name__}: '
                      f'{err}), input unchanged')
                return 0
        after = digest(deck)
        if after != before:
            with open(deck) as fil:
                first = fil.readline().strip()
            print('FAIL: converting sphere_for.t4 (no -o option) overwrote '
                  'the MCNP input file with the TRIPOLI-4 output; the file '
                  f'now starts with {first!r}')
            return 1
        print('PASS: input file left unmodified')
        return 0
    finally:
        shutil.rmtree(tmpdir, ignore_errors=True)


if __name__ == '__main__':
    sys.exit(main())
