#!/usr/bin/env python
'''C18 -- the disk cache written by --cache is keyed by the name of the input
file only.  Neither the options that went into the cached data (--lattice,
--always-inline-*, --max-inline-score) nor the contents of the deck are
checked when the cache is read back.  The result of a conversion therefore
depends on the conversions that were run before it:

  (a) deck D converted with  --cache --lattice 1,-1:1,-4:4  gives 27 lattice
      elements in a fresh directory, but only 9 when D was converted before
      with  --cache --lattice 1,-1:1,-1:1  (the new --lattice is ignored
      without any message);
  (b) the same command on the same file name after the deck was edited
      (radius of the enclosing sphere) still writes the old geometry;
  (c) after a run that was refused because of a wrong --lattice argument
      (three ranges for a two-dimensional lattice), the corrected command
      is refused with the same error, about a range that is no longer given.

The deck is the first lattice example of the README.
'''
import contextlib
import io
import re
import shutil
import sys
import tempfile
import warnings
from pathlib import Path

DECK = '''A lattice example
1 0  -2 1 -4 3 IMP:N=1 U=2 LAT=1
10 1 -1. -10 IMP:N=1 FILL=2
1000 0 10 IMP:N=0

1 PX -1.5
2 PX 1.5
3 PY -0.5
4 PY 0.5
10 SO {radius}

m1 13027 1.

'''


def convert(deck, out, opts):
    '''Run one conversion in this process; return the output without the
    command-line echo.'''
    from t4_geom_convert.main import conversion, parse_args
    args = parse_args([str(deck), '-o', str(out)] + opts)
    with contextlib.redirect_stdout(io.StringIO()), \
            warnings.catch_warnings():
        warnings.simplefilter('ignore')
        conversion(args)
    lines = Path(out).read_text().splitlines()
    return '\n'.join(line for line in lines
                     if not line.startswith('// t4_geom_convert command '))


def n_real_volumes(text):
    return sum(1 for line in text.splitlines()
               if line.startswith('VOLU') and 'FICTIVE' not in line)


def sphere_radii(text):
    return sorted(set(float(match.group(1)) for match in
                      re.finditer(r'^SURF \d+ SPHERE \S+ \S+ \S+ (\S+)', text,
                                  re.MULTILINE)))


def main():
    failures = []
    tmp = Path(tempfile.mkdtemp(prefix='c18_cache_'))
    try:
        wanted = ['--cache', '--lattice', '1,-1:1,-4:4']
        earlier = ['--cache', '--lattice', '1,-1:1,-1:1']

        # reference: the conversion in a fresh directory
        fresh = tmp / 'fresh'
        fresh.mkdir()
        (fresh / 'lat.imcnp').write_text(DECK.format(radius=4))
        ref = convert(fresh / 'lat.imcnp', fresh / 'lat.t4', wanted)
        nocache = convert(fresh / 'lat.imcnp', fresh / 'lat_nocache.t4',
                          wanted[1:])
        if ref != nocache:
            failures.append('the first --cache run differs from the run '
                            'without --cache')

        # (a) the same conversion after another conversion of the same deck
        used = tmp / 'used'
        used.mkdir()
        (used / 'lat.imcnp').write_text(DECK.format(radius=4))
        convert(used / 'lat.imcnp', used / 'lat_small.t4', earlier)
        after = convert(used / 'lat.imcnp', used / 'lat.t4', wanted)
        if after != ref:
            failures.append(
                f'(a) --cache --lattice 1,-1:1,-4:4 wrote '
                f'{n_real_volumes(after)} volumes after an earlier '
                f'conversion with --lattice 1,-1:1,-1:1, but '
                f'{n_real_volumes(ref)} volumes in a fresh directory: the '
                'lattice ranges of the earlier run were read back from '
                'lat.mcnp.cache / lat.volumes.cache')

        # (b) same file name, same options, edited deck
        edited = tmp / 'edited'
        edited.mkdir()
        (edited / 'lat.imcnp').write_text(DECK.format(radius=4))
        convert(edited / 'lat.imcnp', edited / 'lat.t4', wanted)
        (edited / 'lat.imcnp').write_text(DECK.format(radius=3))
        after_edit = convert(edited / 'lat.imcnp', edited / 'lat.t4', wanted)
        fresh2 = tmp / 'fresh2'
        fresh2.mkdir()
        (fresh2 / 'lat.imcnp').write_text(DECK.format(radius=3))
        ref_edit = convert(fresh2 / 'lat.imcnp', fresh2 / 'lat.t4', wanted)
        if after_edit != ref_edit:
            failures.append(
                f'(b) after the deck was edited (SO 4 -> SO 3) the same '
                f'command wrote sphere radii {sphere_radii(after_edit)} '
                f'instead of {sphere_radii(ref_edit)}: the geometry of the '
                'old deck was read back from the cache')

        # (c) a refused run (wrong --lattice) followed by the corrected command
        retry = tmp / 'retry'
        retry.mkdir()
        (retry / 'lat.imcnp').write_text(DECK.format(radius=4))
        try:
            convert(retry / 'lat.imcnp', retry / 'lat.t4',
                    ['--cache', '--lattice', '1,-1:1,-4:4,0:1'])
        except Exception:  # the refusal itself is deliberate
            pass
        try:
            after_retry = convert(retry / 'lat.imcnp', retry / 'lat.t4',
                                  wanted)
        except Exception as err:  # pylint: disable=broad-except
            failures.append(
                '(c) after a run refused for --lattice 1,-1:1,-4:4,0:1 the '
                'corrected command (--lattice 1,-1:1,-4:4) stops with '
                f'{type(err).__name__}: {err}')
        else:
            if after_retry != ref:
                failures.append('(c) the corrected command after a refused '
                                'run differs from the fresh conversion')
    finally:
        shutil.rmtree(tmp, ignore_errors=True)

    if failures:
        print('FAIL: the output of a --cache conversion depends on earlier '
              'conversions: ' + '; '.join(failures))
        return 1
    print('PASS: --cache conversions do not depend on earlier conversions')
    return 0


if __name__ == '__main__':
    sys.exit(main())
