#!/usr/bin/env python
'''C17 demo 3: a FILL array that is too long is accepted when the surplus
entries are written with a repeat / interpolate shorthand that has no leading
count (`r` = `1r`, `i` = `1i`, ...): `fill=0:2 0:0 0:0 2 r 3 r` declares three
lattice elements and gives four universes (2 2 3 3).  The converter keeps the
first three, silently drops the rest and finishes normally, whereas the same
surplus written as a number (`2 2 3 3`) or as `nR` (`2 r 3 1r`) is refused.

Run from the root of the tree:
    PYTHONPATH=/tmp/t4shim:<tree> /venv/bin/python demo_3.py
'''
import os
import re
import subprocess
import sys
import tempfile

DECK = '''fill array of the wrong length
1 0 -1 2 -3 4 lat=1 u=1 imp:n=1 {fill}
2 0 -5 u=2 imp:n=1
3 0  5 u=2 imp:n=1
4 0 -5 u=3 imp:n=1
5 0  5 u=3 imp:n=1
10 0 -10 fill=1 imp:n=1
11 0 10 imp:n=0

1 px 1
2 px -1
3 py 1
4 py -1
5 so 0.5
10 rpp -0.9 4.9 -0.9 0.9 -5 5

'''


def convert(deck, *options):
    '''Run the converter (from the tree on PYTHONPATH) in a subprocess.'''
    tmpdir = tempfile.mkdtemp(prefix='c17_demo3_')
    inp = os.path.join(tmpdir, 'deck.imcnp')
    out = os.path.join(tmpdir, 'deck_out.t4')
    with open(inp, 'w') as fil:
        fil.write(deck)
    cmd = [sys.executable, '-c',
           'from t4_geom_convert.main import main; main()',
           inp, '-o', out, *options]
    proc = subprocess.run(cmd, stdout=subprocess.PIPE, stderr=subprocess.PIPE,
                          universal_newlines=True)
    text = None
    if proc.returncode == 0 and os.path.exists(out):
        with open(out) as fil:
            text = fil.read()
    return proc, text


def real_volumes(text):
    '''The VOLU lines of the non-fictive volumes, without the numbers of the
    volumes (which depend on the conversion history).'''
    lines = []
    for line in text.splitlines():
        if line.startswith('VOLU') and 'FICTIVE' not in line:
            lines.append(re.sub(r'^VOLU \d+', 'VOLU', line))
    return lines


def last_line(proc):
    return (proc.stderr.strip().splitlines() or ['?'])[-1]


def main():
    # sanity: the array of the right length converts
    proc_ok, text_ok = convert(DECK.format(fill='fill=0:2 0:0 0:0 2 r 3'))
    if text_ok is None:
        print('PASS (the well-formed deck does not convert, cannot judge: '
              f'{last_line(proc_ok)})')
        return 0
    # sanity: the surplus written as a plain number is refused
    proc_num, text_num = convert(DECK.format(fill='fill=0:2 0:0 0:0 2 2 3 3'))

    accepted = []
    for fill in ('fill=0:2 0:0 0:0 2 r 3 r',       # 2 2 3 3: 4 entries
                 'fill=0:2 0:0 0:0 2 2 3 i 5'):    # 2 2 3 4 5: 5 entries
        proc, text = convert(DECK.format(fill=fill))
        if text is None:
            print(f'  {fill!r}: refused: {last_line(proc)}')
            continue
        same = real_volumes(text) == real_volumes(text_ok)
        accepted.append(f'{fill!r} (3 lattice elements) finished normally'
                        + (' with exactly the volumes of the 3-entry array '
                           '"2 r 3": the surplus entries were dropped'
                           if same else ''))
    if accepted:
        refused = ('refused' if text_num is None
                   else 'ALSO accepted')
        print('FAIL: FILL arrays with more entries than lattice elements '
              '(MCNP: fatal error) were converted without any message: '
              + '; '.join(accepted)
              + f'. For comparison "fill=0:2 0:0 0:0 2 2 3 3" is {refused}'
              + (f' ({last_line(proc_num)})' if text_num is None else ''))
        return 1
    print('PASS: the FILL arrays of the wrong length were refused')
    return 0


if __name__ == '__main__':
    sys.exit(main())
