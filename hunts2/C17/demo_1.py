#!/usr/bin/env python
'''C17 demo 1: the complement of a lattice cell (#n where cell n carries LAT)
is not supported by the converter, but instead of stopping the run it silently
replaces the complement with an empty region: the cell that uses it vanishes
from the TRIPOLI-4 geometry and the conversion finishes normally.

Run from the root of the tree:
    PYTHONPATH=/tmp/t4shim:<tree> /venv/bin/python demo_1.py
'''
import os
import subprocess
import sys
import tempfile

DECK = '''complement of a lattice cell
c the base element of the lattice: a square prism -1<x<1, -1<y<1
1 0 -1 2 -3 4 lat=1 u=1 fill=2 imp:n=1
2 0 -5 u=2 imp:n=1
3 0  5 u=2 imp:n=1
c window on the lattice: exactly the element (0,0), cut at z=+-1
10 0 -1 2 -3 4 -6 7 fill=1 imp:n=1
c the rest of the sphere outside the prism, written with #1
11 0 -10 {cell11} imp:n=1
c the rest of the prism inside the sphere
12 0 -10 -1 2 -3 4 (6:-7) imp:n=1
13 0 10 imp:n=0

1 px 1
2 px -1
3 py 1
4 py -1
5 so 0.5
6 pz 1
7 pz -1
10 so 3

'''


def convert(deck, *options):
    '''Run the converter (from the tree on PYTHONPATH) in a subprocess.'''
    tmpdir = tempfile.mkdtemp(prefix='c17_demo1_')
    inp = os.path.join(tmpdir, 'deck.imcnp')
    out = os.path.join(tmpdir, 'deck_out.t4')
    with open(inp, 'w') as fil:
        fil.write(deck)
    cmd = [sys.executable, '-c',
           'from t4_geom_convert.main import main; main()',
           inp, '-o', out, *options]
    proc = subprocess.run(cmd, stdout=subprocess.PIPE, stderr=subprocess.PIPE,
                          universal_newlines=True)
    text = None
    if proc.returncode == 0 and os.path.exists(out):
        with open(out) as fil:
            text = fil.read()
    return proc, text


def parse_t4(text):
    '''Minimal reader of the GEOMETRY block (planes and spheres only).'''
    surfs, vols = {}, {}
    for line in text.splitlines():
        line = line.split('//')[0].split()
        if not line:
            continue
        if line[0] == 'SURF':
            surfs[int(line[1])] = (line[2], [float(x) for x in line[3:]])
        elif line[0] == 'VOLU':
            toks = line[2:]
            vol = {'PLUS': [], 'MINUS': [], 'INTE': [], 'UNION': [],
                   'FICTIVE': 'FICTIVE' in toks}
            i = 0
            while i < len(toks):
                if toks[i] in ('PLUS', 'MINUS', 'INTE', 'UNION'):
                    num = int(toks[i + 1])
                    vol[toks[i]] = [int(x) for x in toks[i + 2:i + 2 + num]]
                    i += 2 + num
                else:
                    i += 1
            vols[int(line[1])] = vol
    return surfs, vols


def surf_value(surf, point):
    typ, par = surf
    x, y, z = point
    if typ == 'PLANEX':
        return x - par[0]
    if typ == 'PLANEY':
        return y - par[0]
    if typ == 'PLANEZ':
        return z - par[0]
    if typ == 'SPHERE':
        return ((x - par[0])**2 + (y - par[1])**2 + (z - par[2])**2
                - par[3]**2)
    raise NotImplementedError(typ)


def inside(vid, point, surfs, vols):
    vol = vols[vid]
    res = (all(surf_value(surfs[s], point) > 0 for s in vol['PLUS'])
           and all(surf_value(surfs[s], point) < 0 for s in vol['MINUS'])
           and all(inside(v, point, surfs, vols) for v in vol['INTE']))
    return res or any(inside(v, point, surfs, vols) for v in vol['UNION'])


def owners(point, surfs, vols):
    return [vid for vid, vol in vols.items()
            if not vol['FICTIVE'] and inside(vid, point, surfs, vols)]


def main():
    # points inside the sphere of radius 3 and outside the prism |x|,|y|<1:
    # they belong to MCNP cell 11 = -10 #1 = -10 (1:-2:3:-4)
    points = [(2.0, 0.1, 0.3), (-1.7, 0.4, -0.2), (0.2, 1.9, 0.5),
              (0.3, -2.2, -0.6), (1.5, 1.5, 1.0)]

    # reference: the same cell with the complement written out by hand
    proc_ref, text_ref = convert(DECK.format(cell11='(1:-2:3:-4)'),
                                 '--lattice', '1,0:0,0:0')
    if text_ref is None:
        print('PASS (cannot run the reference deck: '
              f'{proc_ref.stderr.strip().splitlines()[-1:]})')
        return 0
    surfs, vols = parse_t4(text_ref)
    ref_owners = [owners(p, surfs, vols) for p in points]
    if any(len(own) != 1 for own in ref_owners):
        print('PASS (unexpected reference conversion, cannot judge: '
              f'{ref_owners})')
        return 0

    proc, text = convert(DECK.format(cell11='#1'), '--lattice', '1,0:0,0:0')
    if text is None:
        last = (proc.stderr.strip().splitlines() or ['?'])[-1]
        print(f'PASS: the run stopped with an error: {last}')
        return 0
    surfs, vols = parse_t4(text)
    lost = [p for p in points if not owners(p, surfs, vols)]
    if lost:
        print('FAIL: cell 11 is "-10 #1" where cell 1 is a LAT=1 cell (i.e. '
              'the part of sphere 10 outside the prism -1 2 -3 4). The '
              'complement of a lattice cell is not supported, but the run '
              'finished normally (exit status 0, no message) and cell 11 is '
              f'missing from the output: the points {lost} belong to no '
              'volume, while with the complement written out by hand, '
              '"-10 (1:-2:3:-4)", they belong to volumes '
              f'{[own[0] for own in ref_owners]}. Non-fictive volumes '
              'written: '
              f'{sorted(v for v in vols if not vols[v]["FICTIVE"])}')
        return 1
    print('PASS: all the points of cell 11 belong to a volume')
    return 0


if __name__ == '__main__':
    sys.exit(main())
