#!/usr/bin/env python
'''C17 demo 2: a FILL keyword that names a universe to which no cell belongs
(a typo in the universe number; MCNP stops with a fatal error) does not stop
the conversion: the filled cell - or the lattice element - silently vanishes
and the run finishes normally.

Run from the root of the tree:
    PYTHONPATH=/tmp/t4shim:<tree> /venv/bin/python demo_2.py
'''
import os
import subprocess
import sys
import tempfile

# cell 1 is filled with universe 7, but the only filling universe of the deck
# is universe 1 (say, `fill=7` is a typo for `fill=1`)
DECK_FILL = '''fill with a universe that does not exist
1 0 -1 fill=7 imp:n=1
2 0 1 -2 imp:n=1
5 0 2 imp:n=0
3 0 -3 u=1 imp:n=1
4 0 3 u=1 imp:n=1

1 so 5
2 so 6
3 so 1

'''

# the same fault in an entry of a FILL array: universe 9 does not exist
DECK_ARRAY = '''fill array with a universe that does not exist
1 0 -1 2 -3 4 lat=1 u=1 imp:n=1 fill=0:1 0:0 0:0 2 9
2 0 -5 u=2 imp:n=1
3 0 5 u=2 imp:n=1
10 0 -10 fill=1 imp:n=1
11 0 10 imp:n=0

1 px 1
2 px -1
3 py 1
4 py -1
5 so 0.5
10 s 1 0 0 0.9

'''


def convert(deck, *options):
    '''Run the converter (from the tree on PYTHONPATH) in a subprocess.'''
    tmpdir = tempfile.mkdtemp(prefix='c17_demo2_')
    inp = os.path.join(tmpdir, 'deck.imcnp')
    out = os.path.join(tmpdir, 'deck_out.t4')
    with open(inp, 'w') as fil:
        fil.write(deck)
    cmd = [sys.executable, '-c',
           'from t4_geom_convert.main import main; main()',
           inp, '-o', out, *options]
    proc = subprocess.run(cmd, stdout=subprocess.PIPE, stderr=subprocess.PIPE,
                          universal_newlines=True)
    text = None
    if proc.returncode == 0 and os.path.exists(out):
        with open(out) as fil:
            text = fil.read()
    return proc, text


def parse_t4(text):
    '''Minimal reader of the GEOMETRY block (planes and spheres only).'''
    surfs, vols = {}, {}
    for line in text.splitlines():
        line = line.split('//')[0].split()
        if not line:
            continue
        if line[0] == 'SURF':
            surfs[int(line[1])] = (line[2], [float(x) for x in line[3:]])
        elif line[0] == 'VOLU':
            toks = line[2:]
            vol = {'PLUS': [], 'MINUS': [], 'INTE': [], 'UNION': [],
                   'FICTIVE': 'FICTIVE' in toks}
            i = 0
            while i < len(toks):
                if toks[i] in ('PLUS', 'MINUS', 'INTE', 'UNION'):
                    num = int(toks[i + 1])
                    vol[toks[i]] = [int(x) for x in toks[i + 2:i + 2 + num]]
                    i += 2 + num
                else:
                    i += 1
            vols[int(line[1])] = vol
    return surfs, vols


def surf_value(surf, point):
    typ, par = surf
    x, y, z = point
    if typ == 'PLANEX':
        return x - par[0]
    if typ == 'PLANEY':
        return y - par[0]
    if typ == 'PLANEZ':
        return z - par[0]
    if typ == 'SPHERE':
        return ((x - par[0])**2 + (y - par[1])**2 + (z - par[2])**2
                - par[3]**2)
    raise NotImplementedError(typ)


def inside(vid, point, surfs, vols):
    vol = vols[vid]
    res = (all(surf_value(surfs[s], point) > 0 for s in vol['PLUS'])
           and all(surf_value(surfs[s], point) < 0 for s in vol['MINUS'])
           and all(inside(v, point, surfs, vols) for v in vol['INTE']))
    return res or any(inside(v, point, surfs, vols) for v in vol['UNION'])


def owners(point, surfs, vols):
    return [vid for vid, vol in vols.items()
            if not vol['FICTIVE'] and inside(vid, point, surfs, vols)]


def check(label, deck, point):
    '''Return a description of the violation, or None.'''
    proc, text = convert(deck)
    if text is None:
        last = (proc.stderr.strip().splitlines() or ['?'])[-1]
        print(f'  {label}: the run stopped with an error: {last}')
        return None
    surfs, vols = parse_t4(text)
    try:
        own = owners(point, surfs, vols)
    except NotImplementedError:
        own = '?'
    return (f'{label}: the run finished normally (exit status 0, no message '
            'about the universe); non-fictive volumes written: '
            f'{sorted(v for v in vols if not vols[v]["FICTIVE"])}; the point '
            f'{point}, which lies in the cell filled with the missing '
            f'universe, belongs to volumes {own}')


def main():
    problems = []
    # (0, 0, 0) is inside cell 1 (sphere of radius 5)
    problems.append(check('FILL=7 while only universe 1 exists', DECK_FILL,
                          (0.1, 0.2, 0.3)))
    # (1.5, 0.1, 0.2) is inside the sphere 10 and in the lattice element
    # (1, 0, 0), which is filled with the missing universe 9
    problems.append(check('FILL=0:1 0:0 0:0 2 9 while universe 9 does not '
                          'exist', DECK_ARRAY, (1.5, 0.1, 0.2)))
    problems = [problem for problem in problems if problem]
    if problems:
        print('FAIL: a FILL that names a universe without any cell (MCNP: '
              'fatal error) does not stop the conversion; the filled region '
              'is silently dropped from the geometry. ' + ' || '.join(problems))
        return 1
    print('PASS: the undefined universes were refused')
    return 0


if __name__ == '__main__':
    sys.exit(main())
