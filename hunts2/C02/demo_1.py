#!/usr/bin/env python
'''C02 demo 1: an SQ card with G = 0 (cone, paraboloid) whose centre has
non-integer coordinates is converted with INVERTED sense.

MCNP: the sense of a point with respect to an SQ surface is the sign of
  A(x-X)^2 + B(y-Y)^2 + C(z-Z)^2 + 2D(x-X) + 2E(y-Y) + 2F(z-Z) + G .
The converter expands the card to a general quadric and negates all ten
coefficients when the expanded polynomial, evaluated at (X, Y, Z), is > 0.
Mathematically that value is G (= 0 here, so no negation is intended), but it
is computed from the expanded coefficients in floating point: round-off makes
it +1e-17 or so for some centres, and the whole surface is negated.  The cell
'-S' (inside the cone / the bowl) then becomes the outside and vice versa.
'''
import io
import os
import sys
import tempfile
import contextlib

# (label, SQ parameters A B C D E F G X Y Z)
SURFS = {
    1: ('45-degree cone, apex (0.1, 0.1, 0.7)',
        [1, 1, -1, 0, 0, 0, 0, 0.1, 0.1, 0.7]),
    2: ('same cone, apex (0.1, 0.1, 0.2)',
        [1, 1, -1, 0, 0, 0, 0, 0.1, 0.1, 0.2]),
    3: ('paraboloid z-Z = (x-X)^2+(y-Y)^2, vertex (0.1, 0.3, 0.2)',
        [1, 1, 0, 0, 0, -0.5, 0, 0.1, 0.3, 0.2]),
    4: ('same paraboloid, vertex (0.1, 0.2, 0.7)',
        [1, 1, 0, 0, 0, -0.5, 0, 0.1, 0.2, 0.7]),
    5: ('ellipsoid through its reference point (3, 2, -0.897), D E F != 0',
        [-1.174, -0.401, -2.158, 1.0, 2.0, 2.0, 0, 3.0, 2.0, -0.897]),
}


def mcnp_sq(p, pt):
    a, b, c, d, e, f, g, x0, y0, z0 = p
    x, y, z = pt[0] - x0, pt[1] - y0, pt[2] - z0
    return a*x*x + b*y*y + c*z*z + 2*d*x + 2*e*y + 2*f*z + g


def make_deck():
    cells, surfs = [], []
    for k, (_, p) in SURFS.items():
        cells.append(f'{k} 0 -{k} -99 imp:n=1')        # negative side of SQ k
        cells.append(f'{100 + k} 0 {k} -99 imp:n=1')   # positive side of SQ k
        surfs.append(f'{k} sq ' + ' '.join(repr(v) for v in p))
    cells.append('999 0 99 imp:n=0')
    surfs.append('99 so 50')
    return ('SQ cards with G = 0\n' + '\n'.join(cells) + '\n\n'
            + '\n'.join(surfs) + '\n\n')


def convert(deck):
    from t4_geom_convert.main import main
    tmp = tempfile.mkdtemp(prefix='c02_demo1_')
    inp, out = os.path.join(tmp, 'deck.imcnp'), os.path.join(tmp, 'deck.t4')
    with open(inp, 'w') as fil:
        fil.write(deck)
    argv, sys.argv = sys.argv, ['t4_geom_convert', inp, '-o', out]
    buf = io.StringIO()
    try:
        with contextlib.redirect_stdout(buf), contextlib.redirect_stderr(buf):
            try:
                main()
            except SystemExit as err:
                if err.code not in (0, None):
                    raise RuntimeError(buf.getvalue())
    finally:
        sys.argv = argv
    with open(out) as fil:
        return fil.read()


def parse_t4(txt):
    surfs, vols = {}, {}
    geom = txt.split('GEOMETRY', 1)[1].split('ENDG')[0]
    for line in geom.splitlines():
        tok = line.split('//')[0].split()
        if not tok:
            continue
        if tok[0] == 'SURF':
            surfs[int(tok[1])] = (tok[2], [float(x) for x in tok[3:]])
        elif tok[0] == 'VOLU':
            vol = {'PLUS': [], 'MINUS': [], 'INTE': [], 'UNION': []}
            i = 3
            while tok[i] != 'ENDV':
                if tok[i] in vol:
                    n = int(tok[i + 1])
                    vol[tok[i]] += [int(x) for x in tok[i + 2:i + 2 + n]]
                    i += 2 + n
                else:
                    i += 1
            vols[int(tok[1])] = vol
    return surfs, vols


def t4_eval(surf, pt):
    typ, p = surf
    x, y, z = pt
    if typ == 'QUAD':
        return (p[0]*x*x + p[1]*y*y + p[2]*z*z + p[3]*x*y + p[4]*y*z
                + p[5]*z*x + p[6]*x + p[7]*y + p[8]*z + p[9])
    if typ == 'SPHERE':
        return (x-p[0])**2 + (y-p[1])**2 + (z-p[2])**2 - p[3]**2
    if typ == 'PLANEX':
        return x - p[0]
    if typ == 'PLANEY':
        return y - p[0]
    if typ == 'PLANEZ':
        return z - p[0]
    if typ == 'PLANE':
        return p[0]*x + p[1]*y + p[2]*z + p[3]
    raise ValueError(f'demo cannot evaluate T4 surface type {typ}')


def in_vol(vid, pt, surfs, vols):
    if vid not in vols:
        return False
    vol = vols[vid]
    inside = (all(t4_eval(surfs[s], pt) > 0 for s in vol['PLUS'])
              and all(t4_eval(surfs[s], pt) < 0 for s in vol['MINUS'])
              and all(in_vol(i, pt, surfs, vols) for i in vol['INTE']))
    return inside or any(in_vol(i, pt, surfs, vols) for i in vol['UNION'])


def main():
    txt = convert(make_deck())
    surfs, vols = parse_t4(txt)
    failures = []
    for k, (label, p) in SURFS.items():
        x0, y0, z0 = p[7:10]
        probes = [(x0, y0, z0 + 2.0), (x0, y0, z0 - 2.0),
                  (x0 + 2.0, y0, z0), (x0, y0 - 2.0, z0),
                  (x0 + 1.0, y0 + 0.5, z0 + 3.0), (x0 - 3.0, y0 + 1.0, z0 - 0.5)]
        for pt in probes:
            val = mcnp_sq(p, pt)
            if abs(val) < 1e-6:
                continue
            exp_cell = k if val < 0 else 100 + k
            other = 100 + k if val < 0 else k
            if not in_vol(exp_cell, pt, surfs, vols) \
                    or in_vol(other, pt, surfs, vols):
                failures.append(
                    f'surface {k} ({label}): point {pt} has MCNP sense '
                    f'{"-" if val < 0 else "+"} (f={val:.4g}) and belongs to '
                    f'cell {exp_cell}, but the converted geometry puts it in '
                    f'the volume of cell {other}')
                break
    if failures:
        print('FAIL: SQ surfaces with G=0 are converted with inverted sense '
              f'({len(failures)} of {len(SURFS)} cards; the others, of the '
              'same shape, are right):')
        for fail in failures:
            print('   ', fail)
        return 1
    print('PASS: every SQ card with G=0 keeps its locus and sense')
    return 0


if __name__ == '__main__':
    sys.exit(main())
