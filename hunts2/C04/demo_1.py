#!/usr/bin/env python
'''C04 demo 1: a TR card supplied through the MCNP `READ FILE=...` card.

MCNP (5 1.40 and later, 6.x) inserts the contents of the named file at the
place of the READ card.  Keeping the TR cards of a model in a separate file is
a normal use of this card.  The converter silently skips the READ card, so the
transformation number carried by a surface (or by TRCL) is unknown to it and
the conversion stops with a bare `KeyError: 7`.

Expected (either is fine):
  * the surface / the cell is moved by the transformation of the included TR
    card (sphere of radius 3 centred on (1, 2, 3)), or
  * the deck is refused with a deliberate message that names the READ card.
'''
import contextlib
import io
import os
import re
import sys
import tempfile
import warnings


def convert(deck_path, out_path):
    from t4_geom_convert.main import parse_args, conversion
    args = parse_args([deck_path, '-o', out_path])
    buf = io.StringIO()
    with contextlib.redirect_stdout(buf), warnings.catch_warnings():
        warnings.simplefilter('ignore')
        conversion(args)
    with open(out_path) as t4file:
        return t4file.read()


def sphere_centres(t4_text):
    centres = []
    for line in t4_text.splitlines():
        tok = line.split('//')[0].split()
        if len(tok) >= 7 and tok[0] == 'SURF' and tok[2] == 'SPHERE':
            x, y, z, r = map(float, tok[3:7])
            if abs(r - 3.0) < 1e-9:
                centres.append((x, y, z))
    return centres


def run_case(name, cells, surfaces, tmpdir):
    inc = os.path.join(tmpdir, 'transf.inc')
    with open(inc, 'w') as incfile:
        incfile.write('c transformations of the model\ntr7 1 2 3\n')
    deck = os.path.join(tmpdir, name + '.imcnp')
    with open(deck, 'w') as deckfile:
        deckfile.write('TR card in an included file (' + name + ')\n'
                       + cells + '\n' + surfaces + '\n'
                       + 'read file=' + inc + '\n'
                       + 'm1 1001 1\n')
    out = os.path.join(tmpdir, name + '.t4')
    try:
        text = convert(deck, out)
    except BaseException as err:  # pylint: disable=broad-except
        msg = f'{type(err).__name__}: {err}'
        if re.search(r'\bread\b', str(err), re.IGNORECASE):
            return True, f'{name}: refused by name ({msg})'
        return False, (f'{name}: conversion stopped with {msg} although the '
                       'TR7 card is supplied by the READ FILE card')
    centres = sphere_centres(text)
    good = [c for c in centres
            if max(abs(c[0] - 1), abs(c[1] - 2), abs(c[2] - 3)) < 1e-9]
    if good:
        return True, f'{name}: sphere moved to (1, 2, 3)'
    return False, (f'{name}: converted, but the sphere of radius 3 is at '
                   f'{centres} instead of (1, 2, 3): the TR card of the '
                   'included file was ignored')


def main():
    results = []
    with tempfile.TemporaryDirectory(prefix='c04_demo1_') as tmpdir:
        # (a) the surface carries the transformation number
        results.append(run_case(
            'surface_tr',
            '1 1 -1.0 -1 imp:n=1\n2 0 1 -2 imp:n=1\n3 0 2 imp:n=0\n',
            '1 7 so 3\n2 so 50\n', tmpdir))
        # (b) the cell carries TRCL=7
        results.append(run_case(
            'cell_trcl',
            '1 1 -1.0 -1 trcl=7 imp:n=1\n2 0 1001 -2 imp:n=1\n'
            '3 0 2 imp:n=0\n',
            '1 so 3\n2 so 50\n', tmpdir))
    failures = [msg for ok, msg in results if not ok]
    if failures:
        print('FAIL: ' + ' | '.join(failures))
        return 1
    print('PASS: ' + ' | '.join(msg for _, msg in results))
    return 0


if __name__ == '__main__':
    sys.exit(main())
