#!/usr/bin/env python
"""C08 demo 1: materials brought in with a READ card.

MCNP (5 from version 1.40, 6.x) has the READ card

    READ FILE=filename [NOECHO] ...

which may stand anywhere after the title card: the cards of `filename` are
read as if they were written in its place.  Keeping the material cards of a
model in a file of their own and reading it from every deck is the most common
use.

The converter only looks at the main file and silently skips the READ card of
the data block.  The cells keep their material numbers and densities, so the
GEOMCOMP block assigns the volumes to compositions m1_-1.0 and m2_-2.7, but the
COMPOSITION block (which also declares "1" composition) only defines the void
composition m0: the written file names compositions that it does not define.

Expected: either the compositions of the file that is read are written (every
name used in GEOMCOMP is defined in COMPOSITION), or the conversion is refused
with a message that names the READ card.
"""
import contextlib
import io
import os
import re
import sys
import tempfile
import warnings

MATS = """c material library shared by several decks
m1 1001 2 8016 1
m2 13027 1
"""

DECK = """materials kept in a separate file
1 1 -1.0  -1     imp:n=1
2 2 -2.7  1 -2   imp:n=1
3 0       2      imp:n=0

1 so 1
2 so 2

read file={matfile} noecho
nps 1000
"""


def main():
    from t4_geom_convert.main import main as t4_main
    workdir = tempfile.mkdtemp(prefix='c08_demo1_')
    matfile = 'c08mats.txt'
    with open(os.path.join(workdir, matfile), 'w') as fil:
        fil.write(MATS)
    inp = os.path.join(workdir, 'deck.imcnp')
    out = os.path.join(workdir, 'deck.out')
    with open(inp, 'w') as fil:
        fil.write(DECK.format(matfile=matfile))
    argv, cwd = sys.argv, os.getcwd()
    sys.argv = ['t4_geom_convert', inp, '-o', out]
    os.chdir(workdir)   # MCNP looks for the file in the working directory
    buf = io.StringIO()
    try:
        with contextlib.redirect_stdout(buf), warnings.catch_warnings():
            warnings.simplefilter('ignore')
            t4_main()
    except Exception as err:  # pylint: disable=broad-except
        if 'read' in str(err).lower():
            print('PASS: the READ card is refused by name:', err)
            return 0
        print(f'FAIL: the conversion of a deck with a READ card stops with '
              f'{type(err).__name__}: {err}')
        return 1
    finally:
        sys.argv = argv
        os.chdir(cwd)

    with open(out) as fil:
        text = '\n'.join(line.split('//')[0] for line in fil.read().splitlines())
    compo = re.search(r'(?ms)^COMPOSITION\s*$(.*?)^END_COMPOSITION', text)
    geomcomp = re.search(r'(?ms)^GEOMCOMP\s*$(.*?)^END_GEOMCOMP', text)
    if compo is None or geomcomp is None:
        print('HARNESS PROBLEM: COMPOSITION or GEOMCOMP block not found')
        return 2
    defined = set(re.findall(r'^(?:POINT_WISE|DENSITY)\s+\S+\s+(\S+)',
                             compo.group(1), re.M))
    used = [line.split()[0] for line in geomcomp.group(1).splitlines()
            if line.split()]
    undefined = [name for name in used if name not in defined]
    if undefined:
        print('FAIL: the READ card of the data block was silently ignored: '
              f'GEOMCOMP assigns volumes to the compositions {undefined}, '
              f'which the COMPOSITION block does not define (it defines only '
              f'{sorted(defined)})')
        return 1
    print('PASS: every composition used in GEOMCOMP is defined:', used)
    return 0


if __name__ == '__main__':
    sys.exit(main())
