#!/usr/bin/env python
"""C08 demo 2: a TR card whose trailing displacement entries are left out.

MCNP data cards may be cut short: the entries that are not written keep their
default values (MCNP manual, "Default Values": "if an input card is left out,
the default values for all parameters on the card are used ... to change a
parameter that is preceded by others, specify the others or use nJ").  For the
TR card the manual gives the defaults entry by entry:

    Default:  TRn 0 0 0   1 0 0  0 1 0  0 0 1   1

so `tr1 20` is the translation (20, 0, 0), exactly like `tr1 20 0 0` and like
`tr1 20 2j` (which the converter accepts).

Expected: the deck converts, and the sphere that carries transformation 1 is
written as a SPHERE centred in (20, 0, 0), as with the fully written card.
Observed (defect): the conversion stops with
    ValueError: not enough values to unpack (expected 9, got 7)
"""
import contextlib
import io
import os
import re
import sys
import tempfile
import traceback
import warnings

DECK = """trailing entries of a TR card left out
1 1 -1.0 -1        imp:n=1
2 0      1 -3      imp:n=1
3 0      3         imp:n=0

1 1 so 1
3 so 100

m1 1001 2 8016 1
{trcard}
"""


def convert(deck_text, workdir, name):
    from t4_geom_convert.main import main
    inp = os.path.join(workdir, name + '.imcnp')
    out = os.path.join(workdir, name + '.out')
    with open(inp, 'w') as fil:
        fil.write(deck_text)
    argv = sys.argv
    sys.argv = ['t4_geom_convert', inp, '-o', out]
    buf = io.StringIO()
    try:
        with contextlib.redirect_stdout(buf), warnings.catch_warnings():
            warnings.simplefilter('ignore')
            main()
    finally:
        sys.argv = argv
    with open(out) as fil:
        return fil.read()


def sphere_of_surface_1(t4_text):
    for line in t4_text.splitlines():
        match = re.match(r'\s*SURF\s+1\s+SPHERE\s+(\S+)\s+(\S+)\s+(\S+)\s+(\S+)',
                         line)
        if match:
            return tuple(float(x) for x in match.groups())
    return None


def main():
    workdir = tempfile.mkdtemp(prefix='c08_demo2_')
    # reference: the same card written in full
    ref = convert(DECK.format(trcard='tr1 20 0 0'), workdir, 'full')
    ref_sphere = sphere_of_surface_1(ref)
    if ref_sphere != (20.0, 0.0, 0.0, 1.0):
        print('HARNESS PROBLEM: reference deck gives', ref_sphere)
        return 2
    failures = []
    for card in ('tr1 20', 'tr1 20 0', '*tr1 20'):
        try:
            text = convert(DECK.format(trcard=card), workdir,
                           'short_%d' % len(failures))
        except Exception as err:  # pylint: disable=broad-except
            last = traceback.extract_tb(err.__traceback__)[-1]
            failures.append(f'{card!r}: {type(err).__name__}: {err} '
                            f'(in {os.path.basename(last.filename)}:'
                            f'{last.lineno} {last.name})')
            continue
        sphere = sphere_of_surface_1(text)
        if sphere != ref_sphere:
            failures.append(f'{card!r}: surface 1 written as {sphere}, '
                            f'expected {ref_sphere}')
    if failures:
        print('FAIL: a TR card with its trailing (default) entries left out '
              'is valid MCNP and means the same as the full card, but: '
              + ' ; '.join(failures))
        return 1
    print('PASS: short TR cards are converted like the fully written card')
    return 0


if __name__ == '__main__':
    sys.exit(main())
