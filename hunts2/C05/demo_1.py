#!/usr/bin/env python
'''C05 / end-of-run note: a cell of a filling universe that carries IMP:N=0.

MCNP multiplies the importance of a universe cell with the importance of the
cell it fills (MCNP manual, IMP card: "an importance assigned to a cell that is
in a universe is interpreted as a multiplier of the importance of the filled
cell"), so the part of the container covered by such a cell kills the
particles, exactly like a level-0 cell with IMP:N=0.

The converter announces in its end-of-run note that the cell "has been omitted
from the conversion because its importance is equal to zero", and nevertheless
writes a TRIPOLI-4 volume for it (comment "(4, 1)") filled with the material of
the cell.  The note and the output contradict each other.

Run from the root of the tree:
    PYTHONPATH=/tmp/t4shim:<tree> /venv/bin/python _found/demo_1.py
'''
import os
import re
import subprocess
import sys
import tempfile

DECK = '''importance zero inside a filling universe
1 0        -1  fill=1  imp:n=1
2 0         1          imp:n=0
3 1 -1.0   -2  u=1     imp:n=1
4 2 -2.0    2  u=1     imp:n=0

1 so 5
2 so 1

m1 1001 1
m2 1001 1
'''


def main():
    tmpdir = tempfile.mkdtemp(prefix='c05_demo1_')
    deck = os.path.join(tmpdir, 'imp0.imcnp')
    out = os.path.join(tmpdir, 'imp0.t4')
    with open(deck, 'w') as fobj:
        fobj.write(DECK)
    cmd = [sys.executable, '-c',
           'from t4_geom_convert.main import main; main()', deck, '-o', out]
    res = subprocess.run(cmd, cwd=os.getcwd(), env=dict(os.environ),
                         capture_output=True, text=True)
    if res.returncode != 0:
        last = (res.stderr.strip().splitlines() or ['?'])[-1]
        print('FAIL: the conversion of a valid deck stopped: ' + last)
        return 1

    # cells announced as omitted in the end-of-run note
    announced = set()
    match = re.search(r'NOTE: the following cells have been omitted.*?'
                      r'\[([^\]]*)\]', res.stdout, re.S)
    if match:
        announced = {int(tok) for tok in match.group(1).replace(',', ' ')
                     .split()}

    # volumes generated from cell 4 of universe 1 (comment "(4, <container>)")
    text = open(out).read()
    geom = text.split('GEOMETRY', 1)[1].split('ENDG', 1)[0]
    from_cell4 = []
    for line in geom.splitlines():
        if not line.startswith('VOLU') or 'FICTIVE' in line:
            continue
        body, _, comment = line.partition('//')
        pairs = re.findall(r'\((\d+), (\d+)\)', comment)
        if pairs and int(pairs[0][0]) == 4:
            from_cell4.append(int(body.split()[1]))
    comp = {}
    if 'GEOMCOMP' in text:
        block = text.split('GEOMCOMP', 1)[1].split('END_GEOMCOMP')[0]
        for line in block.splitlines():
            toks = line.split()
            if len(toks) >= 3:
                for vol in toks[2:]:
                    comp[int(vol)] = toks[0]

    if 4 in announced and from_cell4:
        comps = sorted({comp.get(vol, '?') for vol in from_cell4})
        print('FAIL: the end-of-run note says that cell 4 (u=1, imp:n=0) was '
              'omitted from the conversion because its importance is zero, '
              f'but the output contains volume(s) {from_cell4} generated from '
              f'cell 4 (comment "(4, 1)") with composition {comps}: the region '
              '1 < r < 5, where MCNP kills the particles (importance 1*0 = 0), '
              'is converted as a region full of material, and the note '
              'contradicts the output.')
        return 1
    print('PASS: the note and the output agree about cell 4 '
          f'(announced as omitted: {4 in announced}, volumes: {from_cell4})')
    return 0


if __name__ == '__main__':
    sys.exit(main())
