#!/usr/bin/env python
'''C14 demo 2: the text of a comment changes the conversion when it contains
a character that Python's str.splitlines() takes for a line boundary.

The text of a full-line comment (`c ...`) and of an in-line comment (`$ ...`)
is not data: MCNP reads the input line by line (records end at the newline)
and skips it.  A form feed (Ctrl-L, the page break that old editors, printing
tools and Fortran-era decks put in comment lines) inside a comment is therefore
insignificant; the same holds for the other characters that are not a newline
for MCNP (vertical tab, the C1 control NEL that a `...` typed under Windows
(cp1252 0x85) becomes when the deck is read with `-e latin1`, ...).

The deck below is converted twice: with plain comments, and with a form feed
inside one full-line comment and one in-line comment.  The two conversions
must be identical.

Run as:  PYTHONPATH=/tmp/t4shim:<tree> /venv/bin/python demo_2.py
'''
import contextlib
import io
import os
import sys
import tempfile
import traceback
import warnings

DECK = '''comments with a page break
c cells{ff1}
1 1 -2.7 -1 imp:n=1
2 2 -1.0 1 -2 imp:n=1
c shell{ff3}
3 0 2 imp:n=0

c surfaces
1 so 5 $ inner radius{ff2}
2 so 10

c data
m1 13027.70c 1.0
m2 1001.70c 2 8016.70c 1
'''


def convert(text, workdir, name, options=()):
    '''Convert the deck, return (output text without comment lines, error).'''
    from t4_geom_convert.main import main
    inp = os.path.join(workdir, name + '.imcnp')
    out = os.path.join(workdir, name + '.t4')
    with open(inp, 'w', newline='') as fdeck:
        fdeck.write(text)
    old_argv = sys.argv
    sys.argv = ['t4_geom_convert', inp, '-o', out] + list(options)
    buf = io.StringIO()
    try:
        with contextlib.redirect_stdout(buf), \
                contextlib.redirect_stderr(buf), warnings.catch_warnings():
            warnings.simplefilter('ignore')
            main()
    except SystemExit as err:
        if err.code not in (0, None):
            return None, f'SystemExit({err.code})'
    except Exception as err:  # pylint: disable=broad-except
        last = traceback.extract_tb(err.__traceback__)[-1]
        return None, (f'{type(err).__name__}: {err} '
                      f'[{os.path.basename(last.filename)}:{last.lineno} '
                      f'in {last.name}]')
    finally:
        sys.argv = old_argv
    with open(out) as fout:
        return ''.join(line for line in fout
                       if not line.startswith('//')), None


def main():
    variants = [
        ('a form feed in the full-line comment "c cells"',
         {'ff1': ' \x0c page 2', 'ff2': '', 'ff3': ''}),
        ('a form feed in the in-line comment "$ inner radius"',
         {'ff1': '', 'ff2': ' \x0c', 'ff3': ''}),
        ('a form feed followed by text in the full-line comment "c shell"',
         {'ff1': '', 'ff2': '', 'ff3': ' \x0c     imp:n=0 in revision 2'}),
    ]
    failures = []
    with tempfile.TemporaryDirectory() as workdir:
        ref, ref_err = convert(DECK.format(ff1='', ff2='', ff3=''), workdir, 'plain')
        if ref_err is not None:
            print(f'FAIL: the deck with plain comments does not convert: '
                  f'{ref_err}')
            return 1
        for rank, (what, subst) in enumerate(variants):
            out, err = convert(DECK.format(**subst), workdir, f'ff{rank}')
            if err is not None:
                failures.append(f'{what} stops the conversion with an '
                                f'internal error: {err}')
            elif out != ref:
                lost = [line.split()[1] for line in ref.splitlines()
                        if line.startswith('VOLU ') and line not in out]
                failures.append(f'{what} silently changes the converted '
                                f'output (volumes lost or changed: {lost})')
    if failures:
        print('FAIL: the text of a comment is not ignored: '
              + '; '.join(failures)
              + ' (the same deck without the form feeds converts)')
        return 1
    print('PASS: a form feed inside a comment does not change the conversion')
    return 0


if __name__ == '__main__':
    sys.exit(main())
