#!/usr/bin/env python
'''C14 demo 1: a complement operator written right after the density of a
cell card, without an interleaved blank.

MCNP delimits the entries of a cell card with blanks, but the special
characters of the geometry description, `(`, `)`, `:` and `#`, also end the
preceding entry (the shipped decks spaces.imcnp and hash_no_space.imcnp use
`-1.0( 1)`, `(-1 3)-4` and `#8#9#10`).  So

    2 2 -1.0#1 -2 imp:n=1        and        2 2 -1.0 #1 -2 imp:n=1

are the same card; the two decks must give the same conversion.

Run as:  PYTHONPATH=/tmp/t4shim:<tree> /venv/bin/python demo_1.py
'''
import contextlib
import io
import os
import sys
import tempfile
import traceback
import warnings

DECK = '''complement right after the density
1 1 -2.7 -1 imp:n=1
2 2 -1.0{sep}#1 -2 imp:n=1
3 2 -1.0{sep}#(-2) -3 imp:n=1
4 0 3 imp:n=0

1 so 5
2 so 10
3 so 15

m1 13027.70c 1.0
m2 1001.70c 2 8016.70c 1
'''


def convert(text, workdir, name, options=()):
    '''Convert the deck, return (output text without comment lines, error).'''
    from t4_geom_convert.main import main
    inp = os.path.join(workdir, name + '.imcnp')
    out = os.path.join(workdir, name + '.t4')
    with open(inp, 'w') as fdeck:
        fdeck.write(text)
    old_argv = sys.argv
    sys.argv = ['t4_geom_convert', inp, '-o', out] + list(options)
    buf = io.StringIO()
    try:
        with contextlib.redirect_stdout(buf), \
                contextlib.redirect_stderr(buf), warnings.catch_warnings():
            warnings.simplefilter('ignore')
            main()
    except SystemExit as err:
        if err.code not in (0, None):
            return None, f'SystemExit({err.code})'
    except Exception as err:  # pylint: disable=broad-except
        last = traceback.extract_tb(err.__traceback__)[-1]
        return None, (f'{type(err).__name__}: {err} '
                      f'[{os.path.basename(last.filename)}:{last.lineno} '
                      f'in {last.name}]')
    finally:
        sys.argv = old_argv
    with open(out) as fout:
        return ''.join(line for line in fout
                       if not line.startswith('//')), None


def main():
    with tempfile.TemporaryDirectory() as workdir:
        ref, ref_err = convert(DECK.format(sep=' '), workdir, 'blank')
        if ref_err is not None:
            print('FAIL: the reference spelling (blank before #) does not '
                  f'convert: {ref_err}')
            return 1
        if 'VOLU 2 ' not in ref or 'VOLU 3 ' not in ref:
            print('FAIL: the reference conversion lacks volumes 2 and 3')
            return 1
        glued, glued_err = convert(DECK.format(sep=''), workdir, 'glued')
        # the same comparison without the COMPOSITION block (where the
        # unconverted density string is first used as a number)
        skip = ['--skip-compositions']
        ref_s, ref_s_err = convert(DECK.format(sep=' '), workdir, 'blank_s',
                                   skip)
        glued_s, glued_s_err = convert(DECK.format(sep=''), workdir,
                                       'glued_s', skip)
    failures = []
    if glued_err is not None:
        failures.append('the cards "2 2 -1.0#1 -2" / "3 2 -1.0#(-2) -3" (no '
                        'blank between the density and the complement '
                        'operator) stop the conversion with an internal '
                        f'error: {glued_err}; the same deck with a blank '
                        'before the # converts')
    elif glued != ref:
        failures.append('the deck with "-1.0#1" converts to a different '
                        'output than the deck with "-1.0 #1"')
    if ref_s_err is None and glued_s_err is None and glued_s != ref_s:
        vol2 = [line for line in glued_s.splitlines()
                if line.startswith('VOLU 2 ')]
        vol2_ref = [line for line in ref_s.splitlines()
                    if line.startswith('VOLU 2 ')]
        geomcomp = [line for line in glued_s.splitlines() if '#' in line]
        failures.append('with --skip-compositions the run finishes, but the '
                        'complement is dropped from the cell and kept in the '
                        f'density: {vol2} instead of {vol2_ref}, GEOMCOMP '
                        f'line {geomcomp}')
    elif glued_s_err is not None and ref_s_err is None:
        failures.append('with --skip-compositions the glued spelling stops '
                        f'with {glued_s_err}')
    if failures:
        print('FAIL: ' + '; '.join(failures))
        return 1
    print('PASS: "-1.0#1" and "-1.0 #1" give the same conversion')
    return 0


if __name__ == '__main__':
    sys.exit(main())
