#!/usr/bin/env python
'''C10 demo 1: a complement operator written right after the density of a
non-void cell ('2 2 -2.7#1 -2').

'#' (like a parenthesis) delimits the entries of a cell card, so the card
'2 2 -2.7#1 -2' is the same card as '2 2 -2.7 #1 -2': material 2 at the mass
density 2.7 g/cm3.  The converter takes '-2.7#1' for the density: the
COMPOSITION block cannot be written (ValueError: could not convert string to
float: '-2.7#1'), and with --skip-compositions the cell is attached to the
composition 'm2_-2.7#1' and loses its complement.

Run from the root of the tree:
    PYTHONPATH=/tmp/t4shim:<tree> /venv/bin/python _found/demo_1.py
'''
import os
import re
import subprocess
import sys
import tempfile

DECK = '''complement right after the density
1 1 -1.0 -1 imp:n=1
2 2 -2.7{sep}#1 -2 imp:n=1
3 0 2 imp:n=0

1 so 1
2 so 2

m1 1001.70c 2 8016.70c 1
m2 13027.70c 1
'''


def convert(tmpdir, name, deck, extra=()):
    '''Run the converter of the tree we are executed in; return the completed
    process and the text of the output file ('' if there is none).'''
    inp = os.path.join(tmpdir, name + '.imcnp')
    out = os.path.join(tmpdir, name + '.out')
    with open(inp, 'w') as fil:
        fil.write(deck)
    proc = subprocess.run(
        [sys.executable, '-c',
         'from t4_geom_convert.main import main; main()',
         inp, '-o', out, *extra],
        cwd=os.getcwd(), capture_output=True, text=True)
    text = ''
    if os.path.exists(out):
        with open(out) as fil:
            text = fil.read()
    return proc, text


def compositions(text):
    '''Return {name: (type, header entries, [(nuclide, amount)])}.'''
    block = re.search(r'^COMPOSITION\n(.*?)^END_COMPOSITION', text,
                      re.S | re.M)
    if block is None:
        return None
    result = {}
    current = None
    for line in block.group(1).splitlines():
        words = line.split()
        if not words:
            continue
        if words[0] in ('DENSITY', 'POINT_WISE'):
            current = words[2]
            result[current] = (words[0], words[3:], [])
        elif current is not None and len(words) == 2:
            result[current][2].append((words[0], words[1]))
    return result


def geomcomp(text):
    '''Return {composition name: [volume ids]}.'''
    block = re.search(r'^GEOMCOMP\n(.*?)^END_GEOMCOMP', text, re.S | re.M)
    if block is None:
        return None
    result = {}
    for line in block.group(1).splitlines():
        words = line.split()
        if words:
            result[words[0]] = words[2:]
    return result


def body(text):
    '''The output without the header comments (they echo the file names).'''
    return '\n'.join(line for line in text.splitlines()
                     if not line.startswith('//'))


def main():
    with tempfile.TemporaryDirectory() as tmpdir:
        ref_proc, ref_text = convert(tmpdir, 'blank', DECK.format(sep=' '))
        if ref_proc.returncode != 0:
            print('ERROR: the reference deck (blank before #) does not '
                  'convert:\n' + ref_proc.stderr[-500:])
            return 2
        proc, text = convert(tmpdir, 'noblank', DECK.format(sep=''))
        if proc.returncode != 0:
            last = (proc.stderr.strip().splitlines() or ['?'])[-1]
            print("FAIL: the card '2 2 -2.7#1 -2' (same as '2 2 -2.7 #1 -2', "
                  'which converts) stops the conversion while the '
                  f'COMPOSITION block is written: {last}')
            # show what the rest of the output looks like
            proc2, text2 = convert(tmpdir, 'noblank2', DECK.format(sep=''),
                                   ['--skip-compositions'])
            if proc2.returncode == 0:
                print('      with --skip-compositions GEOMCOMP names '
                      f'{sorted(geomcomp(text2) or {})} and cell 2 is '
                      + repr([line for line in text2.splitlines()
                              if line.startswith('VOLU 2 ')]))
            return 1

        compos = compositions(text)
        geo = geomcomp(text)
        problems = []
        if compos is None or geo is None:
            problems.append('COMPOSITION or GEOMCOMP block missing')
        else:
            mat2 = compos.get('m2_-2.7')
            if mat2 is None:
                problems.append('composition m2_-2.7 is not defined, found '
                                f'{sorted(compos)}')
            else:
                typ, header, nuclides = mat2
                if typ != 'DENSITY' or abs(float(header[0]) - 2.7) > 1e-12:
                    problems.append(f'm2_-2.7 is {typ} {header}')
                if 'NB_ATOM' not in header:
                    problems.append('m2_-2.7 is not flagged NB_ATOM')
                if [(n, float(a)) for n, a in nuclides] != [('AL27', 1.0)]:
                    problems.append(f'nuclides of m2_-2.7: {nuclides}')
            undefined = sorted(set(geo) - set(compos))
            if undefined:
                problems.append('GEOMCOMP names undefined compositions '
                                f'{undefined}')
            if geo.get('m2_-2.7') != ['2']:
                problems.append('cell 2 is not attached to m2_-2.7: '
                                f'{geo}')
        if body(text) != body(ref_text):
            problems.append("the output differs from the output for '2 2 "
                            "-2.7 #1 -2'")
        if problems:
            print("FAIL: card '2 2 -2.7#1 -2': " + '; '.join(problems))
            return 1
        print("PASS: '2 2 -2.7#1 -2' is converted like '2 2 -2.7 #1 -2' "
              '(composition m2_-2.7 = AL27 1, attached to cell 2)')
        return 0


if __name__ == '__main__':
    sys.exit(main())
