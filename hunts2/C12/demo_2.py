#!/usr/bin/env python
'''C12 - the end-of-run note ("the following cells have been omitted from the
conversion because their importance is equal to zero") also lists cells of
filling universes (not level-0 cells) whose importance is zero, although these
cells are NOT omitted: they are converted, inside every level-0 cell that they
fill, like any other cell of the universe.  The note must list exactly the
level-0 cells of zero importance, which are the cells that are left out.

Run from the root of the tree:
    PYTHONPATH=/tmp/t4shim:<tree> /venv/bin/python _found/demo_2.py
'''
import os
import re
import subprocess
import sys
import tempfile

DECK = '''zero importance in a filling universe
c level-0 cells: 1 (imp 0, filled), 2 (imp 1, filled), 3 (imp 1), 4 (imp 0)
1 0 -1 fill=1 imp:n=0
2 0 1 -2 fill=1 imp:n=1
3 0 2 -3 imp:n=1
4 0 3 imp:n=0
c universe 1: the half space x<0 and the half space x>0
10 1 -1.0 -10 u=1 imp:n=1
11 1 -2.0 10 u=1 imp:n=0

1 so 1
2 so 2
3 so 3
10 px 0

m1 1001 1
'''

INCIDENTAL = ('KeyError', 'IndexError', 'TypeError', 'AttributeError',
              'ZeroDivisionError', 'AssertionError', 'RecursionError')


def parse_t4(text):
    surfs, vols = {}, {}
    for line in text.splitlines():
        line = line.split('//')[0]
        tok = line.split()
        if not tok:
            continue
        if tok[0] == 'SURF':
            if tok[2] == 'TRANSFORM':
                raise NotImplementedError('transformed surface')
            surfs[int(tok[1])] = (tok[2], [float(x) for x in tok[3:]])
        elif tok[0] == 'VOLU':
            assert tok[2] == 'EQUA' and tok[-1] == 'ENDV', line
            vol = dict(PLUS=[], MINUS=[], INTE=[], UNION=[], FICTIVE=False)
            body = tok[3:-1]
            i = 0
            while i < len(body):
                if body[i] == 'FICTIVE':
                    vol['FICTIVE'] = True
                    i += 1
                else:
                    n = int(body[i + 1])
                    vol[body[i]] = [int(x) for x in body[i + 2:i + 2 + n]]
                    i += 2 + n
            vols[int(tok[1])] = vol
    return surfs, vols


def side(surf, point):
    typ, par = surf
    x, y, z = point
    if typ == 'PLANEX':
        return x - par[0]
    if typ == 'PLANEY':
        return y - par[0]
    if typ == 'PLANEZ':
        return z - par[0]
    if typ == 'PLANE':
        return par[0] * x + par[1] * y + par[2] * z - par[3]
    if typ == 'SPHERE':
        return ((x - par[0])**2 + (y - par[1])**2 + (z - par[2])**2
                - par[3]**2)
    raise NotImplementedError(typ)


def inside(surfs, vols, key, point):
    vol = vols[key]
    res = (all(side(surfs[s], point) > 0 for s in vol['PLUS'])
           and all(side(surfs[s], point) < 0 for s in vol['MINUS']))
    if vol['INTE']:
        res = res and all(inside(surfs, vols, k, point) for k in vol['INTE'])
    if vol['UNION']:
        res = res or any(inside(surfs, vols, k, point) for k in vol['UNION'])
    return res


def owners(surfs, vols, point):
    return [key for key, vol in vols.items()
            if not vol['FICTIVE'] and inside(surfs, vols, key, point)]


def geomcomp(text):
    '''Return {volume: composition name}.'''
    block = re.search(r'GEOMCOMP\n(.*?)END_GEOMCOMP', text, re.S).group(1)
    res = {}
    for line in block.splitlines():
        tok = line.split()
        for vol in tok[2:]:
            res[int(vol)] = tok[0]
    return res


def main():
    tmp = tempfile.mkdtemp(prefix='c12_demo2_')
    deck = os.path.join(tmp, 'univimp.imcnp')
    out = os.path.join(tmp, 'univimp.t4')
    with open(deck, 'w') as fil:
        fil.write(DECK)
    proc = subprocess.run(
        [sys.executable, '-c',
         'from t4_geom_convert.main import main; main()', deck, '-o', out],
        stdout=subprocess.PIPE, stderr=subprocess.PIPE, text=True)
    if proc.returncode != 0:
        last = proc.stderr.strip().splitlines()[-1] if proc.stderr else ''
        if last.split(':')[0].split('.')[-1] in INCIDENTAL:
            print('FAIL: the conversion stopped with an incidental error: '
                  + last)
            return 1
        print('PASS: the deck is refused with a message: ' + last)
        return 0

    match = re.search(r'equal to zero:\s*\n\s*\[(.*?)\]', proc.stdout)
    note = sorted(int(x) for x in match.group(1).split(',') if x.strip()) \
        if match else []
    with open(out) as fil:
        text = fil.read()
    surfs, vols = parse_t4(text)
    comps = geomcomp(text)

    # what is really in the output?
    p_cell1 = [(-0.5, 0.1, 0.1), (0.5, 0.1, 0.1)]     # level-0 cell 1, imp 0
    p_cell4 = [(5., 0., 0.), (-5., 1., 0.)]           # level-0 cell 4, imp 0
    p_10_in_2 = (-1.5, 0.1, 0.1)   # cell 10 (imp 1) seen through cell 2
    p_11_in_2 = (1.5, 0.1, 0.1)    # cell 11 (imp 0) seen through cell 2
    p_cell3 = (2.5, 0., 0.)

    problems = []
    for point in p_cell1 + p_cell4:
        if owners(surfs, vols, point):
            problems.append(f'point {point} of a level-0 cell of zero '
                            'importance is in the output')
    for point in (p_10_in_2, p_cell3):
        if len(owners(surfs, vols, point)) != 1:
            problems.append(f'point {point} of a level-0 cell of non-zero '
                            'importance is not in exactly one volume')
    own11 = owners(surfs, vols, p_11_in_2)
    converted_11 = bool(own11)

    if 1 not in note or 4 not in note:
        problems.append(f'the note {note} does not list the omitted level-0 '
                        'cells 1 and 4')
    if 11 in note and converted_11:
        comp = comps.get(own11[0])
        problems.append(
            f'the end-of-run note lists {note} as "omitted from the '
            'conversion because their importance is equal to zero", but '
            'cell 11 (u=1, not a level-0 cell) is not omitted: point '
            f'{p_11_in_2} of cell 11 inside level-0 cell 2 (imp:n=1) belongs '
            f'to volume {own11[0]} with composition {comp}; the cells that '
            'are left out are exactly the level-0 cells [1, 4]')
    if 11 not in note and not converted_11:
        problems.append('the part of level-0 cell 2 (imp:n=1) filled by cell '
                        '11 is left out but the note does not say so')
    extra = [cell for cell in note if cell not in (1, 4, 11)]
    if extra:
        problems.append(f'the note lists {extra}, which are not of zero '
                        'importance')

    if problems:
        print('FAIL: ' + '; '.join(problems))
        return 1
    print(f'PASS: the note {note} lists exactly the cells that are left out')
    return 0


if __name__ == '__main__':
    sys.exit(main())
