#!/usr/bin/env python
'''C12 - a level-0 cell of non-zero importance whose geometry is written with
the complement of a lattice cell (#n, n being a LAT=1 cell of another universe)
silently disappears from the converted geometry (and is not listed in the
end-of-run note either).

MCNP replaces "#n" by the complement of the surface expression of cell n,
whatever the universe or the LAT/FILL parameters of cell n; here cell 10 is
the unit element  -1 2 -3 4  of the lattice, so "#10 -99" is the part of the
sphere 99 outside the square prism |x|<1, |y|<1.

Run from the root of the tree:
    PYTHONPATH=/tmp/t4shim:<tree> /venv/bin/python _found/demo_1.py
'''
import os
import re
import subprocess
import sys
import tempfile

DECK = '''complement of a lattice cell used by a level-0 cell
c cell 30 holds the lattice (one element), cell 20 is everything else in
c the sphere 99: outside the prism of the lattice element (#10), or above
c and below the filled box (cell 21)
30 0 -1 2 -3 4 -5 6 fill=1 imp:n=1
10 0 -1 2 -3 4 lat=1 u=1 fill=0:0 0:0 0:0 2 imp:n=1
11 1 -1.0 -7 u=2 imp:n=1
12 0 7 u=2 imp:n=1
20 0 #10 -99 imp:n=1
21 0 (5:-6) -1 2 -3 4 -99 imp:n=1
99 0 99 imp:n=0

1 px 1
2 px -1
3 py 1
4 py -1
5 pz 1
6 pz -1
7 so 0.5
99 so 10

m1 1001 1
'''

INCIDENTAL = ('KeyError', 'IndexError', 'TypeError', 'AttributeError',
              'ZeroDivisionError', 'AssertionError', 'RecursionError')


def parse_t4(text):
    surfs, vols = {}, {}
    for line in text.splitlines():
        line = line.split('//')[0]
        tok = line.split()
        if not tok:
            continue
        if tok[0] == 'SURF':
            i = 2
            if tok[i] == 'TRANSFORM':
                raise NotImplementedError('transformed surface')
            surfs[int(tok[1])] = (tok[i], [float(x) for x in tok[i + 1:]])
        elif tok[0] == 'VOLU':
            assert tok[2] == 'EQUA' and tok[-1] == 'ENDV', line
            vol = dict(PLUS=[], MINUS=[], INTE=[], UNION=[], FICTIVE=False)
            body = tok[3:-1]
            i = 0
            while i < len(body):
                if body[i] == 'FICTIVE':
                    vol['FICTIVE'] = True
                    i += 1
                else:
                    n = int(body[i + 1])
                    vol[body[i]] = [int(x) for x in body[i + 2:i + 2 + n]]
                    i += 2 + n
            vols[int(tok[1])] = vol
    return surfs, vols


def side(surf, point):
    typ, par = surf
    x, y, z = point
    if typ == 'PLANEX':
        return x - par[0]
    if typ == 'PLANEY':
        return y - par[0]
    if typ == 'PLANEZ':
        return z - par[0]
    if typ == 'PLANE':
        return par[0] * x + par[1] * y + par[2] * z - par[3]
    if typ == 'SPHERE':
        return ((x - par[0])**2 + (y - par[1])**2 + (z - par[2])**2
                - par[3]**2)
    raise NotImplementedError(typ)


def inside(surfs, vols, key, point):
    vol = vols[key]
    res = (all(side(surfs[s], point) > 0 for s in vol['PLUS'])
           and all(side(surfs[s], point) < 0 for s in vol['MINUS']))
    if vol['INTE']:
        res = res and all(inside(surfs, vols, k, point) for k in vol['INTE'])
    if vol['UNION']:
        res = res or any(inside(surfs, vols, k, point) for k in vol['UNION'])
    return res


def owners(surfs, vols, point):
    return [key for key, vol in vols.items()
            if not vol['FICTIVE'] and inside(surfs, vols, key, point)]


def main():
    tmp = tempfile.mkdtemp(prefix='c12_demo1_')
    deck = os.path.join(tmp, 'latcompl.imcnp')
    out = os.path.join(tmp, 'latcompl.t4')
    with open(deck, 'w') as fil:
        fil.write(DECK)
    proc = subprocess.run(
        [sys.executable, '-c',
         'from t4_geom_convert.main import main; main()', deck, '-o', out],
        stdout=subprocess.PIPE, stderr=subprocess.PIPE, text=True)
    if proc.returncode != 0:
        last = proc.stderr.strip().splitlines()[-1] if proc.stderr else ''
        if last.split(':')[0].split('.')[-1] in INCIDENTAL:
            print('FAIL: the conversion stopped with an incidental error: '
                  + last)
            return 1
        print('PASS: the deck is refused with a message: ' + last)
        return 0

    match = re.search(r'equal to zero:\s*\n\s*\[(.*?)\]', proc.stdout)
    note = ([int(x) for x in match.group(1).split(',') if x.strip()]
            if match else [])
    with open(out) as fil:
        surfs, vols = parse_t4(fil.read())

    problems = []
    if sorted(note) != [99]:
        problems.append(f'the end-of-run note lists {note}, expected [99]')
    # points of cell 20 (imp:n=1): in the sphere 99, outside the prism
    # |x|<1, |y|<1 of the lattice element
    for point in [(3., 0., 0.), (0., 5., 0.3), (-4., -4., 2.), (1.5, 0.2, 7.)]:
        own = owners(surfs, vols, point)
        if len(own) != 1:
            problems.append(f'point {point} of cell 20 (imp:n=1, level 0) '
                            f'belongs to volumes {own}')
    # control points: the other cells must be there, too
    for point, cell in [((0., 0., 0.), 'the lattice element in cell 30'),
                        ((0.8, 0.8, 0.8), 'the lattice element in cell 30'),
                        ((0., 0., 3.), 'cell 21')]:
        own = owners(surfs, vols, point)
        if len(own) != 1:
            problems.append(f'control point {point} of {cell} belongs to '
                            f'volumes {own}')
    # the zero-importance cell must be left out
    own = owners(surfs, vols, (0., 0., 11.))
    if own:
        problems.append(f'point (0, 0, 11) of cell 99 (imp:n=0) belongs to '
                        f'volumes {own}')

    if problems:
        print('FAIL: cell 20 "20 0 #10 -99 imp:n=1" (level 0, non-zero '
              'importance, written with the complement of lattice cell 10) '
              'is left out of the output although it is neither of zero '
              'importance nor listed in the note: ' + '; '.join(problems))
        return 1
    print('PASS: cell 20 is converted and only cell 99 is left out')
    return 0


if __name__ == '__main__':
    sys.exit(main())
