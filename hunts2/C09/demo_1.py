#!/usr/bin/env python
"""C09 - a cell card whose density is followed, without a blank, by the
complement operator '#'  ('2 2 -2.0#1 -2').

MCNP treats '#' (like '(' , ')' and ':') as a delimiter of the cell card: the
shipped, MCNP-checked deck IntegrationTests/data/hash_no_space.imcnp writes
'#8#9#10', and the converter already accepts '1 0#2' (void cell) and
'2 2 -2.0(1 -2)' (parenthesis right after the density).  With a '#' right after
the density of a non-void cell, the density is read as '-2.0#1': the
conversion stops with a ValueError (or, with --skip-compositions, silently
drops the '#1' from the geometry and attaches the volume to the undefined
composition 'm2_-2.0#1').

Run from the root of the tree:
    PYTHONPATH=/tmp/t4shim:<tree> /venv/bin/python _found/demo_1.py
Exit status 1 + a line starting with FAIL when the defect is present,
exit status 0 + PASS otherwise.
"""
import contextlib
import io
import os
import sys
import tempfile
import traceback

DECK = """density followed by a complement operator without a blank
1 1 -1.0 -1     imp:n=1
2 2 -2.0#1 -2   imp:n=1
3 0 2           imp:n=0

1 so 1
2 so 2

m1 1001 1
m2 8016 1
"""

# the same deck with a blank between the density and '#'
REFERENCE = DECK.replace('-2.0#1', '-2.0 #1')


def convert(deck, workdir, name, extra=()):
    from t4_geom_convert.main import parse_args, conversion
    inp = os.path.join(workdir, name + '.imcnp')
    out = os.path.join(workdir, name + '.t4')
    with open(inp, 'w') as fil:
        fil.write(deck)
    args = parse_args([inp, '-o', out, *extra])
    sink = io.StringIO()
    with contextlib.redirect_stdout(sink), contextlib.redirect_stderr(sink):
        conversion(args)
    return out


def parse_t4(path):
    """Spheres only: returns surfaces, volumes, geomcomp, compositions."""
    surfs, vols, geomcomp, compos = {}, {}, {}, []
    section = None
    for raw in open(path):
        line = raw.split('//')[0].strip()
        tok = line.split()
        if not tok:
            continue
        if tok[0] == 'SURF':
            assert tok[2] == 'SPHERE', line
            surfs[int(tok[1])] = [float(x) for x in tok[3:7]]
        elif tok[0] == 'VOLU':
            body = tok[3:-1]
            plus, minus, ops, fict, j = [], [], None, False, 0
            while j < len(body):
                if body[j] in ('PLUS', 'MINUS', 'UNION', 'INTE'):
                    n = int(body[j + 1])
                    ids = [int(x) for x in body[j + 2:j + 2 + n]]
                    if body[j] == 'PLUS':
                        plus = ids
                    elif body[j] == 'MINUS':
                        minus = ids
                    else:
                        ops = (body[j], ids)
                    j += 2 + n
                else:
                    fict = fict or body[j] == 'FICTIVE'
                    j += 1
            vols[int(tok[1])] = (plus, minus, ops, fict)
        elif tok[0] in ('COMPOSITION', 'GEOMCOMP'):
            section = tok[0]
        elif tok[0] in ('END_COMPOSITION', 'END_GEOMCOMP'):
            section = None
        elif section == 'GEOMCOMP':
            geomcomp[tok[0]] = [int(x) for x in tok[2:]]
        elif section == 'COMPOSITION' and tok[0] in ('DENSITY', 'POINT_WISE'):
            compos.append(tok[2])
    return surfs, vols, geomcomp, compos


def inside(vid, point, surfs, vols):
    plus, minus, ops, _ = vols[vid]

    def val(sid):
        cx, cy, cz, rad = surfs[sid]
        return ((point[0] - cx)**2 + (point[1] - cy)**2 + (point[2] - cz)**2
                - rad**2)
    base = all(val(s) > 0 for s in plus) and all(val(s) < 0 for s in minus)
    if ops is None:
        return base
    if ops[0] == 'INTE':
        return base and all(inside(v, point, surfs, vols) for v in ops[1])
    return base or any(inside(v, point, surfs, vols) for v in ops[1])


def owners(path, point):
    surfs, vols, geomcomp, compos = parse_t4(path)
    result = []
    for vid, vol in vols.items():
        if vol[3] or not inside(vid, point, surfs, vols):
            continue
        names = [name for name, ids in geomcomp.items() if vid in ids]
        result.append((vid, names, [name in compos for name in names]))
    return result


def main():
    problems = []
    with tempfile.TemporaryDirectory() as workdir:
        ref = convert(REFERENCE, workdir, 'reference')
        expected = {pt: owners(ref, pt)
                    for pt in ((0., 0., 0.), (1.5, 0., 0.), (0., -1.7, 0.2))}
        # sanity of the demo itself: the spelling with a blank must work
        assert [o[1] for o in expected[(0., 0., 0.)]] == [['m1_-1.0']], expected
        assert [o[1] for o in expected[(1.5, 0., 0.)]] == [['m2_-2.0']], expected

        for extra in ((), ('--skip-compositions',)):
            label = ' '.join(extra) or 'default options'
            try:
                out = convert(DECK, workdir, 'hash' + str(len(extra)), extra)
            except Exception as err:  # pylint: disable=broad-except
                last = traceback.extract_tb(err.__traceback__)[-1]
                problems.append(f'[{label}] the conversion stops with '
                                f'{type(err).__name__}: {err} '
                                f'({os.path.basename(last.filename)}:'
                                f'{last.lineno})')
                continue
            for point, exp in expected.items():
                got = owners(out, point)
                if [o[1] for o in got] != [o[1] for o in exp]:
                    problems.append(f'[{label}] point {point}: expected '
                                    f'volumes/compositions {exp}, got {got}')
                if not extra and not all(all(o[2]) for o in got):
                    problems.append(f'[{label}] point {point}: composition '
                                    f'not defined in COMPOSITION: {got}')
    if problems:
        print("FAIL: cell card '2 2 -2.0#1 -2' (complement operator right "
              "after the density) is not converted like '2 2 -2.0 #1 -2': "
              + ' | '.join(problems))
        return 1
    print("PASS: '2 2 -2.0#1 -2' is converted like '2 2 -2.0 #1 -2'")
    return 0


if __name__ == '__main__':
    sys.exit(main())
