#!/usr/bin/env python
"""C03 demo 1: a small / thin ARB macrobody is refused as 'collinear points'.

The deck describes a silicon pixel of 0.05 cm x 0.05 cm x 1e-4 cm (1 micron
thick) with an ARB card (eight corners, six four-corner facets).  The corners
of every facet are perfectly coplanar and no three of them are collinear, so
the card is valid MCNP.  The same solid written as RPP or BOX converts without
problems.  For the ARB the converter stops with

    ValueError: Cannot convert plane from three points because the points are
    collinear or almost so

because planeParamsFromPoints() compares the squared length of the
(un-normalised) cross product of two edges with an ABSOLUTE threshold of 1e-10:
every facet whose first two edges have |e1| * |e2| <= 1e-5 cm^2 is refused.

Run from the root of the tree:
    PYTHONPATH=/tmp/t4shim:<tree> /venv/bin/python _found/demo_1.py
Exit status 1 + 'FAIL ...' if the defect is present, 0 + 'PASS' otherwise.
"""
import os
import subprocess
import sys
import tempfile

LX, LY, LZ = 0.05, 0.05, 1.0e-4

DECK = f"""thin pixel described with an ARB macrobody
1 1 -2.33 -1      imp:n=1
2 0        1 -99  imp:n=1
3 0        99     imp:n=0

1 arb 0 0 0        {LX} 0 0        0 {LY} 0        {LX} {LY} 0
      0 0 {LZ}    {LX} 0 {LZ}    0 {LY} {LZ}    {LX} {LY} {LZ}
      1243 5687 1265 3487 1375 2486
99 so 1

m1 14028 1

"""


def run_converter(deck_text):
    tmpdir = tempfile.mkdtemp(prefix='c03_demo1_')
    deck = os.path.join(tmpdir, 'deck.imcnp')
    out = os.path.join(tmpdir, 'deck.t4')
    with open(deck, 'w') as fil:
        fil.write(deck_text)
    proc = subprocess.run(
        [sys.executable, '-c',
         'from t4_geom_convert.main import main; main()', deck, '-o', out],
        capture_output=True, text=True, env=dict(os.environ))
    text = None
    if proc.returncode == 0 and os.path.exists(out):
        with open(out) as fil:
            text = fil.read()
    return proc, text


# --- a very small TRIPOLI-4 geometry evaluator (planes and spheres) ---------
def parse_t4(text):
    surfs, vols = {}, {}
    geom = text.split('GEOMETRY', 1)[1].split('ENDG', 1)[0]
    for line in geom.splitlines():
        line = line.split('//')[0].strip()
        tok = line.split()
        if line.startswith('SURF'):
            surfs[int(tok[1])] = (tok[2], [float(x) for x in tok[3:]])
        elif line.startswith('VOLU'):
            i = 3
            plus, minus, ops, fictive = [], [], None, False
            while i < len(tok):
                if tok[i] in ('PLUS', 'MINUS', 'UNION', 'INTE'):
                    num = int(tok[i + 1])
                    ids = [int(x) for x in tok[i + 2:i + 2 + num]]
                    if tok[i] == 'PLUS':
                        plus = ids
                    elif tok[i] == 'MINUS':
                        minus = ids
                    else:
                        ops = (tok[i], ids)
                    i += 2 + num
                else:
                    fictive = fictive or tok[i] == 'FICTIVE'
                    i += 1
            vols[int(tok[1])] = (plus, minus, ops, fictive)
    return surfs, vols


def surf_val(surfs, sid, pnt):
    typ, par = surfs[sid]
    x, y, z = pnt
    if typ == 'PLANEX':
        return x - par[0]
    if typ == 'PLANEY':
        return y - par[0]
    if typ == 'PLANEZ':
        return z - par[0]
    if typ == 'PLANE':
        return par[0] * x + par[1] * y + par[2] * z + par[3]
    if typ == 'SPHERE':
        return ((x - par[0])**2 + (y - par[1])**2 + (z - par[2])**2
                - par[3]**2)
    raise NotImplementedError(typ)


def in_vol(surfs, vols, vid, pnt):
    plus, minus, ops, _ = vols[vid]
    equa = (all(surf_val(surfs, s, pnt) > 0 for s in plus)
            and all(surf_val(surfs, s, pnt) < 0 for s in minus))
    if ops is None:
        return equa
    if ops[0] == 'UNION':
        return equa or any(in_vol(surfs, vols, v, pnt) for v in ops[1])
    return equa and all(in_vol(surfs, vols, v, pnt) for v in ops[1])


def main():
    proc, text = run_converter(DECK)
    if text is None:
        last = (proc.stderr.strip().splitlines() or ['(no message)'])[-1]
        print('FAIL: the converter stopped on a valid ARB macrobody '
              f'({LX} x {LY} x {LZ} cm, no collinear corners): {last}')
        return 1
    surfs, vols = parse_t4(text)
    probes = {
        'centre of the pixel': ((LX / 2, LY / 2, LZ / 2), True),
        'near a corner, inside': ((LX * 0.01, LY * 0.99, LZ * 0.9), True),
        'just above the pixel': ((LX / 2, LY / 2, LZ * 1.5), False),
        'just below the pixel': ((LX / 2, LY / 2, -LZ * 0.5), False),
        'beside the pixel (x)': ((LX * 1.1, LY / 2, LZ / 2), False),
        'beside the pixel (y)': ((LX / 2, -LY * 0.1, LZ / 2), False),
    }
    for name, (pnt, expected) in probes.items():
        got1 = 1 in vols and in_vol(surfs, vols, 1, pnt)
        got2 = 2 in vols and in_vol(surfs, vols, 2, pnt)
        if got1 != expected or got2 == expected:
            print(f'FAIL: point {pnt} ({name}): expected in cell 1 = '
                  f'{expected}, converted volume 1 says {got1}, volume 2 '
                  f'says {got2}')
            return 1
    print('PASS')
    return 0


if __name__ == '__main__':
    sys.exit(main())
