#!/usr/bin/env python
'''C01 - a cell of a filling universe whose importance is zero is converted
as if its importance were that of the filled cell.

MCNP: "An importance in a cell that is in a universe is interpreted as a
multiplier of the importance of the filled cell".  A point of a universe cell
with IMP:N=0 therefore has importance 0 (particles are killed there) and must
not belong to any non-virtual TRIPOLI-4 volume.

Run from the root of the tree:
    PYTHONPATH=/tmp/t4shim:<tree> /venv/bin/python _found/demo_1.py
'''
import os
import re
import subprocess
import sys
import tempfile

DECK = '''importance zero in a cell of a filling universe
1  0  -1     fill=1  imp:n=1
2  0   1             imp:n=0
10 0  -2  u=1        imp:n=0
11 0   2  u=1        imp:n=1

1 so 5
2 so 2

'''


def parse_t4(path):
    surfs, vols, order = {}, {}, []
    text = open(path).read().split('ENDG')[0]
    for line in text.splitlines():
        tok = line.split('//')[0].split()
        if not tok:
            continue
        if tok[0] == 'SURF':
            surfs[int(tok[1])] = (tok[2], [float(x) for x in tok[3:]])
        elif tok[0] == 'VOLU':
            vid, i = int(tok[1]), 3
            plus, minus, ops, fictive = [], [], [], False
            while i < len(tok) - 1:
                if tok[i] in ('PLUS', 'MINUS', 'INTE', 'UNION'):
                    n = int(tok[i + 1])
                    ids = [int(x) for x in tok[i + 2:i + 2 + n]]
                    if tok[i] == 'PLUS':
                        plus += ids
                    elif tok[i] == 'MINUS':
                        minus += ids
                    else:
                        ops.append((tok[i], ids))
                    i += 2 + n
                elif tok[i] == 'FICTIVE':
                    fictive = True
                    i += 1
                else:
                    raise ValueError(line)
            vols[vid] = (plus, minus, ops, fictive)
            order.append(vid)
    return surfs, vols, order


def side(surf, pnt):
    typ, par = surf
    x, y, z = pnt
    if typ == 'SPHERE':
        return (x - par[0])**2 + (y - par[1])**2 + (z - par[2])**2 - par[3]**2
    if typ == 'PLANEX':
        return x - par[0]
    if typ == 'PLANEY':
        return y - par[0]
    if typ == 'PLANEZ':
        return z - par[0]
    raise ValueError(f'unexpected surface type {typ}')


def inside(vid, pnt, surfs, vols):
    plus, minus, ops, _ = vols[vid]
    res = (all(side(surfs[s], pnt) > 0 for s in plus)
           and all(side(surfs[s], pnt) < 0 for s in minus))
    for oper, ids in ops:
        if oper == 'INTE':
            res = res and all(inside(v, pnt, surfs, vols) for v in ids)
        else:
            res = res or any(inside(v, pnt, surfs, vols) for v in ids)
    return res


def owners(pnt, surfs, vols, order):
    return [v for v in order
            if not vols[v][3] and inside(v, pnt, surfs, vols)]


def main():
    tmp = tempfile.mkdtemp(prefix='c01_demo1_')
    deck = os.path.join(tmp, 'imp0_universe.imcnp')
    out = os.path.join(tmp, 'imp0_universe.t4')
    with open(deck, 'w') as fil:
        fil.write(DECK)
    run = subprocess.run([sys.executable, '-c',
                          'from t4_geom_convert.main import main; main()',
                          deck, '-o', out],
                         capture_output=True, text=True)
    if run.returncode != 0 or not os.path.exists(out):
        last = run.stderr.strip().splitlines()[-1:] or ['?']
        if re.match(r'\S*(NotImplementedError|ParseMCNPCellError|'
                    r'CellConversionError)', last[0]):
            print(f'PASS (the converter refuses the deck: {last[0]})')
            return 0
        print(f'FAIL: the converter stopped on a valid deck: {last[0]}')
        return 1
    surfs, vols, order = parse_t4(out)
    # points of universe cell 10 (IMP:N=0) seen through filled cell 1
    dead = [(0.0, 0.0, 0.5), (1.0, 0.3, -0.7), (-0.9, 1.1, 0.4)]
    # points of universe cell 11 (IMP:N=1) seen through filled cell 1
    alive = [(0.0, 0.0, 3.0), (2.5, -2.0, 1.0)]
    # points of cell 2 (IMP:N=0), level 0
    outside = [(0.0, 6.0, 0.0)]
    problems = []
    for pnt in dead:
        own = owners(pnt, surfs, vols, order)
        if own:
            problems.append(f'point {pnt} lies in universe cell 10 '
                            f'(IMP:N=0, importance 1*0=0) but belongs to '
                            f'non-virtual volume(s) {own}')
    for pnt in alive:
        own = owners(pnt, surfs, vols, order)
        if len(own) != 1:
            problems.append(f'point {pnt} (cell 11 in cell 1, importance 1) '
                            f'belongs to volumes {own} instead of exactly '
                            'one')
    for pnt in outside:
        own = owners(pnt, surfs, vols, order)
        if own:
            problems.append(f'point {pnt} (cell 2, IMP:N=0) belongs to '
                            f'volumes {own}')
    note = 'omitted' in run.stdout and re.search(r'\[[^\]]*\b10\b[^\]]*\]',
                                                 run.stdout)
    if problems:
        print('FAIL: ' + '; '.join(problems)
              + ('; at the same time the end-of-run NOTE claims that cell 10 '
                 'has been omitted because its importance is zero'
                 if note else ''))
        return 1
    print('PASS')
    return 0


if __name__ == '__main__':
    sys.exit(main())
