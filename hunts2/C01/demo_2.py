#!/usr/bin/env python
'''C01 - "#n" where n is a lattice cell is replaced with an empty region,
whatever the cell that uses it.

In MCNP "#n" is a shorthand for the complement of the surface expression of
cell n.  The converter replaces the complement of a LAT cell with a patently
empty region ("s -s"), so a cell of another universe (here the level-0 cell 2,
written as "everything outside the box of cell 50, inside sphere 99")
silently disappears from the output: its points belong to no volume.

Run from the root of the tree:
    PYTHONPATH=/tmp/t4shim:<tree> /venv/bin/python _found/demo_2.py
'''
import os
import re
import subprocess
import sys
import tempfile

DECK = '''complement of a lattice cell used in a cell of another universe
1  0  -11 12 -13 14 -15 16  fill=5                            imp:n=1
2  0  #50 -99                                                  imp:n=1
3  0  99                                                       imp:n=0
50 0  -11 12 -13 14 -15 16  lat=1 u=5 fill=0:0 0:0 0:0 2      imp:n=1
21 0  -20  u=2  imp:n=1
22 0   20  u=2  imp:n=1

11 px 1
12 px -1
13 py 1
14 py -1
15 pz 1
16 pz -1
20 so 0.5
99 so 8

'''


def parse_t4(path):
    surfs, vols, order = {}, {}, []
    text = open(path).read().split('ENDG')[0]
    for line in text.splitlines():
        tok = line.split('//')[0].split()
        if not tok:
            continue
        if tok[0] == 'SURF':
            surfs[int(tok[1])] = (tok[2], [float(x) for x in tok[3:]])
        elif tok[0] == 'VOLU':
            vid, i = int(tok[1]), 3
            plus, minus, ops, fictive = [], [], [], False
            while i < len(tok) - 1:
                if tok[i] in ('PLUS', 'MINUS', 'INTE', 'UNION'):
                    n = int(tok[i + 1])
                    ids = [int(x) for x in tok[i + 2:i + 2 + n]]
                    if tok[i] == 'PLUS':
                        plus += ids
                    elif tok[i] == 'MINUS':
                        minus += ids
                    else:
                        ops.append((tok[i], ids))
                    i += 2 + n
                elif tok[i] == 'FICTIVE':
                    fictive = True
                    i += 1
                else:
                    raise ValueError(line)
            vols[vid] = (plus, minus, ops, fictive)
            order.append(vid)
    return surfs, vols, order


def side(surf, pnt):
    typ, par = surf
    x, y, z = pnt
    if typ == 'SPHERE':
        return (x - par[0])**2 + (y - par[1])**2 + (z - par[2])**2 - par[3]**2
    if typ == 'PLANEX':
        return x - par[0]
    if typ == 'PLANEY':
        return y - par[0]
    if typ == 'PLANEZ':
        return z - par[0]
    raise ValueError(f'unexpected surface type {typ}')


def inside(vid, pnt, surfs, vols):
    plus, minus, ops, _ = vols[vid]
    res = (all(side(surfs[s], pnt) > 0 for s in plus)
           and all(side(surfs[s], pnt) < 0 for s in minus))
    for oper, ids in ops:
        if oper == 'INTE':
            res = res and all(inside(v, pnt, surfs, vols) for v in ids)
        else:
            res = res or any(inside(v, pnt, surfs, vols) for v in ids)
    return res


def owners(pnt, surfs, vols, order):
    return [v for v in order
            if not vols[v][3] and inside(v, pnt, surfs, vols)]


def main():
    tmp = tempfile.mkdtemp(prefix='c01_demo2_')
    deck = os.path.join(tmp, 'compl_lattice.imcnp')
    out = os.path.join(tmp, 'compl_lattice.t4')
    with open(deck, 'w') as fil:
        fil.write(DECK)
    run = subprocess.run([sys.executable, '-c',
                          'from t4_geom_convert.main import main; main()',
                          deck, '-o', out],
                         capture_output=True, text=True)
    if run.returncode != 0 or not os.path.exists(out):
        last = run.stderr.strip().splitlines()[-1:] or ['?']
        if re.match(r'\S*(NotImplementedError|ParseMCNPCellError|'
                    r'CellConversionError)', last[0]):
            print(f'PASS (the converter refuses the deck: {last[0]})')
            return 0
        print(f'FAIL: the converter stopped on a valid deck: {last[0]}')
        return 1
    surfs, vols, order = parse_t4(out)
    problems = []
    # points of cell 2 = #50 -99: outside the box |x|,|y|,|z|<1, inside r=8
    for pnt in [(3.0, 0.0, 0.0), (0.2, -2.5, 0.3), (-1.5, 1.5, 4.0),
                (0.0, 0.0, -1.2)]:
        own = owners(pnt, surfs, vols, order)
        if own != [2]:
            problems.append(f'point {pnt} of cell 2 (IMP:N=1) belongs to '
                            f'volumes {own} instead of [2]')
    # points of cell 1 (the box, filled with element [0,0,0] of the lattice)
    for pnt in [(0.1, 0.2, 0.1), (0.8, -0.7, 0.6)]:
        own = owners(pnt, surfs, vols, order)
        if len(own) != 1 or own == [2]:
            problems.append(f'point {pnt} of filled cell 1 belongs to '
                            f'volumes {own}')
    # point of cell 3 (IMP:N=0)
    own = owners((0.0, 9.0, 0.0), surfs, vols, order)
    if own:
        problems.append(f'point (0, 9, 0) of cell 3 (IMP:N=0) belongs to '
                        f'volumes {own}')
    if problems:
        print('FAIL: ' + '; '.join(problems)
              + ('' if 2 in vols else
                 '; no VOLU 2 was written at all and no error or warning '
                 'was issued'))
        return 1
    print('PASS')
    return 0


if __name__ == '__main__':
    sys.exit(main())
