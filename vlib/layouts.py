"""Meaning-preserving respellings of a rendered deck (C14).

A ``VariedLayout`` is driven by a plain-data spec (booleans + a list of small
integers consumed cyclically), so that a Hypothesis case stays serialisable
and shrinkable.  Every rewrite is applied by the renderer on tokens it knows
the class of; nothing is a regular expression on text.
"""
from . import mrender as mr
from .semcheck import parse_real


def expand_tabs_len(line):
    n = 0
    for ch in line:
        if ch == '\t':
            n += 8 - (n % 8)
        else:
            n += 1
    return n


def respell_python(text, k):
    """Python-compatible respellings that denote exactly the same value."""
    try:
        val = float(text)
    except ValueError:
        return text
    body = text.lstrip('+-')
    sign = '-' if text.startswith('-') else ''
    cands = [text]
    if 'e' not in body.lower():
        if '.' in body:
            cands += [sign + body + '0', sign + body + '00']
        else:
            cands += [sign + body + '.', sign + body + '.0']
        cands += [sign + body + 'e0', sign + body + 'E+00', sign + body + 'e+0']
        if body.startswith('0.') and len(body) > 2:
            cands.append(sign + body[1:])
    if not sign:
        cands.append('+' + body)
    if val == 0:
        # zero with a sign, with and without digits after the point
        cands += ['-0', '-0.0', '+0', '-.0', '0.0', '-0.', '0e0']
    pick = cands[k % len(cands)]
    try:
        if float(pick) == val:
            return pick
    except ValueError:
        pass
    return text


def respell_fortran(text, k):
    """Fortran-only respellings (exponent without letter, d/D exponents)."""
    try:
        val = float(text)
    except ValueError:
        return text
    body = text.lstrip('+-')
    sign = '-' if text.startswith('-') else ''
    if 'e' in body.lower():
        mant, _, exp = body.lower().partition('e')
        exp = exp.lstrip('+')
        cands = [sign + mant + 'd' + exp, sign + mant + 'D' + exp]
        if '.' in mant:
            cands.append(sign + mant + (exp if exp.startswith('-')
                                        else '+' + exp))
    else:
        cands = []
        if '.' not in body:
            # integer mantissa with a bare signed exponent (5+0, 5-0)
            cands += [sign + body + '+0', sign + body + '-0', sign + body + 'd0']
            body = body + '.'
        cands += [sign + body + '+0', sign + body + 'd0', sign + body + 'D+0',
                  sign + body + '-0']
    pick = cands[k % len(cands)]
    try:
        if parse_real(pick) == val:
            return pick
    except ValueError:
        pass
    return text


class VariedLayout(mr.Layout):
    def __init__(self, spec):
        self.spec = spec
        self.bits = list(spec.get('bits') or [0])
        self.pos = 0
        self.applied = set()

    def _next(self):
        v = self.bits[self.pos % len(self.bits)]
        self.pos += 1
        return v

    # -- tokens ------------------------------------------------------------
    def part_text(self, text, cls, card_kind, pos):
        sp = self.spec
        if cls == 'kw' and sp.get('case'):
            k = self._next() % 3
            if k == 0:
                new = text.upper()
            elif k == 1:
                new = text.lower()
            else:
                new = text.capitalize()
            if new != text:
                self.applied.add('case')
            return new
        if cls == 'raw' and text == '=' and sp.get('eqblanks'):
            # blanks around the equals sign of keyword=value
            k = self._next() % 4
            new = ['=', ' = ', '= ', ' ='][k]
            if new != text:
                self.applied.add('blanks-around-equals')
            return new
        if cls == 'int' and sp.get('intzeros') and text.lstrip('+-').isdigit():
            # integers with leading zeros (01, -007)
            k = self._next() % 4
            if k == 0:
                sign = text[0] if text[0] in '+-' else ''
                new = sign + '0' * (1 + self._next() % 2) + text.lstrip('+-')
                self.applied.add('int-leading-zeros')
                return new
            return text
        if cls == 'num':
            fam = sp.get('num')
            scope = sp.get('num_scope') or 'all'
            if fam and (scope == 'all' or scope == card_kind):
                k = self._next()
                if k % 2 == 0:
                    new = respell_python(text, k // 2) if fam == 'python' \
                        else respell_fortran(text, k // 2)
                    if new != text:
                        self.applied.add('num:' + fam)
                    return new
        return text

    def blank(self, card_kind, pos):
        if not self.spec.get('blanks'):
            return ' '
        k = self._next() % 7
        b = [' ', '  ', '    ', '\t', ' \t', '\t ', ' '][k]
        if b != ' ':
            self.applied.add('blanks')
            if '\t' in b:
                self.applied.add('tabs')
        return b

    def wrap(self, pieces, card_kind):
        sp = self.spec
        lines = []
        lead = ''
        if sp.get('indent'):
            lead = ' ' * (self._next() % 5)
            if lead:
                self.applied.add('indent')
        cur = lead + pieces[0]
        pending_amp = False
        for q, piece in enumerate(pieces[1:], 1):
            sep = self.blank(card_kind, q)
            too_long = expand_tabs_len(cur + sep + piece) > mr.MAXCOL - 14
            want_break = sp.get('breaks') and self._next() % 4 == 0
            if too_long or want_break:
                if want_break and not too_long:
                    self.applied.add('breaks')
                use_amp = sp.get('amp') and self._next() % 2 == 0
                if use_amp:
                    cur = cur + ' &'
                    self.applied.add('ampersand')
                cur = self._dollar(cur)
                lines.append(cur)
                lines.extend(self._inner_comment())
                if use_amp:
                    cur = ' ' * (self._next() % 5) + piece
                else:
                    k = self._next() % 4
                    start = ['     ', '       ', '\t', '          '][k] \
                        if sp.get('blanks') else '     '
                    cur = start + piece
            else:
                cur = cur + sep + piece
        cur = self._dollar(cur)
        lines.append(cur)
        return lines

    def _dollar(self, line):
        if self.spec.get('dollar') and self._next() % 3 == 0:
            self.applied.add('dollar-comment')
            # (a $ ends the data wherever it stands: no blank is needed
            # between the last entry and the comment)
            return line + ['  $ a comment', ' $comment with = and ( )',
                           '$', ' $ 1 2 3 imp:n=0', '$glued to the last entry',
                           '$ u=3 imp:n=0 fill=9'][self._next() % 6]
        return line

    def _inner_comment(self):
        if self.spec.get('ccomments') and self._next() % 3 == 0:
            self.applied.add('c-comment-inside-card')
            return [['c comment inside a card', 'C', '  c  1 2 3',
                     'c fill=9 imp:n=0', 'c\tafter a tab', ' C\t1 2 3',
                     'c\t'][self._next() % 7]]
        return []

    def between_cards(self, block, index):
        if self.spec.get('ccomments') and self._next() % 3 == 0:
            self.applied.add('c-comment-between-cards')
            k = self._next() % 6
            return [['c a comment line'], ['C'], ['   c  another', 'c'],
                    ['c 99 0 -1 imp:n=1'], ['c\ttab after the c'],
                    ['  C\t7 0 -1 imp:n=1', 'c\t']][k]
        return []

    def message(self, deck):
        if self.spec.get('message'):
            self.applied.add('message-block')
            if self.spec.get('case'):
                # the keyword of the message block in any letter case
                self.message_kw = ['message:', 'MESSAGE:', 'Message:',
                                   'mEsSaGe:'][self._next() % 4]
                if self.message_kw != 'message:':
                    self.applied.add('message-keyword-case')
            return 'outp=job.o runtpe=job.r'
        return deck.get('message')


def compress_runs(tokens, k=0, upper=False):
    """``2 2 2`` -> ``2 2r`` (data-card repeat shorthand)."""
    out = []
    i = 0
    changed = False
    while i < len(tokens):
        j = i
        while j + 1 < len(tokens) and tokens[j + 1] == tokens[i]:
            j += 1
        run = j - i
        out.append(tokens[i])
        if run >= 1 and (run + k + i) % 3 != 0:
            r = 'R' if upper else 'r'
            out.append(('%d' % run if run > 1 or (k + i) % 2 else '') + r)
            changed = True
        else:
            out.extend(tokens[i + 1:j + 1])
        i = j + 1
    return out, changed


def expand_shorthand(tokens):
    """Reference expansion of nR / nM / nI (used to validate compress_data)."""
    import re
    out = []
    i = 0
    toks = [str(t).lower() for t in tokens]
    while i < len(toks):
        t = toks[i]
        if re.match(r'^\d*r$', t):
            out.extend([out[-1]] * (int(t[:-1]) if len(t) > 1 else 1))
        elif re.match(r'^[\d.]+m$', t):
            out.append(out[-1] * float(t[:-1]))
        elif re.match(r'^\d*i$', t):
            n = int(t[:-1]) if len(t) > 1 else 1
            hi = float(toks[i + 1])
            lo = out[-1]
            out.extend(lo + (hi - lo) * k / (n + 1) for k in range(1, n + 1))
            out.append(hi)
            i += 1
        else:
            out.append(float(t))
        i += 1
    return out


def compress_data(values, bits, fmt=None, upper=False):
    """Deterministic respelling of a list of numbers with nR / nI / nM
    shorthand; returns (tokens, kinds used).  The result is validated by
    expanding it again; on any mismatch the plain spelling is returned."""
    fmt = fmt or mr.fnum
    vals = [float(v) for v in values]
    toks = [fmt(values[0])]
    used = set()
    i = 1
    k = 0
    n = len(vals)

    def bit():
        nonlocal k
        k += 1
        return bits[k % len(bits)]
    up = (lambda t: t.upper()) if upper else (lambda t: t)
    while i < n:
        prev = vals[i - 1]
        # arithmetic progression prev, v_i, ..., v_{i+m}
        step = vals[i] - prev
        m = 0
        while step != 0 and i + m + 1 < n and \
                abs((vals[i + m + 1] - vals[i + m]) - step) < 1e-12:
            m += 1
        if m >= 1 and bit() % 3 != 0:
            toks.append(up('%di' % m if m > 1 or bit() % 2 else 'i'))
            toks.append(fmt(values[i + m]))
            used.add('nI')
            i += m + 1
            continue
        if vals[i] == prev and bit() % 3 != 0:
            j = i
            while j + 1 < n and vals[j + 1] == prev:
                j += 1
            cnt = j - i + 1
            toks.append(up('%dr' % cnt if cnt > 1 or bit() % 2 else 'r'))
            used.add('nR')
            i = j + 1
            continue
        if prev != 0 and vals[i] != 0 and (vals[i] / prev).is_integer() \
                and vals[i] / prev > 1 and bit() % 3 != 0:
            toks.append(up('%dm' % int(vals[i] / prev)))
            used.add('nM')
            i += 1
            continue
        toks.append(fmt(values[i]))
        i += 1
    try:
        back = expand_shorthand(toks)
        ok_ = len(back) == n and all(abs(a - b) < 1e-12
                                      for a, b in zip(back, vals))
    except Exception:
        ok_ = False
    if not ok_:
        return [fmt(v) for v in values], set()
    return toks, used
