# Injected through PYTHONPATH for subprocess runs of the converter (C18).
import os
import sys
_here = os.path.dirname(os.path.abspath(__file__))
_vlib_parent = os.path.dirname(os.path.dirname(_here))
if _vlib_parent not in sys.path:
    sys.path.append(_vlib_parent)
try:
    from vlib import tatsu_shim
    tatsu_shim.apply()
except Exception as exc:  # pragma: no cover
    sys.stderr.write('tatsu shim failed: %r\n' % (exc,))
