"""MCNP-side reference semantics of surfaces and macrobodies (DESIGN 4.2).

Written from the MCNP manual's definitions; shares no code with the
repository.  Every function is vectorised over an (N, 3) array of points and
returns ``(neg, dec)``: ``neg[i]`` is True when point i has *negative sense*
with respect to the surface (is inside the body), ``dec[i]`` is False when the
point is too close to the surface for a float64 sign to be trusted.
"""
import math

import numpy as np

REL_TOL = 1e-6

AXIS = {'x': 0, 'y': 1, 'z': 2}


class ModelError(Exception):
    """The generator produced something the model cannot evaluate."""


# --------------------------------------------------------------------------
# rigid motions:  main = o + B^T aux,  aux = B (main - o)
# rows of B are the auxiliary axes expressed in the main frame (B1..B9)
# --------------------------------------------------------------------------

class Rigid:
    __slots__ = ('o', 'B')

    def __init__(self, o=(0., 0., 0.), B=None):
        self.o = np.array(o, dtype=float)
        self.B = np.eye(3) if B is None else \
            np.array(B, dtype=float).reshape(3, 3)

    def to_aux(self, P):
        return (np.asarray(P, dtype=float) - self.o) @ self.B.T

    def to_main(self, A):
        return self.o + np.asarray(A, dtype=float) @ self.B

    def is_identity(self):
        return not self.o.any() and np.array_equal(self.B, np.eye(3))

    def compose_after(self, inner):
        """Return the motion  main <- self <- inner <- aux  (inner applied
        first)."""
        # main = o1 + B1^T (o2 + B2^T a) = (o1 + B1^T o2) + (B2 B1)^T a
        return Rigid(self.o + inner.o @ self.B, inner.B @ self.B)


IDENTITY = Rigid()


def _lin(P, n, d):
    """g = n.p - d with conditioning scale."""
    n = np.asarray(n, dtype=float)
    g = P @ n - d
    s = np.abs(P) @ np.abs(n) + abs(d)
    return g, s


def _dec(g, s):
    return np.abs(g) > REL_TOL * s


def plane3_params(pts):
    """Plane through three points with the manual's orientation rule: the
    origin has negative sense; if D = 0 then (0,0,+inf) is positive; then
    (0,+inf,0); then (+inf,0,0)."""
    p1, p2, p3 = (np.array(pts[0:3], dtype=float),
                  np.array(pts[3:6], dtype=float),
                  np.array(pts[6:9], dtype=float))
    n = np.cross(p2 - p1, p3 - p1)
    nn = np.linalg.norm(n)
    if nn == 0:
        raise ModelError('collinear points in 3-point plane')
    n = n / nn
    d = float(n @ p1)
    scale = max(np.abs(p1).max(), np.abs(p2).max(), np.abs(p3).max(), 1.0)
    eps = 1e-9 * scale
    key = [d, n[2], n[1], n[0]]
    for k in key:
        if abs(k) > eps:
            if k < 0:
                n, d = -n, -d
            break
    return n, d


def surface_fs(kind, params, P):
    """Core: returns (g, s, cone) where g is the MCNP surface function, s its
    conditioning scale and cone = (apex, u, t2, sheet) for cones (else None)."""
    P = np.asarray(P, dtype=float)
    k = kind.lower()
    p = list(params)
    x, y, z = P[:, 0], P[:, 1], P[:, 2]
    p2 = x * x + y * y + z * z

    if k == 'p':
        if len(p) == 4:
            g, s = _lin(P, p[:3], p[3])
        elif len(p) == 9:
            n, d = plane3_params(p)
            g, s = _lin(P, n, d)
        else:
            raise ModelError('P with %d entries' % len(p))
        return g, s, None
    if k in ('px', 'py', 'pz'):
        ax = AXIS[k[1]]
        g = P[:, ax] - p[0]
        return g, np.abs(P[:, ax]) + abs(p[0]), None
    if k in ('so', 's', 'sx', 'sy', 'sz'):
        if k == 'so':
            c, r = (0., 0., 0.), p[0]
        elif k == 's':
            c, r = p[:3], p[3]
        else:
            c = [0., 0., 0.]
            c[AXIS[k[1]]] = p[0]
            r = p[1]
        c = np.array(c, dtype=float)
        g = np.sum((P - c) ** 2, axis=1) - r * r
        return g, p2 + c @ c + r * r, None
    if k in ('c/x', 'c/y', 'c/z', 'cx', 'cy', 'cz'):
        ax = AXIS[k[-1]]
        i, j = [q for q in range(3) if q != ax]
        if '/' in k:
            a0, b0, r = p
        else:
            a0, b0, r = 0., 0., p[0]
        g = (P[:, i] - a0) ** 2 + (P[:, j] - b0) ** 2 - r * r
        s = P[:, i] ** 2 + P[:, j] ** 2 + a0 * a0 + b0 * b0 + r * r
        return g, s, None
    if k in ('k/x', 'k/y', 'k/z', 'kx', 'ky', 'kz'):
        ax = AXIS[k[-1]]
        if '/' in k:
            apex = np.array(p[:3], dtype=float)
            t2 = p[3]
            sheet = p[4] if len(p) == 5 else 0
        else:
            apex = np.zeros(3)
            apex[ax] = p[0]
            t2 = p[1]
            sheet = p[2] if len(p) == 3 else 0
        u = np.zeros(3)
        u[ax] = 1.0
        return _cone_fs(P, apex, u, t2, sheet)
    if k == 'sq':
        A, B, C, D, E, F, G, xb, yb, zb = p
        dx, dy, dz = x - xb, y - yb, z - zb
        terms = [A * dx * dx, B * dy * dy, C * dz * dz,
                 2 * D * dx, 2 * E * dy, 2 * F * dz]
        g = sum(terms) + G
        s = (abs(A) * (x * x + xb * xb) + abs(B) * (y * y + yb * yb)
             + abs(C) * (z * z + zb * zb)
             + 2 * abs(D) * (np.abs(x) + abs(xb))
             + 2 * abs(E) * (np.abs(y) + abs(yb))
             + 2 * abs(F) * (np.abs(z) + abs(zb)) + abs(G))
        return g, s, None
    if k == 'gq':
        A, B, C, D, E, F, G, H, J, K = p
        terms = [A * x * x, B * y * y, C * z * z, D * x * y, E * y * z,
                 F * z * x, G * x, H * y, J * z]
        g = sum(terms) + K
        s = sum(np.abs(t) for t in terms) + abs(K)
        return g, s, None
    if k in ('tx', 'ty', 'tz'):
        ax = AXIS[k[1]]
        i, j = [q for q in range(3) if q != ax]
        c = np.array(p[:3], dtype=float)
        A, B, C = p[3:6]
        axial = P[:, ax] - c[ax]
        radial = np.sqrt((P[:, i] - c[i]) ** 2 + (P[:, j] - c[j]) ** 2)
        g = axial ** 2 / B ** 2 + (radial - A) ** 2 / C ** 2 - 1.0
        c2 = c @ c
        s = (p2 + c2) / B ** 2 + (p2 + c2 + A * A) / C ** 2 + 1.0
        return g, s, None
    if k in ('x', 'y', 'z'):
        ax = AXIS[k]
        if len(p) == 2:
            g = P[:, ax] - p[0]
            return g, np.abs(P[:, ax]) + abs(p[0]), None
        if len(p) != 4:
            raise ModelError('%s with %d entries' % (k, len(p)))
        c1, r1, c2_, r2 = p
        i, j = [q for q in range(3) if q != ax]
        if c1 == c2_:
            g = P[:, ax] - c1
            return g, np.abs(P[:, ax]) + abs(c1), None
        if r1 == r2:
            g = P[:, i] ** 2 + P[:, j] ** 2 - r1 * r1
            return g, P[:, i] ** 2 + P[:, j] ** 2 + r1 * r1, None
        t = (r1 - r2) / (c1 - c2_)
        c0 = c1 - r1 / t
        apex = np.zeros(3)
        apex[ax] = c0
        u = np.zeros(3)
        u[ax] = 1.0
        sheet = 1 if t > 0 else -1
        return _cone_fs(P, apex, u, t * t, sheet)
    raise ModelError('unknown surface kind %r' % kind)


def _cone_fs(P, apex, u, t2, sheet):
    D = P - apex
    axial = D @ u
    rad2 = np.sum(D * D, axis=1) - axial * axial
    g = rad2 - t2 * axial * axial
    s = (1.0 + t2) * (np.sum(P * P, axis=1) + apex @ apex)
    return g, s, (apex, u, t2, sheet)


def surface_neg(kind, params, P):
    """Negative-sense mask and decidedness of an elementary MCNP surface."""
    P = np.asarray(P, dtype=float)
    g, s, cone = surface_fs(kind, params, P)
    if cone is not None and cone[3]:
        return cone_neg(P, *cone)
    return g < 0, _dec(g, s)


def cone_neg(P, apex, u, t2, sheet):
    """Cone about unit axis ``u`` through ``apex``; ``sheet`` = +1/-1 keeps
    only the sheet on that side of the apex along u (negative sense = inside
    that sheet, positive = everywhere else); 0 = both sheets."""
    D = P - apex
    axial = D @ u
    rad2 = np.sum(D * D, axis=1) - axial * axial
    g = rad2 - t2 * axial * axial
    s = (1.0 + t2) * (np.sum(P * P, axis=1) + apex @ apex)
    dec = _dec(g, s)
    neg = g < 0
    if sheet:
        side = axial * (1.0 if sheet > 0 else -1.0) > 0
        # the apex plane only matters where the cone function is negative
        side_dec = np.abs(axial) > REL_TOL * (np.abs(P) @ np.abs(u)
                                               + abs(apex @ u) + 1e-300)
        dec = dec & (side_dec | ~neg)
        neg = neg & side
    return neg, dec


# --------------------------------------------------------------------------
# macrobodies
# --------------------------------------------------------------------------

def _v(p, i):
    return np.array(p[i:i + 3], dtype=float)


def _rot_about(vec, axis, angle):
    axis = axis / np.linalg.norm(axis)
    c, s = math.cos(angle), math.sin(angle)
    return (vec * c + np.cross(axis, vec) * s
            + axis * (axis @ vec) * (1 - c))


def _plane_facet(P, n, pt):
    """Facet plane with outward normal n through pt."""
    n = np.asarray(n, dtype=float)
    d = float(n @ pt)
    g, s = _lin(P, n, d)
    return g < 0, _dec(g, s)


def facet_planes(kind, params):
    """(n, d) with outward normal n (n.x = d on the facet) for each planar
    facet of BOX / RPP / RHP / HEX, in MCNP facet order."""
    k = kind.lower()
    p = list(params)
    out = []
    if k == 'box':
        v = _v(p, 0)
        for q in (3, 6, 9):
            a = _v(p, q)
            out.append((a, float(a @ (v + a))))
            out.append((-a, float(-a @ v)))
        return out
    if k == 'rpp':
        for ax in range(3):
            n = np.zeros(3)
            n[ax] = 1.0
            out.append((n, float(p[2 * ax + 1])))
            out.append((-n, float(-p[2 * ax])))
        return out
    if k in ('rhp', 'hex'):
        v, h, r1 = _v(p, 0), _v(p, 3), _v(p, 6)
        if len(p) == 15:
            r2, r3 = _v(p, 9), _v(p, 12)
        elif len(p) == 9:
            r2 = _rot_about(r1, h, math.pi / 3.)
            r3 = _rot_about(r1, h, 2. * math.pi / 3.)
        else:
            raise ModelError('RHP needs 9 or 15 entries')
        for r in (r1, r2, r3):
            out.append((r, float(r @ (v + r))))
            out.append((-r, float(-r @ (v - r))))
        out.append((h, float(h @ (v + h))))
        out.append((-h, float(-h @ v)))
        return out
    raise ModelError('no planar facet table for %s' % kind)


def body_facets(kind, params, P):
    """List of (neg, dec) per facet in MCNP facet order, negative = the side
    of the facet surface on which the body lies (outward side positive)."""
    P = np.asarray(P, dtype=float)
    k = kind.lower()
    p = list(params)
    out = []
    if k == 'box':
        if len(p) != 12:
            raise ModelError('BOX needs 12 entries')
        v = _v(p, 0)
        for q in (3, 6, 9):
            a = _v(p, q)
            out.append(_plane_facet(P, a, v + a))
            out.append(_plane_facet(P, -a, v))
        return out
    if k == 'rpp':
        xmin, xmax, ymin, ymax, zmin, zmax = p
        for ax, lo, hi in ((0, xmin, xmax), (1, ymin, ymax), (2, zmin, zmax)):
            n = np.zeros(3)
            n[ax] = 1.0
            out.append(_plane_facet(P, n, n * hi))
            out.append(_plane_facet(P, -n, n * lo))
        return out
    if k == 'sph':
        c, r = _v(p, 0), p[3]
        g = np.sum((P - c) ** 2, axis=1) - r * r
        s = np.sum(P * P, axis=1) + c @ c + r * r
        return [(g < 0, _dec(g, s))]
    if k == 'rcc':
        v, h, r = _v(p, 0), _v(p, 3), p[6]
        u = h / np.linalg.norm(h)
        D = P - v
        ax = D @ u
        g = np.sum(D * D, axis=1) - ax * ax - r * r
        s = np.sum(P * P, axis=1) + v @ v + r * r
        out.append((g < 0, _dec(g, s)))
        out.append(_plane_facet(P, h, v + h))
        out.append(_plane_facet(P, -h, v))
        return out
    if k in ('rhp', 'hex'):
        v, h, r1 = _v(p, 0), _v(p, 3), _v(p, 6)
        if len(p) == 15:
            r2, r3 = _v(p, 9), _v(p, 12)
        elif len(p) == 9:
            r2 = _rot_about(r1, h, math.pi / 3.)
            r3 = _rot_about(r1, h, 2. * math.pi / 3.)
        else:
            raise ModelError('RHP needs 9 or 15 entries')
        for r in (r1, r2, r3):
            out.append(_plane_facet(P, r, v + r))
            out.append(_plane_facet(P, -r, v - r))
        out.append(_plane_facet(P, h, v + h))
        out.append(_plane_facet(P, -h, v))
        return out
    if k == 'rec':
        v, h, a = _v(p, 0), _v(p, 3), _v(p, 6)
        if len(p) == 12:
            b = _v(p, 9)
        elif len(p) == 10:
            b = np.cross(h, a)
            b = b / np.linalg.norm(b) * p[9]
        else:
            raise ModelError('REC needs 10 or 12 entries')
        D = P - v
        ca = (D @ a) / (a @ a)
        cb = (D @ b) / (b @ b)
        g = ca * ca + cb * cb - 1.0
        pv = np.sum(P * P, axis=1) + v @ v
        s = pv / (a @ a) + pv / (b @ b) + 1.0
        out.append((g < 0, _dec(g, s)))
        out.append(_plane_facet(P, h, v + h))
        out.append(_plane_facet(P, -h, v))
        return out
    if k == 'trc':
        v, h, r1, r2 = _v(p, 0), _v(p, 3), p[6], p[7]
        hl = np.linalg.norm(h)
        u = h / hl
        D = P - v
        ax = D @ u
        rad2 = np.sum(D * D, axis=1) - ax * ax
        # lateral surface: radius r1 + (r2 - r1) * ax / hl ; two readings of
        # the bare facet (one- or two-sheet cone) agree on the body's side
        # of the apex, the caller restricts facet-1 verdicts accordingly
        rr = r1 + (r2 - r1) * ax / hl
        g = rad2 - rr * rr
        s = (np.sum(P * P, axis=1) + v @ v) * (1 + ((r2 - r1) / hl) ** 2) \
            + r1 * r1
        out.append((g < 0, _dec(g, s)))
        out.append(_plane_facet(P, h, v + h))
        out.append(_plane_facet(P, -h, v))
        return out
    if k == 'ell':
        last = p[6]
        if last > 0:
            f1, f2 = _v(p, 0), _v(p, 3)
            c = 0.5 * (f1 + f2)
            half = np.linalg.norm(f1 - c)
            axis = (f1 - c) / half
            a2 = last * last
            # formula the repository documents as MCNP's observed behaviour
            # (DESIGN 4.3 item 2): stated assumption of this model
            b2 = last ** 2 - (last - half) ** 2
        else:
            c = _v(p, 0)
            va = _v(p, 3)
            a2 = va @ va
            axis = va / math.sqrt(a2)
            b2 = last * last
        D = P - c
        ax = D @ axis
        rad2 = np.sum(D * D, axis=1) - ax * ax
        g = ax * ax / a2 + rad2 / b2 - 1.0
        pv = np.sum(P * P, axis=1) + c @ c
        s = pv / a2 + pv / b2 + 1.0
        return [(g < 0, _dec(g, s))]
    if k == 'wed':
        v, a, b, h = _v(p, 0), _v(p, 3), _v(p, 6), _v(p, 9)
        # slant facet: contains v+a, v+b and direction h; outward = away
        # from the vertex v
        n = np.cross(b - a, h)
        if n @ (v - (v + a)) > 0:
            n = -n
        out.append(_plane_facet(P, n, v + a))
        # facet 2 contains b and h (outward -a side); facet 3 contains a, h
        na = np.cross(b, h)
        if na @ a > 0:
            na = -na
        out.append(_plane_facet(P, na, v))
        nb = np.cross(a, h)
        if nb @ b > 0:
            nb = -nb
        out.append(_plane_facet(P, nb, v))
        nh = np.cross(a, b)
        if nh @ h < 0:
            nh = -nh
        out.append(_plane_facet(P, nh, v + h))
        out.append(_plane_facet(P, -nh, v))
        return out
    if k == 'arb':
        if len(p) != 30:
            raise ModelError('ARB needs 30 entries')
        verts = [np.array(p[3 * i:3 * i + 3], dtype=float) for i in range(8)]
        facets = []
        for q in p[24:30]:
            digs = [int(ch) for ch in str(int(round(abs(q)))) if ch != '0']
            if digs:
                facets.append(digs)
        used = sorted(set(d for f in facets for d in f))
        cen = sum(verts[d - 1] for d in used) / len(used)
        for f in facets:
            a, b, c = (verts[d - 1] for d in f[:3])
            n = np.cross(b - a, c - a)
            if n @ (cen - a) > 0:
                n = -n
            out.append(_plane_facet(P, n, a))
        return out
    raise ModelError('unknown macrobody kind %r' % kind)


def body_inside(kind, params, P):
    """Interior of a macrobody from its parametric definition."""
    P = np.asarray(P, dtype=float)
    k = kind.lower()
    p = list(params)
    facets = body_facets(kind, params, P)
    dec = np.ones(len(P), dtype=bool)
    for _n, d in facets:
        dec &= d
    if k == 'box':
        v = _v(p, 0)
        ins = np.ones(len(P), dtype=bool)
        A = np.array([_v(p, 3), _v(p, 6), _v(p, 9)]).T
        coef = np.linalg.solve(A, (P - v).T).T
        ins = np.all((coef > 0) & (coef < 1), axis=1)
        return ins, dec
    if k == 'rpp':
        lo = np.array([p[0], p[2], p[4]])
        hi = np.array([p[1], p[3], p[5]])
        return np.all((P > lo) & (P < hi), axis=1), dec
    if k in ('sph', 'ell'):
        return facets[0][0], dec
    if k in ('rcc', 'rec', 'trc'):
        v, h = _v(p, 0), _v(p, 3)
        t = ((P - v) @ h) / (h @ h)
        return facets[0][0] & (t > 0) & (t < 1), dec
    if k in ('rhp', 'hex'):
        v, h = _v(p, 0), _v(p, 3)
        t = ((P - v) @ h) / (h @ h)
        ins = (t > 0) & (t < 1)
        r1 = _v(p, 6)
        if len(p) == 15:
            rs = [r1, _v(p, 9), _v(p, 12)]
        else:
            rs = [r1, _rot_about(r1, h, math.pi / 3.),
                  _rot_about(r1, h, 2. * math.pi / 3.)]
        for r in rs:
            c = ((P - v) @ r) / (r @ r)
            ins &= np.abs(c) < 1
        return ins, dec
    if k == 'wed':
        v, a, b, h = _v(p, 0), _v(p, 3), _v(p, 6), _v(p, 9)
        A = np.array([a, b, h]).T
        coef = np.linalg.solve(A, (P - v).T).T
        al, be, ga = coef[:, 0], coef[:, 1], coef[:, 2]
        ins = (al > 0) & (be > 0) & (al + be < 1) & (ga > 0) & (ga < 1)
        return ins, dec
    if k == 'arb':
        ins = np.ones(len(P), dtype=bool)
        for n, _d in facets:
            ins &= n
        return ins, dec
    raise ModelError('unknown macrobody kind %r' % kind)


MACRO_KINDS = ('box', 'rpp', 'sph', 'rcc', 'rhp', 'hex', 'rec', 'trc',
               'ell', 'wed', 'arb')


def n_facets(kind, params):
    k = kind.lower()
    if k in ('box', 'rpp'):
        return 6
    if k in ('sph', 'ell'):
        return 1
    if k in ('rcc', 'rec', 'trc'):
        return 3
    if k in ('rhp', 'hex'):
        return 8
    if k == 'wed':
        return 5
    if k == 'arb':
        return sum(1 for q in params[24:30] if int(round(abs(q))) != 0)
    raise ModelError(kind)
