"""Differential point-membership oracle: abstract MCNP model vs the written
TRIPOLI-4 file (DESIGN 3.5).
"""
import numpy as np

from . import mdeck as md
from . import t4eval, t4read


def deck_box(deck, floor=6.0, cap=400.0):
    """Half-size of a cube enclosing the generated geometry with margin."""
    m = 0.0
    for s in deck['surfaces']:
        kind = s['kind'].lower()
        p = s['params']
        if kind in ('gq', 'sq', 'p', 'k/x', 'k/y', 'k/z', 'kx', 'ky', 'kz'):
            if kind == 'p' and len(p) == 9:
                m = max(m, max(abs(v) for v in p))
            elif kind == 'sq':
                m = max(m, max(abs(v) for v in p[7:10]) + 3.0)
            elif kind.startswith('k'):
                m = max(m, max(abs(v) for v in p[:3 if '/' in kind else 1]) + 2)
            continue
        if kind == 'arb':
            m = max(m, max(abs(v) for v in p[:24]))
            continue
        # lengths add up for bodies given by a base point plus vectors
        if kind in ('box', 'rcc', 'rhp', 'hex', 'rec', 'trc', 'wed'):
            m = max(m, max(abs(v) for v in p[:3]) +
                    sum(abs(v) for v in p[3:]) / 1.5)
            continue
        if p:
            m = max(m, sum(sorted((abs(v) for v in p), reverse=True)[:2]))
    for t in deck['transforms']:
        m += max(abs(v) for v in t['spec']['o'])
    return float(min(max(floor, 1.4 * m + 1.0), cap))


def _surface_centre(s):
    k = s['kind'].lower()
    p = s['params']
    try:
        if k == 'so':
            return [0.0, 0.0, 0.0]
        if k in ('s', 'sph', 'tx', 'ty', 'tz', 'k/x', 'k/y', 'k/z'):
            return list(p[:3])
        if k in ('sx', 'sy', 'sz', 'kx', 'ky', 'kz', 'px', 'py', 'pz'):
            c = [0.0, 0.0, 0.0]
            c['xyz'.index(k[1])] = p[0]
            return c
        if k in ('c/x', 'c/y', 'c/z'):
            ax = 'xyz'.index(k[2])
            c = [0.0, 0.0, 0.0]
            i, j = [q for q in range(3) if q != ax]
            c[i], c[j] = p[0], p[1]
            return c
        if k in ('cx', 'cy', 'cz'):
            return [0.0, 0.0, 0.0]
        if k == 'rpp':
            return [(p[0] + p[1]) / 2, (p[2] + p[3]) / 2, (p[4] + p[5]) / 2]
        if k in ('box', 'wed'):
            return [p[q] + (p[3 + q] + p[6 + q] + p[9 + q]) / 2
                    for q in range(3)]
        if k in ('rcc', 'rhp', 'hex', 'rec', 'trc'):
            return [p[q] + p[3 + q] / 2 for q in range(3)]
        if k == 'ell':
            if p[6] > 0:
                return [(p[q] + p[3 + q]) / 2 for q in range(3)]
            return list(p[:3])
        if k == 'sq':
            return list(p[7:10])
    except (IndexError, TypeError):
        return None
    return None


def interest_points(deck, limit=60):
    """Centres of the surfaces, displacements of every transformation, and
    their sums: seeds that make small cells (LIKE copies, lattice contents)
    visible to the sampler."""
    cen = []
    for s in deck['surfaces']:
        c = _surface_centre(s)
        if c is not None:
            cen.append(np.array(c, dtype=float))
    disp = [np.zeros(3)]

    def add_ref(ref):
        if ref is None:
            return
        if 'inline' in ref:
            disp.append(np.array(ref['inline']['o'], dtype=float))
    for t in deck['transforms']:
        disp.append(np.array(t['spec']['o'], dtype=float))
    for c in deck['cells']:
        add_ref(c.get('trcl'))
        if c.get('fill'):
            add_ref(c['fill'].get('tr'))
        lk = c.get('like')
        if lk:
            add_ref(lk['but'].get('trcl'))
            if lk['but'].get('fill'):
                add_ref(lk['but']['fill'].get('tr'))
    pts = []
    for dv in disp:
        pts.append(dv)
        for c in cen:
            pts.append(c + dv)
    if len(pts) > limit:
        step = len(pts) / float(limit)
        pts = [pts[int(q * step)] for q in range(limit)]
    return np.array(pts, dtype=float).reshape(-1, 3)


class KeyMap:
    def __init__(self):
        self.d = {}

    def ids(self, loc):
        out = np.empty(loc.n, dtype=np.int64)
        for i in range(loc.n):
            k = (int(loc.owner[i]), loc.chain[i], int(loc.count[i]))
            v = self.d.get(k)
            if v is None:
                v = len(self.d)
                self.d[k] = v
            out[i] = v
        return out


def make_points(locator, seed, n, box, extra=None, bisect_steps=11,
                key_fn=None):
    """Uniform points in the box plus near-boundary points found by bisecting
    segments whose end points have different model keys (owner chain by
    default, or the integer array returned by ``key_fn(P)``)."""
    rng = np.random.Generator(np.random.PCG64(int(seed)))
    n_uni = max(8, n // 2)
    U = rng.uniform(-box, box, (n_uni, 3))
    # concentrate a part of the uniform points near the centre
    U[: n_uni // 3] *= 0.4
    if extra is None and locator is not None:
        ip = interest_points(locator.deck)
        if len(ip):
            extra = np.vstack([ip + rng.normal(0.0, 0.25, ip.shape),
                               ip + rng.normal(0.0, 0.6, ip.shape)])
    if extra is not None and len(extra):
        U = np.vstack([U, np.asarray(extra, dtype=float).reshape(-1, 3)])
    if key_fn is None:
        km = KeyMap()

        def key_fn(Q):
            return km.ids(locator.locate(Q))
    ku = key_fn(U)
    m = len(U)
    # candidate pairs: random pairs of points
    n_pairs = max(8, n // 2)
    ia = rng.integers(0, m, 4 * n_pairs)
    ib = rng.integers(0, m, 4 * n_pairs)
    diff = np.nonzero(ku[ia] != ku[ib])[0][:n_pairs // 2 + 1]
    if len(diff) == 0:
        return U
    A = U[ia[diff]].copy()
    B = U[ib[diff]].copy()
    ka = ku[ia[diff]].copy()
    for _ in range(bisect_steps):
        M = 0.5 * (A + B)
        kmid = key_fn(M)
        same = kmid == ka
        A[same] = M[same]
        B[~same] = M[~same]
    # A and B now straddle a key change at distance ~ box * 2^-steps;
    # push them a little apart so that they are decidable
    D = B - A
    nrm = np.linalg.norm(D, axis=1, keepdims=True)
    nrm[nrm == 0] = 1.0
    Dn = D / nrm
    delta = 2e-3 * max(1.0, box / 6.0)
    near = np.vstack([A - delta * Dn, B + delta * Dn])
    return np.vstack([U, near])


class Comparison:
    """Joint evaluation of the model and of the T4 file on a point set."""

    def __init__(self, deck, t4, P, locator=None):
        self.deck = deck
        self.t4 = t4
        self.P = np.asarray(P, dtype=float)
        self.locator = locator or md.Locator(deck)
        self.loc = self.locator.locate(self.P)
        self.ev = t4eval.Evaluator(t4, self.P)
        self.ids, self.mat = self.ev.membership()
        self.nvol = self.mat.sum(axis=0) if len(self.ids) else \
            np.zeros(len(self.P), dtype=int)
        self.decided = ~self.loc.undec & self.ev.decided_all()

    def volumes_at(self, i):
        return [self.ids[k] for k in np.nonzero(self.mat[:, i])[0]]

    def expected_in(self):
        """Mask of points that must be in exactly one volume."""
        return (self.loc.count == 1) & ~self.loc.dead

    def expected_out(self):
        """Mask of points that must be in no volume."""
        return (self.loc.count == 0) | ((self.loc.count == 1) & self.loc.dead)

    def basic_mismatches(self, limit=5):
        """Coverage / disjointness mismatches common to all geometry
        properties.  Returns list of dict witnesses."""
        out = []
        dec = self.decided
        exp_in = self.expected_in()
        exp_out = self.expected_out()
        bad_missing = np.nonzero(dec & exp_in & (self.nvol == 0))[0]
        bad_extra = np.nonzero(dec & exp_out & (self.nvol > 0))[0]
        bad_multi = np.nonzero(dec & (self.loc.count <= 1)
                               & (self.nvol > 1))[0]
        for kind, arr in (('missing', bad_missing), ('extra', bad_extra),
                          ('overlap', bad_multi)):
            for i in arr[:limit]:
                out.append(self.witness(kind, i))
        return out

    def witness(self, kind, i):
        i = int(i)
        return {'kind': kind, 'point': [float(v) for v in self.P[i]],
                'model_owner': int(self.loc.owner[i]),
                'model_chain': repr(self.loc.chain[i]),
                'model_count': int(self.loc.count[i]),
                'model_dead': bool(self.loc.dead[i]),
                'volumes': [int(v) for v in self.volumes_at(i)]}


def parse_and_validate(res, **kw):
    t4 = t4read.parse(res.t4_text)
    issues = t4read.validate(t4, **kw)
    return t4, issues


# --------------------------------------------------------------------------
# hierarchy: provenance comments and compositions
# --------------------------------------------------------------------------

import re as _re

_FORTRAN_RE = _re.compile(r'^([-+]?(?:\d+\.?\d*|\.\d+))(?:[eEdD]?([-+]?\d+))?$')


def parse_real(text):
    """Parse an MCNP / Fortran real number spelling ('6.4-2', '1.d0')."""
    m = _FORTRAN_RE.match(text.strip())
    if not m:
        raise ValueError('not a real number: %r' % text)
    mant, exp = m.groups()
    return float(mant) * (10.0 ** int(exp) if exp else 1.0)


def parse_comp_name(name):
    """'m3_-2.7' -> (3, -2.7); 'm0' -> (0, None)."""
    m = _re.match(r'^m(\d+)(?:_(.+))?$', name)
    if not m:
        return None
    mat = int(m.group(1))
    if m.group(2) is None:
        return mat, None
    try:
        return mat, parse_real(m.group(2))
    except ValueError:
        return None


def hierarchy_mismatches(cmp_, deck, check_prov=True, check_comp=False,
                         limit=4):
    """Provenance / composition mismatches for points that lie in exactly
    one volume as expected."""
    out = []
    t4 = cmp_.t4
    loc = cmp_.loc
    max_cell = max(c['id'] for c in deck['cells'])
    cells = {c['id']: c for c in cmp_.locator.deck['cells']}
    comp_of = t4.comp_of_volume() if check_comp else {}
    synth = {}      # synthetic id -> (lattice cell, index)
    rsynth = {}
    sel = np.nonzero(cmp_.decided & cmp_.expected_in() & (cmp_.nvol == 1))[0]
    seen = set()
    for i in sel:
        vid = cmp_.volumes_at(i)[0]
        chain = loc.chain[i]
        owner = int(loc.owner[i])
        key = (vid, owner, chain)
        if key in seen:
            continue
        seen.add(key)
        vol = t4.volus[vid]
        problem = None
        leaf_is_element = bool(chain) and chain[-1][0] == 'l' and \
            chain[-1][1] == owner
        if check_prov:
            if not chain:
                if vid != owner:
                    problem = 'level-0 point in volume %d, owner %d' % (vid, owner)
            else:
                prov = vol.prov
                if leaf_is_element:
                    # the element itself is the filler: the comment lists its
                    # containers only
                    chain = chain[:-1]
                if len(prov) != len(chain):
                    problem = 'comment %r has %d pairs, chain %r' % (
                        vol.comment, len(prov), chain)
                else:
                    firsts = set(a for a, _b in prov)
                    if len(firsts) != 1:
                        problem = 'comment %r mixes filler ids' % vol.comment
                    else:
                        first = prov[0][0]
                        if leaf_is_element:
                            k = (loc.chain[i][-1][1], loc.chain[i][-1][2])
                            if first <= max_cell:
                                problem = ('own-universe lattice element '
                                           'reported as real cell %d' % first)
                            elif synth.setdefault(first, k) != k or \
                                    rsynth.setdefault(k, first) != first:
                                problem = ('synthetic id %d used for two '
                                           'lattice elements' % first)
                        elif first != owner:
                            problem = 'comment %r names filler %d, owner is %d' \
                                % (vol.comment, first, owner)
                    if problem is None:
                        # containers innermost -> outermost
                        for (a, b), ent in zip(prov, reversed(chain)):
                            if ent[0] == 'c':
                                if b != ent[1]:
                                    problem = ('comment %r names container %d, '
                                               'model container %d'
                                               % (vol.comment, b, ent[1]))
                                    break
                            else:
                                k = (ent[1], ent[2])
                                if b <= max_cell:
                                    problem = ('lattice element reported as '
                                               'real cell %d' % b)
                                    break
                                if synth.setdefault(b, k) != k or \
                                        rsynth.setdefault(k, b) != b:
                                    problem = ('synthetic id %d used for two '
                                               'lattice elements' % b)
                                    break
        if problem is None and check_comp:
            names = comp_of.get(vid, [])
            mat, rho = cells[owner]['mat'], cells[owner]['rho']
            if len(names) != 1:
                problem = 'volume %d assigned to %r' % (vid, names)
            else:
                got = parse_comp_name(names[0])
                if got is None:
                    problem = 'unparsable composition name %r' % names[0]
                elif mat == 0:
                    if got != (0, None):
                        problem = 'void cell %d in composition %s' % (owner, names[0])
                else:
                    want = parse_real(rho)
                    if got[0] != mat or got[1] is None or \
                            abs(got[1] - want) > 1e-12 * abs(want):
                        problem = ('cell %d (m%d, %s) in composition %s'
                                   % (owner, mat, rho, names[0]))
        if problem:
            w = cmp_.witness('hierarchy', i)
            w['problem'] = problem
            w['comment'] = vol.comment
            out.append(w)
            if len(out) >= limit:
                break
    return out
