"""Differential point-membership oracle: abstract MCNP model vs the written
TRIPOLI-4 file (DESIGN 3.5).
"""
import numpy as np

from . import mdeck as md
from . import t4eval, t4read


def deck_box(deck, floor=6.0, cap=400.0):
    """Half-size of a cube enclosing the generated geometry with margin."""
    m = 0.0
    for s in deck['surfaces']:
        kind = s['kind'].lower()
        p = s['params']
        if kind in ('gq', 'sq', 'p', 'k/x', 'k/y', 'k/z', 'kx', 'ky', 'kz'):
            if kind == 'p' and len(p) == 9:
                m = max(m, max(abs(v) for v in p))
            elif kind == 'sq':
                m = max(m, max(abs(v) for v in p[7:10]) + 3.0)
            elif kind.startswith('k'):
                m = max(m, max(abs(v) for v in p[:3 if '/' in kind else 1]) + 2)
            continue
        if kind == 'arb':
            m = max(m, max(abs(v) for v in p[:24]))
            continue
        # lengths add up for bodies given by a base point plus vectors
        if kind in ('box', 'rcc', 'rhp', 'hex', 'rec', 'trc', 'wed'):
            m = max(m, max(abs(v) for v in p[:3]) +
                    sum(abs(v) for v in p[3:]) / 1.5)
            continue
        if p:
            m = max(m, sum(sorted((abs(v) for v in p), reverse=True)[:2]))
    for t in deck['transforms']:
        m += max(abs(v) for v in t['spec']['o'])
    return float(min(max(floor, 1.4 * m + 1.0), cap))


class KeyMap:
    def __init__(self):
        self.d = {}

    def ids(self, loc):
        out = np.empty(loc.n, dtype=np.int64)
        for i in range(loc.n):
            k = (int(loc.owner[i]), loc.chain[i], int(loc.count[i]))
            v = self.d.get(k)
            if v is None:
                v = len(self.d)
                self.d[k] = v
            out[i] = v
        return out


def make_points(locator, seed, n, box, extra=None, bisect_steps=11,
                key_fn=None):
    """Uniform points in the box plus near-boundary points found by bisecting
    segments whose end points have different model keys (owner chain by
    default, or the integer array returned by ``key_fn(P)``)."""
    rng = np.random.Generator(np.random.PCG64(int(seed)))
    n_uni = max(8, n // 2)
    U = rng.uniform(-box, box, (n_uni, 3))
    # concentrate a part of the uniform points near the centre
    U[: n_uni // 3] *= 0.4
    if extra is not None and len(extra):
        U = np.vstack([U, np.asarray(extra, dtype=float).reshape(-1, 3)])
    if key_fn is None:
        km = KeyMap()

        def key_fn(Q):
            return km.ids(locator.locate(Q))
    ku = key_fn(U)
    m = len(U)
    # candidate pairs: random pairs of points
    n_pairs = max(8, n // 2)
    ia = rng.integers(0, m, 4 * n_pairs)
    ib = rng.integers(0, m, 4 * n_pairs)
    diff = np.nonzero(ku[ia] != ku[ib])[0][:n_pairs // 2 + 1]
    if len(diff) == 0:
        return U
    A = U[ia[diff]].copy()
    B = U[ib[diff]].copy()
    ka = ku[ia[diff]].copy()
    for _ in range(bisect_steps):
        M = 0.5 * (A + B)
        kmid = key_fn(M)
        same = kmid == ka
        A[same] = M[same]
        B[~same] = M[~same]
    # A and B now straddle a key change at distance ~ box * 2^-steps;
    # push them a little apart so that they are decidable
    D = B - A
    nrm = np.linalg.norm(D, axis=1, keepdims=True)
    nrm[nrm == 0] = 1.0
    Dn = D / nrm
    delta = 2e-3 * max(1.0, box / 6.0)
    near = np.vstack([A - delta * Dn, B + delta * Dn])
    return np.vstack([U, near])


class Comparison:
    """Joint evaluation of the model and of the T4 file on a point set."""

    def __init__(self, deck, t4, P, locator=None):
        self.deck = deck
        self.t4 = t4
        self.P = np.asarray(P, dtype=float)
        self.locator = locator or md.Locator(deck)
        self.loc = self.locator.locate(self.P)
        self.ev = t4eval.Evaluator(t4, self.P)
        self.ids, self.mat = self.ev.membership()
        self.nvol = self.mat.sum(axis=0) if len(self.ids) else \
            np.zeros(len(self.P), dtype=int)
        self.decided = ~self.loc.undec & self.ev.decided_all()

    def volumes_at(self, i):
        return [self.ids[k] for k in np.nonzero(self.mat[:, i])[0]]

    def expected_in(self):
        """Mask of points that must be in exactly one volume."""
        return (self.loc.count == 1) & ~self.loc.dead

    def expected_out(self):
        """Mask of points that must be in no volume."""
        return (self.loc.count == 0) | ((self.loc.count == 1) & self.loc.dead)

    def basic_mismatches(self, limit=5):
        """Coverage / disjointness mismatches common to all geometry
        properties.  Returns list of dict witnesses."""
        out = []
        dec = self.decided
        exp_in = self.expected_in()
        exp_out = self.expected_out()
        bad_missing = np.nonzero(dec & exp_in & (self.nvol == 0))[0]
        bad_extra = np.nonzero(dec & exp_out & (self.nvol > 0))[0]
        bad_multi = np.nonzero(dec & (self.loc.count <= 1)
                               & (self.nvol > 1))[0]
        for kind, arr in (('missing', bad_missing), ('extra', bad_extra),
                          ('overlap', bad_multi)):
            for i in arr[:limit]:
                out.append(self.witness(kind, i))
        return out

    def witness(self, kind, i):
        i = int(i)
        return {'kind': kind, 'point': [float(v) for v in self.P[i]],
                'model_owner': int(self.loc.owner[i]),
                'model_chain': repr(self.loc.chain[i]),
                'model_count': int(self.loc.count[i]),
                'model_dead': bool(self.loc.dead[i]),
                'volumes': [int(v) for v in self.volumes_at(i)]}


def parse_and_validate(res, **kw):
    t4 = t4read.parse(res.t4_text)
    issues = t4read.validate(t4, **kw)
    return t4, issues
