"""Strict reader of the TRIPOLI-4 dialect the converter writes (DESIGN 3.4).

Anything the reader cannot account for is reported as a structural issue;
the list of issues *is* the C08 oracle.  The reader shares no code with the
repository.
"""
import math
import re

SURF_ARITY = {
    'PLANEX': 1, 'PLANEY': 1, 'PLANEZ': 1, 'PLANE': 4,
    'SPHERE': 4, 'CYLX': 3, 'CYLY': 3, 'CYLZ': 3, 'CYL': 7,
    'CONEX': 4, 'CONEY': 4, 'CONEZ': 4, 'CONE': 7,
    'QUAD': 10, 'TORUSX': 6, 'TORUSY': 6, 'TORUSZ': 6,
}

_INT_RE = re.compile(r'^[+-]?\d+$')
_NUM_RE = re.compile(r'^[+-]?(\d+\.?\d*|\.\d+)([eE][+-]?\d+)?$')
_PAIR_RE = re.compile(r'\(\s*(-?\d+)\s*,\s*(-?\d+)\s*\)')


class Surf:
    __slots__ = ('id', 'type', 'params', 'transform', 'comment', 'line')

    def __init__(self, id_, type_, params, transform, comment, line):
        self.id = id_
        self.type = type_
        self.params = params
        self.transform = transform  # (t[3], M[9]) or None
        self.comment = comment
        self.line = line


class Volu:
    __slots__ = ('id', 'plus', 'minus', 'op', 'args', 'fictive', 'comment',
                 'prov', 'line')

    def __init__(self, id_):
        self.id = id_
        self.plus = []
        self.minus = []
        self.op = None
        self.args = []
        self.fictive = False
        self.comment = ''
        self.prov = []
        self.line = ''


class Compo:
    __slots__ = ('kind', 'temp', 'name', 'density', 'nb_atom', 'nuclides',
                 'declared')

    def __init__(self):
        self.kind = None
        self.temp = None
        self.name = None
        self.density = None  # string as written
        self.nb_atom = False
        self.nuclides = []   # list of (name, amount-string)
        self.declared = None


class T4File:
    def __init__(self):
        self.issues = []          # list of (code, detail)
        self.notes = []           # observations that are not violations
        self.surfs = {}
        self.surf_order = []
        self.transforms = {}
        self.volus = {}
        self.volu_order = []
        self.has_compo = False
        self.compo_declared = None
        self.compos = []
        self.has_geomcomp = False
        self.geomcomp = []        # list of (name, declared_n, [ids])
        self.has_bc = False
        self.bc_declared = None
        self.bcs = []             # list of (kind, surf id)
        self.header = []

    def issue(self, code, detail):
        self.issues.append((code, detail))

    # convenience -----------------------------------------------------
    def nonvirtual(self):
        return [v for v in self.volus.values() if not v.fictive]

    def comp_of_volume(self):
        """volume id -> list of composition names it is assigned to."""
        out = {}
        for name, _n, ids in self.geomcomp:
            for i in ids:
                out.setdefault(i, []).append(name)
        return out


def _num(tok, t4, where):
    if not _NUM_RE.match(tok):
        t4.issue('bad-number', '%s: %r' % (where, tok))
        return None
    val = float(tok)
    if not math.isfinite(val):
        t4.issue('non-finite', '%s: %r' % (where, tok))
        return None
    return val


def _int(tok, t4, where):
    if not _INT_RE.match(tok):
        t4.issue('bad-integer', '%s: %r' % (where, tok))
        return None
    return int(tok)


def _split_comment(line):
    pos = line.find('//')
    if pos < 0:
        return line.rstrip(), ''
    return line[:pos].rstrip(), line[pos + 2:].strip()


def parse(text):
    t4 = T4File()
    lines = text.split('\n')
    i = 0
    n = len(lines)
    # header comments
    while i < n and lines[i].startswith('//'):
        t4.header.append(lines[i])
        i += 1
    state = 'pre'
    expect_seq = ['LANG ENGLISH', 'GEOMETRY', 'TITLE title', 'HASH_TABLE']
    seq_pos = 0
    while i < n:
        raw = lines[i]
        i += 1
        line = raw.strip()
        if not line:
            continue
        if state == 'pre':
            if seq_pos < len(expect_seq) and line == expect_seq[seq_pos]:
                seq_pos += 1
                if seq_pos == len(expect_seq):
                    state = 'geom'
                continue
            t4.issue('unexpected-line', 'preamble: %r' % raw)
            continue
        if state == 'geom':
            body, comment = _split_comment(line)
            toks = body.split()
            if not toks:
                continue
            kw = toks[0]
            if kw == 'TRANSFORM':
                _parse_transform(toks, t4, raw)
            elif kw == 'SURF':
                _parse_surf(toks, comment, t4, raw)
            elif kw == 'VOLU':
                _parse_volu(toks, comment, t4, raw)
            elif kw == 'ENDG' and len(toks) == 1:
                state = 'post'
            else:
                t4.issue('unexpected-line', 'geometry: %r' % raw)
            continue
        if state == 'post':
            if line == 'COMPOSITION':
                if t4.has_compo:
                    t4.issue('duplicate-block', 'COMPOSITION')
                t4.has_compo = True
                i = _parse_compositions(lines, i, t4)
            elif line == 'GEOMCOMP':
                if t4.has_geomcomp:
                    t4.issue('duplicate-block', 'GEOMCOMP')
                t4.has_geomcomp = True
                i = _parse_geomcomp(lines, i, t4)
            elif line == 'BOUNDARY_CONDITION':
                if t4.has_bc:
                    t4.issue('duplicate-block', 'BOUNDARY_CONDITION')
                t4.has_bc = True
                i = _parse_bc(lines, i, t4)
            else:
                t4.issue('unexpected-line', 'after ENDG: %r' % raw)
    if state != 'post':
        t4.issue('truncated', 'no ENDG (state %s)' % state)
    return t4


def _parse_transform(toks, t4, raw):
    if len(toks) != 15 or toks[2] != 'MATRIX':
        t4.issue('bad-transform', raw)
        return
    tid = _int(toks[1], t4, 'TRANSFORM id')
    vals = [_num(t, t4, 'TRANSFORM %s' % toks[1]) for t in toks[3:]]
    if tid is None or any(v is None for v in vals):
        return
    if tid in t4.transforms:
        t4.issue('duplicate-transform', str(tid))
    t4.transforms[tid] = (vals[:3], vals[3:])


def _parse_surf(toks, comment, t4, raw):
    if len(toks) < 3:
        t4.issue('bad-surf', raw)
        return
    sid = _int(toks[1], t4, 'SURF id')
    k = 2
    transform = None
    if toks[k] == 'TRANSFORM':
        if len(toks) < 5:
            t4.issue('bad-surf', raw)
            return
        tid = _int(toks[3], t4, 'SURF %s TRANSFORM' % toks[1])
        if tid is not None:
            if tid not in t4.transforms:
                t4.issue('undefined-transform', 'SURF %s uses TRANSFORM %s'
                         % (toks[1], tid))
            else:
                transform = t4.transforms[tid]
        k = 4
    typ = toks[k]
    ptoks = toks[k + 1:]
    if typ not in SURF_ARITY:
        t4.issue('unknown-surface-type', raw)
        return
    if len(ptoks) != SURF_ARITY[typ]:
        t4.issue('surface-arity', '%s expects %d parameters: %r'
                 % (typ, SURF_ARITY[typ], raw))
        return
    params = [_num(t, t4, 'SURF %s' % toks[1]) for t in ptoks]
    if sid is None:
        return
    if sid <= 0:
        t4.issue('non-positive-id', 'SURF %d' % sid)
    if sid in t4.surfs:
        t4.issue('duplicate-surf', str(sid))
        return
    if any(p is None for p in params):
        params = None
    t4.surfs[sid] = Surf(sid, typ, params, transform, comment, raw)
    t4.surf_order.append(sid)


def _parse_volu(toks, comment, t4, raw):
    if len(toks) < 4 or toks[2] != 'EQUA' or toks[-1] != 'ENDV':
        t4.issue('bad-volu', raw)
        return
    vid = _int(toks[1], t4, 'VOLU id')
    if vid is None:
        return
    vol = Volu(vid)
    vol.line = raw
    vol.comment = comment
    vol.prov = [(int(a), int(b)) for a, b in _PAIR_RE.findall(comment)]
    body = toks[3:-1]
    k = 0
    seen_kw = []
    ok = True
    while k < len(body):
        kw = body[k]
        if kw in ('PLUS', 'MINUS', 'UNION', 'INTE'):
            if kw in seen_kw or (kw in ('UNION', 'INTE')
                                 and ('UNION' in seen_kw
                                      or 'INTE' in seen_kw)):
                t4.issue('repeated-keyword', raw)
                ok = False
            seen_kw.append(kw)
            if k + 1 >= len(body):
                t4.issue('bad-volu', raw)
                ok = False
                break
            cnt = _int(body[k + 1], t4, 'VOLU %d %s count' % (vid, kw))
            if cnt is None:
                ok = False
                break
            k += 2
            items = []
            while k < len(body) and body[k] not in ('PLUS', 'MINUS', 'UNION',
                                                    'INTE', 'FICTIVE'):
                items.append(body[k])
                k += 1
            if len(items) != cnt:
                t4.issue('count-mismatch', 'VOLU %d %s declares %d, lists %d'
                         % (vid, kw, cnt, len(items)))
            vals = []
            for it in items:
                v = _int(it, t4, 'VOLU %d %s item' % (vid, kw))
                if v is None:
                    ok = False
                else:
                    vals.append(v)
            if cnt < 0:
                t4.issue('negative-count', 'VOLU %d %s %d' % (vid, kw, cnt))
            elif cnt == 0:
                # count == items == 0: not one of the statement's clauses
                t4.notes.append(('empty-list', 'VOLU %d %s 0' % (vid, kw)))
            if kw == 'PLUS':
                vol.plus = vals
            elif kw == 'MINUS':
                vol.minus = vals
            else:
                vol.op = kw
                vol.args = vals
        elif kw == 'FICTIVE':
            if k != len(body) - 1:
                t4.issue('bad-volu', raw)
                ok = False
            vol.fictive = True
            k += 1
        else:
            t4.issue('bad-volu', raw)
            ok = False
            break
    if vid <= 0:
        t4.issue('non-positive-id', 'VOLU %d' % vid)
    if vid in t4.volus:
        t4.issue('duplicate-volu', str(vid))
        return
    if not ok:
        vol.op = vol.op  # keep what we have; evaluator refuses on issues
    t4.volus[vid] = vol
    t4.volu_order.append(vid)


def _parse_compositions(lines, i, t4):
    n = len(lines)
    # declared count
    while i < n and not lines[i].strip():
        i += 1
    if i >= n:
        t4.issue('truncated', 'COMPOSITION')
        return i
    t4.compo_declared = _int(lines[i].strip(), t4, 'COMPOSITION count')
    i += 1
    cur = None
    closed = False
    while i < n:
        raw = lines[i]
        line = raw.strip()
        i += 1
        if not line:
            continue
        if line == 'END_COMPOSITION':
            closed = True
            break
        toks = line.split()
        if toks[0] in ('DENSITY', 'POINT_WISE'):
            cur = Compo()
            cur.kind = toks[0]
            t4.compos.append(cur)
            try:
                if toks[0] == 'POINT_WISE':
                    if len(toks) != 4:
                        raise ValueError
                    cur.temp, cur.name = toks[1], toks[2]
                    cur.declared = _int(toks[3], t4, 'composition count')
                else:
                    rest = toks[1:]
                    if 'NB_ATOM' in rest:
                        cur.nb_atom = True
                        if rest.index('NB_ATOM') != 3:
                            raise ValueError
                        rest.remove('NB_ATOM')
                    if len(rest) != 4:
                        raise ValueError
                    cur.temp, cur.name, cur.density = rest[0], rest[1], rest[2]
                    _num(cur.density, t4, 'DENSITY of %s' % cur.name)
                    cur.declared = _int(rest[3], t4, 'composition count')
                _num(cur.temp, t4, 'temperature of %s' % cur.name)
            except ValueError:
                t4.issue('bad-composition-header', raw)
        else:
            if cur is None or len(toks) != 2:
                t4.issue('unexpected-line', 'composition: %r' % raw)
                continue
            _num(toks[1], t4, 'amount of %s in %s' % (toks[0], cur.name))
            cur.nuclides.append((toks[0], toks[1]))
    if not closed:
        t4.issue('truncated', 'no END_COMPOSITION')
    return i


def _parse_geomcomp(lines, i, t4):
    n = len(lines)
    closed = False
    while i < n:
        raw = lines[i]
        line = raw.strip()
        i += 1
        if not line:
            continue
        if line == 'END_GEOMCOMP':
            closed = True
            break
        toks = line.split()
        if len(toks) < 2:
            t4.issue('bad-geomcomp', raw)
            continue
        cnt = _int(toks[1], t4, 'GEOMCOMP %s count' % toks[0])
        ids = []
        for t in toks[2:]:
            v = _int(t, t4, 'GEOMCOMP %s item' % toks[0])
            if v is not None:
                ids.append(v)
        if cnt is not None and cnt != len(toks) - 2:
            t4.issue('count-mismatch', 'GEOMCOMP %s declares %d, lists %d'
                     % (toks[0], cnt, len(toks) - 2))
        t4.geomcomp.append((toks[0], cnt, ids))
    if not closed:
        t4.issue('truncated', 'no END_GEOMCOMP')
    return i


def _parse_bc(lines, i, t4):
    n = len(lines)
    while i < n and not lines[i].strip():
        i += 1
    if i >= n:
        t4.issue('truncated', 'BOUNDARY_CONDITION')
        return i
    t4.bc_declared = _int(lines[i].strip(), t4, 'BOUNDARY_CONDITION count')
    i += 1
    closed = False
    while i < n:
        raw = lines[i]
        line = raw.strip()
        i += 1
        if not line:
            continue
        if line == 'END_BOUNDARY_CONDITION':
            closed = True
            break
        toks = line.split()
        if len(toks) != 3 or toks[0] != 'ALL_COMPLETE':
            t4.issue('bad-boundary-condition', raw)
            continue
        if toks[1] not in ('REFLECTION', 'COSINUS'):
            t4.issue('bad-boundary-kind', raw)
        sid = _int(toks[2], t4, 'boundary condition surface')
        t4.bcs.append((toks[1], sid))
    if not closed:
        t4.issue('truncated', 'no END_BOUNDARY_CONDITION')
    return i


# ---------------------------------------------------------------------------
# structural validity (C08 oracle): one clause per sentence of the statement
# ---------------------------------------------------------------------------

def validate(t4, compositions_expected=True, geomcomp_expected=True):
    """Return the list of structural issues of a parsed file (parse issues
    included)."""
    issues = list(t4.issues)

    def add(code, detail):
        issues.append((code, detail))

    for vol in t4.volus.values():
        for s in vol.plus + vol.minus:
            if s not in t4.surfs:
                add('undefined-surface', 'VOLU %d references SURF %d'
                    % (vol.id, s))
        both = set(vol.plus) & set(vol.minus)
        if both:
            add('surface-both-sides', 'VOLU %d lists %s on both sides'
                % (vol.id, sorted(both)))
        if len(set(vol.plus)) != len(vol.plus) or \
                len(set(vol.minus)) != len(vol.minus):
            add('repeated-surface', 'VOLU %d' % vol.id)
        for a in vol.args:
            if a not in t4.volus:
                add('undefined-volume', 'VOLU %d %s references VOLU %d'
                    % (vol.id, vol.op, a))
            if a == vol.id:
                add('self-reference', 'VOLU %d' % vol.id)
    # cycles among operator references
    color = {}

    def visit(v):
        stack = [(v, iter(t4.volus[v].args))]
        color[v] = 1
        while stack:
            node, it = stack[-1]
            for a in it:
                if a not in t4.volus:
                    continue
                c = color.get(a, 0)
                if c == 1:
                    add('cycle', 'VOLU %d <- %d' % (a, node))
                elif c == 0:
                    color[a] = 1
                    stack.append((a, iter(t4.volus[a].args)))
                    break
            else:
                color[node] = 2
                stack.pop()

    for v in t4.volus:
        if color.get(v, 0) == 0:
            visit(v)

    if t4.has_compo:
        if t4.compo_declared is not None and \
                t4.compo_declared != len(t4.compos):
            add('count-mismatch', 'COMPOSITION declares %d, writes %d'
                % (t4.compo_declared, len(t4.compos)))
        names = [c.name for c in t4.compos]
        if len(set(names)) != len(names):
            dup = sorted(set(x for x in names if names.count(x) > 1))
            add('duplicate-composition', ' '.join(dup))
        for c in t4.compos:
            if c.declared is not None and c.declared != len(c.nuclides):
                add('count-mismatch', 'composition %s declares %d nuclides, '
                    'lists %d' % (c.name, c.declared, len(c.nuclides)))
    if t4.has_geomcomp:
        assigned = {}
        for name, _cnt, ids in t4.geomcomp:
            for vid in ids:
                assigned.setdefault(vid, []).append(name)
                if vid not in t4.volus:
                    add('undefined-volume', 'GEOMCOMP %s references VOLU %d'
                        % (name, vid))
                elif t4.volus[vid].fictive:
                    add('fictive-in-geomcomp', 'GEOMCOMP %s lists FICTIVE '
                        'VOLU %d' % (name, vid))
        for vid, nm in assigned.items():
            if len(nm) > 1:
                add('multiple-compositions', 'VOLU %d in %s' % (vid, nm))
        for vol in t4.volus.values():
            if not vol.fictive and vol.id not in assigned:
                add('no-composition', 'VOLU %d' % vol.id)
        gnames = [g[0] for g in t4.geomcomp]
        if len(set(gnames)) != len(gnames):
            add('duplicate-geomcomp-line', str(gnames))
        if t4.has_compo:
            defined = set(c.name for c in t4.compos)
            for name, _c, _i in t4.geomcomp:
                if name not in defined:
                    add('undefined-composition', 'GEOMCOMP names %s' % name)
    if t4.has_bc:
        if t4.bc_declared is not None and t4.bc_declared != len(t4.bcs):
            add('count-mismatch', 'BOUNDARY_CONDITION declares %d, writes %d'
                % (t4.bc_declared, len(t4.bcs)))
        for kind, sid in t4.bcs:
            if sid is not None and sid not in t4.surfs:
                add('undefined-surface', 'BOUNDARY_CONDITION %s references '
                    'SURF %d' % (kind, sid))
    return issues
