"""Generator of hierarchical decks: universes, FILL (with transformations),
TRCL on containers, rectangular lattices, materials and density spellings
(DESIGN 3.2, used by C05/C06/C08/C09/C13/C14/C15/C18).

Every universe is a partition of its whole frame by construction (regions
R1..Rk, cell i = Ri minus the earlier ones, last cell = the rest), so the
MCNP model is well defined.
"""
import copy
import math

import numpy as np
from hypothesis import strategies as st

from . import gen, mdeck as md, mgeom

DENSITY_FAMILIES = [
    # (numeric value, spellings that differ only in trailing zeros / Fortran
    #  exponent forms of one mantissa) -- the two families named by C09.
    #  Spellings of one family must share a composition; two families with the
    #  same numeric value (leading zero or not) are observed, not asserted.
    (2.7, ['2.7', '2.70', '2.700']),
    (1.0, ['1.0', '1.00', '1.000', '1.']),
    (2.0, ['2.', '2.0', '2.00', '2+0', '2']),
    (0.064, ['6.4-2', '6.4e-2', '6.4E-2', '6.4d-2', '6.4D-2', '64-3']),
    (10.5, ['10.5', '10.50', '10.500']),
    (0.5, ['.5', '.50', '.500']),
    (0.5, ['0.5', '0.50']),
    (1.2e-3, ['1.2-3', '1.2e-3', '1.2E-3', '1.2D-3', '1.2d-3']),
    (2.5, ['2.5', '2.50']),
    (2.75, ['2.75', '2.750']),
    # exponents that end in a zero digit, next to the same mantissa with
    # another exponent (numerically different: must not share a composition)
    (1.25e-10, ['1.25-10', '1.25e-10', '1.25E-10', '1.25d-10']),
    (1.25e-1, ['1.25-1', '1.25e-1', '1.25E-1']),
    (3.0e-20, ['3.0-20', '3.0e-20', '3.0E-20', '3.0d-20']),
    (3.0e-2, ['3.0-2', '3.0e-2', '3.0E-2']),
]


@st.composite
def density(draw, mass_only=False):
    """(spelling, numeric value incl. sign, family index)."""
    fi = draw(st.integers(0, len(DENSITY_FAMILIES) - 1))
    val, spells = DENSITY_FAMILIES[fi]
    sp = draw(st.sampled_from(spells))
    neg = True if mass_only else draw(st.sampled_from([True, True, False]))
    return ('-' + sp) if neg else sp, (-val if neg else val), fi


class Builder:
    def __init__(self, draw, tier, opts):
        self.draw = draw
        self.tier = tier
        self.opts = opts
        self.deck = md.new_deck()
        self.sid = 0
        self.cid = 0
        self.uid = 0
        self.trid = 0
        self.labels = set()
        self.universes_made = []      # (u, depth)
        self.lat_opts = []
        self.max_depth = 0
        self.n_mat = draw(st.integers(2, 4))
        self.deck['materials'] = [
            {'id': 1, 'entries': [('13027', '1.0')]},
            {'id': 2, 'entries': [('1001', '2'), ('8016', '1'), 'nlib=70c']},
            {'id': 3, 'entries': [('26056', '-0.9'), ('6000', '-0.1')]},
            {'id': 4, 'entries': ['gas=0', ('92235.70c', '0.05'),
                                  ('92238.70c', '0.95')]},
        ][:self.n_mat]

    # -- ids ---------------------------------------------------------------
    def new_sid(self):
        self.sid += self.draw(st.integers(1, 4))
        return self.sid

    def new_cid(self):
        self.cid += self.draw(st.integers(1, 6))
        return self.cid

    def new_uid(self):
        self.uid += self.draw(st.integers(1, 3))
        return self.uid

    def add_surf(self, kind, params, tr=None, bc=''):
        sid = self.new_sid()
        self.deck['surfaces'].append(md.surf(sid, kind, params, tr, bc))
        return sid

    def maybe_surface_tr(self, sid, scale):
        """Occasionally give a region surface its own TR number (it then
        composes with fill transformations and TRCL)."""
        d = self.draw
        if not self.opts.get('surface_tr') or d(st.integers(0, 5)) != 0:
            return
        spec, _lab = d(gen.tr_spec(allow_abbrev=False, allow_13=False))
        spec['o'] = [float(v) * 0.3 * scale / 4.0 for v in spec['o']]
        self.trid += d(st.integers(1, 5))
        self.deck['transforms'].append({'id': self.trid, 'spec': spec})
        for s_ in self.deck['surfaces']:
            if s_['id'] == sid:
                s_['tr'] = self.trid
        self.labels.add('surface-tr')

    # -- materials ---------------------------------------------------------
    def material(self):
        d = self.draw
        if d(st.integers(0, 5)) == 0:
            self.labels.add('void-cell')
            return 0, None
        # opts['unsupported_mix']: the mass-fraction material may also be used
        # with an atom density (documented as unsupported: the converter
        # warns and writes an empty composition) - structural checks only
        mix = bool(self.opts.get('unsupported_mix'))
        if not hasattr(self, 'palette'):
            # a small palette makes cells share materials and density
            # families, in different spellings
            self.palette = []
            for _ in range(d(st.integers(2, 3))):
                m = d(st.integers(1, self.n_mat))
                fi = d(st.integers(0, len(DENSITY_FAMILIES) - 1))
                neg = True if (m == 3 and not mix) else \
                    d(st.sampled_from([True, True, False]))
                self.palette.append((m, fi, neg))
        if d(st.integers(0, 4)) == 0:
            m = d(st.integers(1, self.n_mat))
            # material 3 is given in mass fractions: only mass densities
            sp, _val, _fi = d(density(mass_only=(m == 3 and not mix)))
            if m == 3 and not sp.startswith('-'):
                self.labels.add('mass-fractions+atom-density')
            return m, sp
        m, fi, neg = d(st.sampled_from(self.palette))
        sp = d(st.sampled_from(DENSITY_FAMILIES[fi][1]))
        if m == 3 and not neg:
            self.labels.add('mass-fractions+atom-density')
        return m, ('-' + sp) if neg else sp

    # -- simple regions ------------------------------------------------------
    def region(self, scale):
        """A region (expression) roughly centred in a frame of half-size
        ``scale``; draws fresh surfaces."""
        d = self.draw
        kinds = ['sph', 'sph', 'cyl', 'slab', 'half', 'box', 'cone', 'half2',
                 'macro', 'facet']
        if self.opts.get('facet_bias'):
            # decks made of macrobodies and their facets, on every level
            kinds = ['box', 'box', 'macro', 'facet', 'facet', 'sph']
        kind = d(st.sampled_from(kinds))
        if kind == 'facet':
            # a macrobody referenced through its facets; an existing body of
            # this deck is reused when possible, so that one body is referenced
            # as a whole and by several facets under the same transformation
            from . import mgeom
            bodies = [s_ for s_ in self.deck['surfaces']
                      if s_['kind'].lower() in ('rpp', 'box', 'rcc', 'wed')
                      and s_.get('tr') is None]
            if bodies and d(st.booleans()):
                body = d(st.sampled_from(bodies))
                sid = body['id']
            else:
                mk = d(st.sampled_from(['rpp', 'box', 'rcc']))
                k_, p_, _lab = d(gen.macro_params(mk))
                p_ = _shrink_body(k_, p_, scale)
                sid = self.add_surf(k_, p_)
                body = self.deck['surfaces'][-1]
            nf = mgeom.n_facets(body['kind'], body['params'])
            self.labels.add('macro-facets')
            f1 = md.F(d(st.sampled_from([1, -1])) * sid, d(st.integers(1, nf)))
            how = d(st.integers(0, 2))
            if how == 0:
                return f1
            f2 = md.F(d(st.sampled_from([1, -1])) * sid, d(st.integers(1, nf)))
            if how == 1:
                return md.AND(f1, f2)
            return md.OR(md.AND(f1, f2), md.S(-sid))
        c = lambda: d(gen.coord(0.4 * scale))  # noqa: E731
        r = lambda: d(gen.length(0.25 * scale, 0.7 * scale))  # noqa: E731
        if kind == 'sph':
            if d(st.booleans()):
                return md.S(-self.add_surf('so', [r()]))
            sid = self.add_surf('s', [c(), c(), c(), r()])
            self.maybe_surface_tr(sid, scale)
            return md.S(-sid)
        if kind == 'cyl':
            ax = d(st.sampled_from('xyz'))
            if d(st.booleans()):
                return md.S(-self.add_surf('c' + ax, [r()]))
            sid = self.add_surf('c/' + ax, [c(), c(), r()])
            self.maybe_surface_tr(sid, scale)
            return md.S(-sid)
        if kind == 'slab':
            ax = d(st.sampled_from('xyz'))
            a = c()
            w = r()
            s1 = self.add_surf('p' + ax, [a])
            s2 = self.add_surf('p' + ax, [a + w])
            return md.AND(md.S(s1), md.S(-s2))
        if kind == 'half':
            ax = d(st.sampled_from('xyz'))
            s1 = self.add_surf('p' + ax, [c()])
            return md.S(d(st.sampled_from([1, -1])) * s1)
        if kind == 'half2':
            n = d(gen.unit_vector(aligned_weight=1))
            s1 = self.add_surf('p', n + [c()])
            return md.S(d(st.sampled_from([1, -1])) * s1)
        if kind == 'box':
            lo = [c() - 0.3 * scale for _ in range(3)]
            ext = [r() for _ in range(3)]
            p = []
            for a, e in zip(lo, ext):
                p += [a, a + e]
            self.labels.add('macro:rpp')
            return md.S(-self.add_surf('rpp', p))
        if kind == 'cone':
            ax = d(st.sampled_from('xyz'))
            sheet = d(st.sampled_from([1.0, -1.0]))
            self.labels.add('one-sheet-cone')
            sid = self.add_surf('k/' + ax, [c(), c(), c(), d(gen.tan2()),
                                            sheet])
            self.maybe_surface_tr(sid, scale)
            return md.S(-sid)
        mk = d(st.sampled_from(['rcc', 'box', 'sph', 'rhp9', 'wed', 'ell-']))
        k, p, _lab = d(gen.macro_params(mk))
        p = _shrink_body(k, p, scale)
        self.labels.add('macro:' + mk)
        return md.S(-self.add_surf(k, p))

    # -- transformations ---------------------------------------------------
    def transform_ref(self, scale, allow_none=True, rot_classes=None):
        """Return (ref or None, labels): None / {'num': n} / {'inline': spec}."""
        d = self.draw
        how = d(st.sampled_from((['none'] if allow_none else [])
                                + ['num', 'inline', 'inline3', 'star',
                                   'identity']))
        if how == 'none':
            return None
        if how == 'identity':
            # an explicitly written identity is still "a transformation"
            full = None if d(st.booleans()) else \
                [1.0, 0.0, 0.0, 0.0, 1.0, 0.0, 0.0, 0.0, 1.0]
            spec = md.trspec([0.0, 0.0, 0.0], full,
                             n_entries=3 if full is None else 12)
            self.labels.add('trref:identity')
            if d(st.booleans()):
                self.trid += d(st.integers(1, 5))
                self.deck['transforms'].append({'id': self.trid,
                                                'spec': spec})
                return {'num': self.trid}
            return {'inline': spec}
        spec, lab = d(gen.tr_spec(rot_classes=rot_classes, allow_abbrev=True,
                                  allow_13=False,
                                  translation_only_weight=(10 if how == 'inline3' else 1)))
        spec['o'] = [float(v) * 0.4 * scale / 4.0 for v in spec['o']]
        if how == 'star' and spec['full'] is not None and not spec['star']:
            spec['full'] = gen.to_degrees(spec['full'])
            spec['star'] = True
        if how in ('inline', 'inline3') and spec['star'] \
                and spec['full'] is not None:
            spec['full'] = [math.cos(math.radians(v)) for v in spec['full']]
            spec['star'] = False
        for l in lab:
            if l.startswith('rot:'):
                self.labels.add('fill-' + l)
        if how == 'num':
            self.trid += d(st.integers(1, 5))
            self.deck['transforms'].append({'id': self.trid, 'spec': spec})
            self.labels.add('trref:num')
            return {'num': self.trid}
        self.labels.add('trref:' + how)
        return {'inline': spec}

    # -- universes ---------------------------------------------------------
    def universe(self, depth, scale, allow_lattice=True):
        """Create a universe (cells appended to the deck) and return its
        number."""
        d = self.draw
        u = self.new_uid()
        self.universes_made.append((u, depth))
        if allow_lattice and self.opts.get('lattice') and depth >= 0:
            force = self.opts.get('lattice') == 'force' and \
                'lattice' not in self.labels
            if force or d(st.integers(0, 2)) == 0:
                self.lattice_universe(u, depth, scale)
                return u
        n = d(st.integers(1, 2))
        regions = [self.region(scale) for _ in range(n)]
        shared = getattr(self, 'container_leaves', None)
        self.container_leaves = None
        if shared and d(st.integers(0, 2)) <= (
                1 if self.opts.get('facet_bias') else 0):
            k = d(st.integers(0, n - 1))
            leaf = d(st.sampled_from(shared))
            body = [s_ for s_ in self.deck['surfaces']
                    if s_['id'] == abs(leaf[1])]
            if body and body[0]['kind'].lower() in ('rpp', 'box', 'rcc',
                                                    'wed', 'rhp', 'hex') \
                    and d(st.booleans()):
                # the container is bounded by a macrobody (or one of its
                # facets): the filler is cut by another facet of that body
                from . import mgeom
                nf = mgeom.n_facets(body[0]['kind'], body[0]['params'])
                leaf = md.F(leaf[1], d(st.integers(1, nf)))
                self.labels.add('filler-cut-by-other-facet-of-container-body')
            if d(st.integers(0, 3)) == 0:
                leaf = gen.push_not(leaf, True)      # the other side
            self.shared_used = True
            regions[k] = md.AND(regions[k], leaf) if regions[k][0] != '&' \
                else list(regions[k]) + [leaf]
            self.labels.add('filler-shares-container-surface')
        cids = [self.new_cid() for _ in range(n + 1)]
        for i in range(n + 1):
            terms = []
            if i < n:
                terms.append(regions[i])
            for j in range(min(i, n)):
                how = d(st.sampled_from(['cell', 'paren', 'demorgan']))
                if how == 'cell':
                    terms.append(md.CELLC(cids[j]))
                elif how == 'paren':
                    terms.append(md.NOT(regions[j]))
                else:
                    terms.append(gen.push_not(regions[j], True))
            if self.opts.get('empty_pieces') and self.deck['surfaces'] \
                    and d(st.integers(0, 5)) == 0:
                s0 = d(st.sampled_from(self.deck['surfaces']))['id']
                if d(st.booleans()):
                    # the whole filler cell is patently empty
                    terms += [md.S(s0), md.S(-s0)]
                    self.labels.add('patently-empty-cell')
                else:
                    terms[0] = md.OR(terms[0], md.AND(md.S(s0), md.S(-s0)))
                    self.labels.add('patently-empty-piece')
            expr = terms[0] if len(terms) == 1 else md.AND(*terms)
            self.make_cell(cids[i], expr, u, depth, scale)
        return u

    def make_cell(self, cid, expr, u, depth, scale, level0=False):
        d = self.draw
        fill = None
        trcl = None
        if depth > 0 and d(st.integers(0, 2)) != 0:
            # container
            reuse = [uu for uu, dd in self.universes_made
                     if dd < depth and uu != u]
            if reuse and d(st.integers(0, 2)) == 0:
                sub = d(st.sampled_from(reuse))
                self.labels.add('universe-reused')
            else:
                # the cells of the filling universe may be bounded by a
                # surface that also bounds the container (same number)
                self.container_leaves = _signed_leaves(expr)
                self.shared_used = False
                sub = self.universe(depth - 1, scale * 0.8)
                self.container_leaves = None
            fill = {'u': sub, 'tr': None if self.opts.get('no_fill_tr')
                    else self.transform_ref(scale)}
            if getattr(self, 'shared_used', False):
                self.shared_used = False
                if d(st.booleans()):
                    # the shared surface is the same surface on both levels
                    # only when the universe is not moved
                    fill['tr'] = None
                    self.labels.add('shared-surface-unmoved-universe')
            if d(st.integers(0, 3)) == 0:
                trcl = self.transform_ref(scale, allow_none=False)
                self.labels.add('container-trcl')
                if fill['tr'] is not None:
                    self.labels.add('container-trcl+filltr')
            mat, rho = 0, None
            if d(st.integers(0, 3)) == 0:
                mat, rho = self.material()   # material of a container is moot
        else:
            mat, rho = self.material()
            if d(st.integers(0, 7)) == 0:
                trcl = self.transform_ref(scale, allow_none=False)
                self.labels.add('leaf-trcl')
        c = md.cell(cid, mat, rho, expr, imp={'n': 1}, u=(u or None),
                    fill=fill, trcl=trcl)
        if d(st.integers(0, 9)) == 0:
            c['mat_zeros'] = d(st.integers(1, 2))
            self.labels.add('material-number-with-leading-zeros')
        self.deck['cells'].append(c)
        return c

    # -- rectangular lattices ----------------------------------------------
    def lattice_universe(self, u, depth, scale, force=None):
        d = self.draw
        force = force or {}
        self.labels.add('lattice')
        ndim = d(st.sampled_from([1, 2, 2, 3]))
        self.labels.add('lat:%dd' % ndim)
        axes = d(st.permutations('xyz'))[:ndim]
        leaves = []
        pitches = []
        skew = ndim == 3 and d(st.integers(0, 2)) == 0
        if skew:
            self.labels.add('lat:skew3d')
            _cls, R = d(gen.rotation(('generic', 'axis', 'identity',
                                      'identity', 'perm')))
            R = np.array(R).reshape(3, 3)
            shear = np.eye(3)
            kind = d(st.sampled_from(['monoclinic', 'monoclinic',
                                      'triclinic']))
            self.labels.add('lat:' + kind)
            if kind == 'monoclinic':
                # exactly one pair of plane families is not orthogonal; the
                # listing order of the pairs is shuffled below, so the odd
                # pair can be (1,2), (2,3) or (1,3)
                i_, j_ = d(st.sampled_from([(0, 1), (1, 2), (0, 2)]))
                shear[i_, j_] = d(st.sampled_from([0.75, -0.4, 0.3, 1.0]))
            else:
                shear[0, 1] = d(st.sampled_from([0.3, -0.4]))
                shear[1, 2] = d(st.sampled_from([0.0, 0.25, -0.3]))
                shear[0, 2] = d(st.sampled_from([0.0, 0.2]))
            normals = (shear @ R)
            normals = normals / np.linalg.norm(normals, axis=1, keepdims=True)
            normals = normals[list(d(st.permutations([0, 1, 2])))]
        via_facets = (not skew) and d(st.integers(0, 4)) == 0
        via_body = (not skew) and (not via_facets) and ndim == 3 and \
            d(st.integers(0, 2)) == 0
        if via_body:
            return self._body_lattice_universe(u, scale, force)
        rpp = [-50.0, 50.0, -50.0, 50.0, -50.0, 50.0]
        rpp_id = None
        if via_facets:
            rpp_id = self.add_surf('rpp', rpp)
            self.labels.add('lat:rpp-facets')
        for q, ax in enumerate(axes):
            p = d(gen.length(0.25 * scale, 0.6 * scale))
            a = d(gen.coord(0.2 * scale))
            if via_facets:
                k_ax = 'xyz'.index(ax)
                rpp[2 * k_ax], rpp[2 * k_ax + 1] = a, a + p
                pitches.append(p)
                hi_leaf = md.F(-rpp_id, 2 * k_ax + 1)
                lo_leaf = md.F(-rpp_id, 2 * k_ax + 2)
                if d(st.booleans()):
                    leaves += [hi_leaf, lo_leaf]
                else:
                    leaves += [lo_leaf, hi_leaf]
                    self.labels.add('lat:low-side-first')
                continue
            if skew:
                n = [float(v) for v in normals[q]]
            else:
                n = [0.0, 0.0, 0.0]
                n['xyz'.index(ax)] = 1.0
            # either card of a pair may be written with the opposite normal
            # (and any positive scale): same plane, opposite sense
            rev_lo = d(st.integers(0, 4)) == 0
            rev_hi = d(st.integers(0, 4)) == 0
            ids = []
            for rev, dd in ((rev_lo, a), (rev_hi, a + p)):
                if rev:
                    k_ = d(st.sampled_from([1.0, 2.0, 0.5]))
                    ids.append(self.add_surf(
                        'p', [-k_ * v for v in n] + [-k_ * dd]))
                    self.labels.add('lat:reversed-normal-card')
                elif skew:
                    ids.append(self.add_surf('p', n + [dd]))
                else:
                    ids.append(self.add_surf('p' + ax, [dd]))
            lo, hi = ids
            pitches.append(p)
            if not skew and d(st.integers(0, 5)) == 0:
                # a TR card that maps the plane onto itself (translation
                # within the plane): the lattice is unchanged
                k_ax = 'xyz'.index(ax)
                disp = [d(gen.coord(2.0)) for _ in range(3)]
                disp[k_ax] = 0.0
                self.trid += d(st.integers(1, 5))
                self.deck['transforms'].append(
                    {'id': self.trid,
                     'spec': md.trspec(disp, None, n_entries=3)})
                target = d(st.sampled_from([lo, hi]))
                for s_ in self.deck['surfaces']:
                    if s_['id'] == target:
                        s_['tr'] = self.trid
                self.labels.add('lat:plane-with-invariant-tr')
            lo_leaf = md.S(-lo if rev_lo else lo)
            hi_leaf = md.S(hi if rev_hi else -hi)
            if d(st.booleans()):
                leaves += [hi_leaf, lo_leaf]          # high side first
            else:
                leaves += [lo_leaf, hi_leaf]          # low side first
                self.labels.add('lat:low-side-first')
        if via_facets:
            for s_ in self.deck['surfaces']:
                if s_['id'] == rpp_id:
                    s_['params'] = [float(v) for v in rpp]
        expr = leaves[0] if len(leaves) == 1 else md.AND(*leaves)
        return self._finish_lattice(u, expr, pitches, ndim, force)

    def _finish_lattice(self, u, expr, pitches, ndim, force):
        d = self.draw
        expr = regroup(d, self.labels, expr)
        # sub-universes
        n_sub = d(st.integers(1, 2))
        subs = [self.universe(-1, min(pitches) * 0.9, allow_lattice=False)
                for _ in range(n_sub)]
        # ranges
        ranges = []
        for _ in range(ndim):
            lo = d(st.integers(-2, 1))
            hi = lo + d(st.integers(0, 2))
            ranges.append((lo, hi))
        pad = 0
        if ndim < 3 and d(st.booleans()):
            pad = d(st.integers(1, 3 - ndim))
            for _ in range(pad):
                # a dimension the lattice does not have can only be 0:0
                ranges.append((0, 0))
            self.labels.add('lat:padded-ranges')
        size = 1
        for lo, hi in ranges:
            size *= hi - lo + 1
        cid = self.new_cid()
        mat, rho = self.material()
        homogeneous = d(st.integers(0, 3)) == 0 or force.get('homogeneous') \
            or bool(self.opts.get('homogeneous'))
        if force.get('tr'):
            tr = self.transform_ref(min(pitches), allow_none=False,
                                    rot_classes=('generic', 'perm', 'flip',
                                                 'axis', 'small'))
        else:
            tr = self.transform_ref(min(pitches), rot_classes=None) \
                if d(st.integers(0, 2)) == 0 else None
        if not homogeneous and size > 1:
            # a transformation written after a FILL array belongs to its last
            # entry only (MCNP): the form is not generated for arrays
            tr = None
        if tr is not None:
            spec = tr['inline'] if 'inline' in tr else \
                [t for t in self.deck['transforms']
                 if t['id'] == tr['num']][0]['spec']
            rot = md.rigid_of(spec)
            if not np.allclose(rot.B, np.eye(3)):
                self.labels.add('lat+rotfill')
            else:
                self.labels.add('lat+transfill')
        if homogeneous:
            fill = {'u': subs[0], 'ranges': [list(r) for r in ranges],
                    'univs': None, 'tr': tr}
            if tr is None and mat != 0 and d(st.integers(0, 5)) == 0 and \
                    not force.get('homogeneous') and \
                    not self.opts.get('homogeneous'):
                # a lattice of the cell's own material: FILL=<own universe>,
                # or no FILL keyword at all (the README's first example)
                fill['u'] = u
                fill['implicit'] = d(st.booleans())
                self.labels.add('lat:own-material' +
                                (':no-fill-keyword' if fill['implicit']
                                 else ''))
            opt = '%d,' % cid + ','.join('%d:%d' % r for r in ranges)
            self.deck['lattice_opts'].append(opt)
            self.labels.add('lat:homogeneous')
        else:
            choices = subs + [0, u]
            univs = [d(st.sampled_from(choices + subs)) for _ in range(size)]
            if 0 in univs:
                self.labels.add('lat:universe-0')
            if u in univs:
                self.labels.add('lat:own-universe')
            fill = {'u': None, 'ranges': [list(r) for r in ranges],
                    'univs': univs, 'tr': tr}
            self.labels.add('lat:array')
        trcl = None
        if d(st.integers(0, 4)) == 0 and not force.get('no_trcl'):
            trcl = self.transform_ref(min(pitches), allow_none=False)
            self.labels.add('lat+trcl' if tr is None else 'lat+trcl+filltr')
        c = md.cell(cid, mat, rho, expr, imp={'n': 1}, u=u, fill=fill,
                    trcl=trcl, lat=1)
        self.deck['cells'].append(c)
        return c

    def _body_lattice_universe(self, u, scale, force):
        """LAT=1 cell bounded by one RPP or BOX macrobody (-b): the body
        stands for its six facets in facet order, so the three indices
        increase along +x, +y, +z (RPP) or along a1, a2, a3 (BOX)."""
        d = self.draw
        pitches = [d(gen.length(0.25 * scale, 0.6 * scale)) for _ in range(3)]
        org = [d(gen.coord(0.2 * scale)) for _ in range(3)]
        if d(st.booleans()):
            params = []
            for a, p in zip(org, pitches):
                params += [a, a + p]
            bid = self.add_surf('rpp', params)
            self.labels.add('lat:rpp-body')
        else:
            _cls, R = d(gen.rotation(('generic', 'axis', 'identity', 'perm',
                                      'flip')))
            R = np.array(R).reshape(3, 3)
            if np.linalg.det(R) < 0:
                R = -R
            params = [float(v) for v in org]
            for q in range(3):
                params += [float(v) for v in pitches[q] * R[q]]
            bid = self.add_surf('box', params)
            self.labels.add('lat:box-body')
        return self._finish_lattice(u, md.S(-bid), pitches, 3, force)

    # -- level 0 -----------------------------------------------------------
    def world(self, depth):
        d = self.draw
        W = 5.0
        world = self.add_surf('so', [W])
        # slabs along x split the world into 1-3 pieces
        n = d(st.integers(1, 3))
        cuts = sorted(set(d(st.integers(-20, 20)) / 10.0 for _ in range(n - 1)))
        planes = [self.add_surf('px', [a]) for a in cuts]
        pieces = []
        for i in range(len(planes) + 1):
            terms = [md.S(-world)]
            if i > 0:
                terms.append(md.S(planes[i - 1]))
            if i < len(planes):
                terms.append(md.S(-planes[i]))
            pieces.append(md.AND(*terms) if len(terms) > 1 else terms[0])
        for expr in pieces:
            self.make_cell(self.new_cid(), expr, 0, depth, 3.0, level0=True)
        # at least one container at level 0
        if not any(c.get('fill') for c in self.deck['cells']
                   if not c.get('u')):
            c0 = [c for c in self.deck['cells'] if not c.get('u')][0]
            sub = self.universe(max(depth - 1, 0), 2.4)
            c0['fill'] = {'u': sub, 'tr': self.transform_ref(3.0)}
            c0['mat'], c0['rho'] = 0, None
        gid = self.new_cid()
        self.deck['cells'].append(md.cell(gid, 0, None, md.S(world),
                                          imp={'n': 0}))
        self.box = W * 1.15


def _shrink_body(kind, p, scale):
    """Scale a generated macrobody to fit a frame of half-size ``scale``."""
    f = scale / 6.0
    k = kind.lower()
    q = list(p)
    if k == 'ell':
        q = [v * f for v in q]
        return q
    if k == 'arb':
        return [v * f if i < 24 else v for i, v in enumerate(q)]
    return [v * f for v in q]


def regroup(d, labels, expr):
    """Parentheses around runs of consecutive surfaces of a lattice cell
    card, ``-2 1 (-4 3)``: an intersection is associative and the order of the
    surfaces on the card, which defines the lattice axes, is unchanged."""
    if expr[0] != '&' or len(expr) < 4 or d(st.integers(0, 3)) != 0:
        return expr
    leaves = list(expr[1:])
    out = []
    q = 0
    grouped = False
    while q < len(leaves):
        n = d(st.integers(1, 3))
        grp = leaves[q:q + n]
        if len(grp) >= 2 and d(st.integers(0, 2)) != 0:
            out.append(md.AND(*grp))
            grouped = True
        else:
            out.extend(grp)
        q += n
    if not grouped:
        return expr
    labels.add('lat:parenthesised-groups')
    return md.AND(*out) if len(out) > 1 else out[0]


def _signed_leaves(expr):
    if expr is None:
        return []
    if expr[0] in ('s', 'f'):
        return [expr]
    if expr[0] == '#':
        return []
    out = []
    for sub in expr[1:]:
        out.extend(_signed_leaves(sub))
    return out


def universe_depth(deck):
    by_u = {}
    for c in deck['cells']:
        by_u.setdefault(c.get('u') or 0, []).append(c)

    def depth(u, seen=()):
        best = 0
        for c in by_u.get(u, []):
            f = c.get('fill')
            if not f:
                continue
            subs = [f['u']] if f.get('univs') is None else \
                [x for x in set(f['univs']) if x and x != u]
            for s in subs:
                if s in seen:
                    continue
                best = max(best, 1 + depth(s, seen + (u,)))
        return best
    return depth(0)


@st.composite
def hier_case(draw, tier='quick', opts=None):
    opts = dict(opts or {})
    b = Builder(draw, tier, opts)
    depth = draw(st.sampled_from([1, 1, 2, 2, 3] if tier == 'quick'
                                 else [1, 2, 2, 3, 3, 4]))
    if opts.get('max_depth'):
        depth = min(depth, opts['max_depth'])
    b.world(depth)
    deck = b.deck
    if opts.get('lattice') and draw(st.integers(0, 3)) == 0:
        # "#n" with n a lattice cell, used on a card of another universe: the
        # complement of the expression on card n (the [0,0,0] element), like
        # for any other cell.  A level-0 cell R is split into R #n and
        # R (expression of n)
        lat = [c for c in deck['cells'] if c.get('lat') and not c.get('trcl')
               and c.get('like') is None and c.get('u')]
        lvl0 = [c for c in deck['cells'] if not c.get('u')
                and not c.get('fill') and not c.get('trcl')
                and c.get('like') is None and c.get('mat')
                and not md.is_zero_importance(c.get('imp') or {'n': 1})]
        if lat and lvl0:
            n_ = draw(st.sampled_from(lat))
            r_ = draw(st.sampled_from(lvl0))
            mat, rho = b.material()
            inside = md.cell(b.new_cid(), mat, rho,
                             md.AND(r_['expr'], copy.deepcopy(n_['expr'])),
                             imp=dict(r_['imp']))
            r_['expr'] = md.AND(r_['expr'], md.CELLC(n_['id']))
            deck['cells'].append(inside)
            b.labels.add('complement-of-lattice-cell-from-level-0')
    # order of the cell cards is irrelevant to MCNP: shuffle sometimes
    if draw(st.integers(0, 3)) == 0:
        order = draw(st.permutations(list(range(len(deck['cells'])))))
        deck['cells'] = [deck['cells'][o] for o in order]
        b.labels.add('cells-shuffled')
    b.labels.add('depth:%d' % universe_depth(deck))
    extra_cards = draw(gen.unrelated_data_cards())
    if extra_cards:
        deck['extra_data'] = extra_cards
        b.labels.add('unrelated-data-cards')
    return {'deck': deck, 'labels': sorted(b.labels), 'tier': tier,
            'box': b.box, 'pseed': draw(st.integers(0, 2 ** 31 - 1))}


@st.composite
def periodic_case(draw, tier='quick'):
    """A level-0 container (no transformation) filled with a LAT=1 universe
    that is filled homogeneously with one universe through a fill
    transformation: the setting of the reference-free periodicity relation."""
    b = Builder(draw, tier, {'lattice': False})
    W = 5.0
    world = b.add_surf('so', [W])
    ul = b.new_uid()
    b.lattice_universe(ul, 0, 3.0, force={'homogeneous': True, 'tr': True,
                                          'no_trcl': True})
    b.deck['cells'].append(md.cell(b.new_cid(), 0, None, md.S(-world),
                                   imp={'n': 1}, fill={'u': ul, 'tr': None}))
    b.deck['cells'].append(md.cell(b.new_cid(), 0, None, md.S(world),
                                   imp={'n': 0}))
    b.labels.add('periodic-setting')
    return {'deck': b.deck, 'labels': sorted(b.labels), 'tier': tier,
            'box': W * 1.15, 'pseed': draw(st.integers(0, 2 ** 31 - 1))}


@st.composite
def facet_fill_case(draw, tier='quick'):
    """A container bounded by ONE facet of a macrobody (or by the whole
    body), filled - mostly without any transformation - with a universe whose
    cells are cut by facets of the same body: b.1, b.3 and b are three
    different things with one surface number."""
    from . import mgeom
    b = Builder(draw, tier, {'lattice': False})
    d = draw
    b.labels.add('facet-fill')
    mk = d(st.sampled_from(['rpp', 'rpp', 'box', 'rcc', 'wed', 'rhp9']))
    k_, p_, _lab = d(gen.macro_params(mk))
    p_ = _shrink_body(k_, p_, 4.0)
    bid = b.add_surf(k_, p_)
    nf = mgeom.n_facets(k_, p_)
    world = b.add_surf('so', [6.0])
    u = b.new_uid()

    def cut():
        how = d(st.sampled_from(['facet', 'facet', 'facet', 'body']))
        sg = d(st.sampled_from([1, -1]))
        if how == 'body':
            return md.S(sg * bid)
        return md.F(sg * bid, d(st.integers(1, nf)))
    bound = cut()
    if d(st.integers(0, 3)) == 0:
        bound = md.F(bound[1], d(st.integers(1, nf)))
    b.labels.add('facet-fill:container-' + ('facet' if bound[0] == 'f'
                                            else 'body'))
    inner = cut()
    if d(st.booleans()):
        # same sense as the bound of the container
        inner = [inner[0], abs(inner[1]) * (1 if bound[1] > 0 else -1)] \
            + list(inner[2:])
    if inner[0] == 'f' and bound[0] == 'f' and inner[2] != bound[2]:
        b.labels.add('facet-fill:two-facets-of-one-body')
    ma, mb, mc = b.material(), b.material(), b.material()
    extra = []
    if d(st.integers(0, 2)) == 0:
        extra = [md.S(d(st.sampled_from([1, -1]))
                      * b.add_surf(d(st.sampled_from(['px', 'py', 'pz'])),
                                   [d(gen.coord(1.0))]))]
    ua = [md.S(-world), inner] + extra
    if d(st.booleans()):
        ua = ua[::-1]
    cells_u = [md.cell(b.new_cid(), ma[0], ma[1], md.AND(*ua), imp={'n': 1},
                       u=u),
               md.cell(b.new_cid(), mb[0], mb[1],
                       md.AND(md.S(-world), gen.push_not(md.AND(
                           inner, *extra), True)), imp={'n': 1}, u=u),
               md.cell(b.new_cid(), 0, None, md.S(world), imp={'n': 1}, u=u)]
    tr = None
    if d(st.integers(0, 3)) == 0:
        tr = b.transform_ref(3.0)
    cont = md.cell(b.new_cid(), 0, None, bound, imp={'n': 1},
                   fill={'u': u, 'tr': tr})
    other = gen.push_not(bound, True)
    rest = md.cell(b.new_cid(), mc[0], mc[1], md.AND(other, md.S(-world)),
                   imp={'n': 1})
    gy = md.cell(b.new_cid(), 0, None, md.AND(other, md.S(world)),
                 imp={'n': 0})
    cards = cells_u + [cont, rest, gy]
    if d(st.booleans()):
        cards = [cards[o] for o in d(st.permutations(list(range(len(cards)))))]
    b.deck['cells'] = cards
    return {'deck': b.deck, 'labels': sorted(b.labels), 'tier': tier,
            'box': 6.9, 'pseed': draw(st.integers(0, 2 ** 31 - 1))}


@st.composite
def twin_fill_case(draw, tier='quick', mirrors=False):
    """One universe placed in 2-3 level-0 containers by fill transformations
    that share their displacement and are related matrix-wise (equal, turned
    about one axis, or - with ``mirrors`` - composed with a reflection
    diag(+-1, +-1, +-1)).  A reflection is read as written (the universe
    appears mirrored: a = B (p - o) with an improper B); the converter keeps
    the handedness of a matrix on purpose (adjust_matrix).  Used with
    ``mirrors`` by C13, C08, C18 and, since the mirrored reading proved quiet
    on the unchanged tree, by C05."""
    b = Builder(draw, tier, {'lattice': False})
    d = draw
    W = 5.0
    world = b.add_surf('so', [W])
    u = b.universe(d(st.sampled_from([0, 0, 1])), 2.4, allow_lattice=False)
    n = d(st.integers(2, 3))
    cuts = sorted(d(st.sampled_from([(-1.0,), (0.5,), (-1.5, 1.0),
                                     (-0.5, 1.5)])))[:n - 1]
    if len(cuts) < n - 1:
        n = len(cuts) + 1
    planes = [b.add_surf('px', [a]) for a in cuts]
    o = [d(gen.coord(1.0)) for _ in range(3)]
    cls0, R0 = d(gen.rotation(('identity', 'identity', 'axis', 'perm',
                               'generic')))
    R0 = np.array(R0).reshape(3, 3)
    b.labels.add('twin-fill')
    # 'one-axis': the copies differ by the sign of one axis only (a universe
    # and its mirror image side by side)
    pair_mode = d(st.sampled_from(['free', 'free', 'one-axis'])) if mirrors \
        else 'free'
    mirror_axis = d(st.integers(0, 2))
    if pair_mode == 'one-axis':
        b.labels.add('twin-fill:one-axis-mirror')
    for i in range(n):
        terms = [md.S(-world)]
        if i > 0:
            terms.append(md.S(planes[i - 1]))
        if i < len(planes):
            terms.append(md.S(-planes[i]))
        expr = md.AND(*terms) if len(terms) > 1 else terms[0]
        if pair_mode == 'one-axis':
            diag = [1.0, 1.0, 1.0]
            diag[mirror_axis] = 1.0 if i % 2 == 0 else -1.0
            D = np.diag(diag)
        elif mirrors:
            D = np.diag([float(d(st.sampled_from([1, 1, -1])))
                         for _ in range(3)])
        else:
            D = np.eye(3)
        how = 'same' if pair_mode == 'one-axis' else \
            d(st.sampled_from(['same', 'same', 'turned']))
        R = R0
        if how == 'turned':
            _c, Rt = d(gen.rotation(('axis', 'small')))
            R = np.array(Rt).reshape(3, 3) @ R0
            b.labels.add('twin-fill:turned')
        M = R @ D if d(st.booleans()) else D @ R
        if np.linalg.det(M) < 0:
            b.labels.add('mirror')
        spec = md.trspec(o, [float(v) for v in M.reshape(9)], n_entries=12)
        b.deck['cells'].append(md.cell(b.new_cid(), 0, None, expr,
                                       imp={'n': 1},
                                       fill={'u': u, 'tr': {'inline': spec}}))
    b.deck['cells'].append(md.cell(b.new_cid(), 0, None, md.S(world),
                                   imp={'n': 0}))
    if d(st.booleans()):
        level0 = [c for c in b.deck['cells'] if not c.get('u')]
        others = [c for c in b.deck['cells'] if c.get('u')]
        level0.reverse()
        b.deck['cells'] = level0 + others if d(st.booleans()) \
            else others + level0
    return {'deck': b.deck, 'labels': sorted(b.labels), 'tier': tier,
            'box': W * 1.15, 'pseed': draw(st.integers(0, 2 ** 31 - 1))}


@st.composite
def neg_universe_case(draw, tier='quick'):
    """A universe one of whose cells is declared with a negative universe
    number (u=-n: "not cut by the boundary of the filled cell").  The hint is
    only legal when true, so that cell is a small sphere about the origin of
    the universe and every container is a larger sphere about the point where
    the fill transformation puts that origin."""
    b = Builder(draw, tier, {'lattice': False})
    d = draw
    world = b.add_surf('so', [6.0])
    u = b.new_uid()
    r_in = d(st.sampled_from([0.5, 0.7, 0.9]))
    s_in = b.add_surf('so', [r_in])
    extra = b.add_surf(d(st.sampled_from(['px', 'py', 'pz'])), [0.0])
    ca, cb, cc = b.new_cid(), b.new_cid(), b.new_cid()
    ma, mb, mc = b.material(), b.material(), b.material()
    neg_which = d(st.sampled_from(['inner', 'inner', 'all']))
    cells_u = [md.cell(ca, ma[0], ma[1], md.S(-s_in), imp={'n': 1}, u=u),
               md.cell(cb, mb[0], mb[1], md.AND(md.S(s_in), md.S(extra)),
                       imp={'n': 1}, u=u),
               md.cell(cc, mc[0], mc[1], md.AND(md.S(s_in), md.S(-extra)),
                       imp={'n': 1}, u=u)]
    cells_u[0]['u_neg'] = True
    b.labels.add('negative-universe')
    n = d(st.integers(1, 2))
    centres = [[-2.5, 0.0, 0.0], [2.5, 0.5, 0.0]][:n]
    if n == 1 and d(st.booleans()):
        centres = [[0.0, 0.0, 0.0]]
    conts = []
    for ck in centres:
        sc = b.add_surf('s', [float(v) for v in ck] + [1.8])
        tr = None
        if any(ck):
            tr = {'inline': md.trspec(ck, None, n_entries=3)}
        elif d(st.booleans()):
            tr = {'inline': md.trspec(ck, None, n_entries=3)}
        conts.append((sc, md.cell(b.new_cid(), 0, None, md.S(-sc),
                                  imp={'n': 1}, fill={'u': u, 'tr': tr})))
    rest = md.cell(b.new_cid(), 0, None,
                   md.AND(md.S(-world), *[md.S(sc) for sc, _c in conts]),
                   imp={'n': 1})
    gy = md.cell(b.new_cid(), 0, None, md.S(world), imp={'n': 0})
    cards = cells_u + [c for _s, c in conts] + [rest, gy]
    if d(st.booleans()):
        cards = [cards[o] for o in d(st.permutations(list(range(len(cards)))))]
    b.deck['cells'] = cards
    return {'deck': b.deck, 'labels': sorted(b.labels), 'tier': tier,
            'box': 6.9, 'pseed': draw(st.integers(0, 2 ** 31 - 1))}


# --------------------------------------------------------------------------
# hexagonal lattices (LAT=2)
# --------------------------------------------------------------------------

def _hex_vertices(draw, regular):
    r = draw(gen.length(0.5, 1.2))
    th0 = math.radians(draw(st.integers(0, 359)))
    if not regular and draw(st.integers(0, 3)) == 0:
        # a flattened hexagon ("staggered bricks"): a rectangle 2w x 2h whose
        # short sides are broken outwards by bulge * h; the two halves of a
        # broken side are adjacent sides that are nearly collinear
        w_ = r * draw(st.sampled_from([0.7, 1.0, 1.4]))
        h_ = r * draw(st.sampled_from([0.5, 0.8, 1.0]))
        bulge = draw(st.sampled_from([0.015, 0.02, 0.05, 0.1, 0.3]))
        base = [np.array([w_, -h_]), np.array([w_ + bulge * h_, 0.0]),
                np.array([w_, h_])]
        shift = draw(st.integers(0, 2))
        ringf = base + [-v for v in base]
        c_, s_ = math.cos(th0), math.sin(th0)
        return [np.array([c_ * v[0] - s_ * v[1], s_ * v[0] + c_ * v[1]])
                for v in ringf[shift:shift + 3]]
    if regular:
        ang = [th0 + k * math.pi / 3 for k in range(3)]
        rad = [r, r, r]
    else:
        ang = [th0 + k * math.pi / 3
               + math.radians(draw(st.integers(-12, 12))) for k in range(3)]
        rad = [r * draw(st.sampled_from([1.0, 0.85, 1.15, 0.9, 1.1]))
               for _ in range(3)]
    vs = [np.array([rr * math.cos(a), rr * math.sin(a)])
          for a, rr in zip(ang, rad)]
    ring = vs + [-v for v in vs]
    # convexity of the ring v0 v1 v2 -v0 -v1 -v2
    for k in range(6):
        e1 = ring[(k + 1) % 6] - ring[k]
        e2 = ring[(k + 2) % 6] - ring[(k + 1) % 6]
        if e1[0] * e2[1] - e1[1] * e2[0] <= 1e-3 * r * r:
            return None
    return vs


def hex_lattice_universe(b, u, scale, force=None):
    """Append a LAT=2 universe to builder ``b``."""
    d = b.draw
    force = force or {}
    b.labels.add('hex-lattice')
    regular = d(st.booleans())
    vs = _hex_vertices(d, regular)
    if vs is None:
        regular = True
        vs = _hex_vertices(d, True)
    b.labels.add('hex:regular' if regular else 'hex:irregular')
    ring_ = vs + [-v for v in vs]
    for k in range(6):
        ea = ring_[(k + 1) % 6] - ring_[k]
        eb = ring_[(k + 2) % 6] - ring_[(k + 1) % 6]
        cosang = float(ea @ eb) / float(np.linalg.norm(ea)
                                        * np.linalg.norm(eb))
        if cosang > math.cos(math.radians(8.0)):
            b.labels.add('hex:nearly-collinear-adjacent-sides')
    cls, R = d(gen.rotation(('identity', 'generic', 'axis', 'perm', 'flip')))
    R = np.array(R).reshape(3, 3)
    if cls != 'identity':
        b.labels.add('hex:tilted')
    e1, e2, e3 = R
    ring2 = vs + [-v for v in vs]
    ring = [x * e1 + y * e2 for x, y in ring2]
    # The hexagon is drawn in the plane of the axial caps (normal e3).  With
    # eight planes the lattice translations a1, a2 must lie in that plane
    # (neighbouring elements share the caps) whatever the prism axis is; with
    # six planes and an oblique axis their component along the axis would be
    # conventional (DESIGN 4.3), so the axis is then kept orthogonal.
    via_body = (not force.get('no_body')) and d(st.integers(0, 3)) == 0
    three_d = via_body or d(st.booleans())
    oblique = three_d and (not via_body) and d(st.integers(0, 2)) == 0
    w = e3.copy()
    if oblique:
        w = e3 + d(st.sampled_from([0.2, -0.3])) * e1 \
            + d(st.sampled_from([0.0, 0.25])) * e2
        w = w / np.linalg.norm(w)
        b.labels.add('hex:oblique-axis')
    centre = np.array([d(gen.coord(0.3)) for _ in range(3)])
    trans = [ring[k] + ring[(k + 1) % 6] for k in range(6)]
    if via_body:
        return _rhp_hex_cell(b, u, force, regular, ring, e3, centre)
    # side planes, outward normals
    planes = []
    for k in range(6):
        n = np.cross(ring[(k + 1) % 6] - ring[k], w)
        if n @ ring[k] < 0:
            n = -n
        n = n / np.linalg.norm(n)
        dd = float(n @ (centre + ring[k]))
        flip = d(st.integers(0, 4)) == 0
        if flip:
            sid = b.add_surf('p', [float(-t) for t in n] + [-dd])
            planes.append(md.S(sid))        # cell on the positive side
        else:
            sid = b.add_surf('p', [float(t) for t in n] + [dd])
            planes.append(md.S(-sid))
        if d(st.integers(0, 4)) == 0:
            # a TR card that maps the plane onto itself: translation along
            # the prism axis and/or along the side
            edge = ring[(k + 1) % 6] - ring[k]
            tvec = w * d(gen.coord(3.0)) + edge * d(st.sampled_from(
                [0.0, 0.0, 0.5, -1.0]))
            b.trid += d(st.integers(1, 5))
            b.deck['transforms'].append(
                {'id': b.trid, 'spec': md.trspec([float(t) for t in tvec],
                                                 None, n_entries=3)})
            b.deck['surfaces'][-1]['tr'] = b.trid
            b.labels.add('hex:plane-with-invariant-tr')
    k1 = d(st.integers(0, 5))
    step = d(st.sampled_from([1, -1, 2, -2]))
    k2 = (k1 + step) % 6
    b.labels.add('hex:adjacent' if abs(step) == 1 else 'hex:next-adjacent')
    rest = [k for k in range(6) if k % 3 not in (k1 % 3, k2 % 3)]
    if d(st.booleans()):
        rest = rest[::-1]
        b.labels.add('hex:last-pair-swapped')
    order = [k1, (k1 + 3) % 6, k2, (k2 + 3) % 6] + rest
    leaves = [planes[k] for k in order]
    a1, a2 = trans[k1], trans[k2]
    a3 = None
    if three_d:
        b.labels.add('hex:3d')
        m = e3.copy()
        h = d(gen.length(0.6, 1.5))
        z0 = d(gen.coord(0.3))
        d_bot = float(m @ centre) + z0
        d_top = d_bot + h
        top = b.add_surf('p', [float(t) for t in m] + [d_top])
        bot = b.add_surf('p', [float(t) for t in m] + [d_bot])
        leaves += [md.S(-top), md.S(bot)]
        a3 = w * (h / float(m @ w))
    return _finish_hex(b, u, force, md.AND(*leaves), three_d, a1, a2, a3, w,
                       centre)


def _finish_hex(b, u, force, expr, three_d, a1, a2, a3, w, centre):
    d = b.draw
    expr = regroup(d, b.labels, expr)
    ndim = 3 if three_d else 2
    size_scale = float(min(np.linalg.norm(a1), np.linalg.norm(a2))) * 0.45
    n_sub = d(st.integers(1, 2))
    subs = [b.universe(-1, size_scale * 2.0, allow_lattice=False)
            for _ in range(n_sub)]
    ranges = []
    for _ in range(ndim):
        lo = d(st.integers(-2, 1))
        hi = lo + d(st.integers(0, 2))
        ranges.append((lo, hi))
    if ndim == 2 and d(st.booleans()):
        ranges.append((0, 0))
        b.labels.add('lat:padded-ranges')
    size = 1
    for lo, hi in ranges:
        size *= hi - lo + 1
    cid = b.new_cid()
    mat, rho = b.material()
    homogeneous = d(st.integers(0, 3)) == 0 or force.get('homogeneous')
    tr = None
    if force.get('tr') or d(st.integers(0, 3)) == 0:
        tr = b.transform_ref(size_scale, allow_none=False)
        if not homogeneous and size > 1:
            tr = None       # see lattice_universe
        else:
            b.labels.add('hex+filltr')
    if homogeneous:
        fill = {'u': subs[0], 'ranges': [list(r) for r in ranges],
                'univs': None, 'tr': tr}
        b.deck['lattice_opts'].append(
            '%d,' % cid + ','.join('%d:%d' % r for r in ranges))
        b.labels.add('lat:homogeneous')
    else:
        choices = subs + subs + [0, u]
        univs = [d(st.sampled_from(choices)) for _ in range(size)]
        if 0 in univs:
            b.labels.add('lat:universe-0')
        if u in univs:
            b.labels.add('lat:own-universe')
        fill = {'u': None, 'ranges': [list(r) for r in ranges],
                'univs': univs, 'tr': tr}
        b.labels.add('lat:array')
    c = md.cell(cid, mat, rho, expr, imp={'n': 1}, u=u, fill=fill, lat=2)
    c['hex'] = {'a1': [float(t) for t in a1], 'a2': [float(t) for t in a2],
                'a3': None if a3 is None else [float(t) for t in a3],
                'axis': [float(t) for t in w],
                'centre': [float(t) for t in centre]}
    b.deck['cells'].append(c)
    return c


def _rhp_hex_cell(b, u, force, regular, ring, e3, centre):
    """LAT=2 cell bounded by one RHP / HEX macrobody (-b): the body stands
    for its eight facets in facet order (+r, -r, +s, -s, +t, -t, top, base),
    so a1 crosses the +r facet, a2 the +s facet and a3 the top."""
    d = b.draw
    h = d(gen.length(0.6, 1.5))
    z0 = d(gen.coord(0.3))
    base = centre + z0 * e3
    mnem = d(st.sampled_from(['rhp', 'hex']))
    trans = [ring[k] + ring[(k + 1) % 6] for k in range(6)]
    feet = []
    for k in range(6):
        n = np.cross(ring[(k + 1) % 6] - ring[k], e3)
        if n @ ring[k] < 0:
            n = -n
        n = n / np.linalg.norm(n)
        feet.append(n * float(n @ ring[k]))
    if regular and d(st.booleans()):
        # nine entries: s and t are r turned by 60 and 120 degrees about h
        k1 = d(st.integers(0, 5))
        r1 = feet[k1]
        r2 = mgeom._rot_about(r1, e3, math.pi / 3.)
        k2 = min(range(6), key=lambda k: float(np.linalg.norm(feet[k] - r2)))
        params = list(base) + list(h * e3) + list(r1)
        b.labels.add('hex:rhp-9')
    else:
        k1 = d(st.integers(0, 5))
        step = d(st.sampled_from([1, -1, 2, -2]))
        k2 = (k1 + step) % 6
        k3 = [k for k in range(6) if k % 3 not in (k1 % 3, k2 % 3)]
        k3 = k3[d(st.integers(0, 1))]
        params = list(base) + list(h * e3) + list(feet[k1]) + \
            list(feet[k2]) + list(feet[k3])
        b.labels.add('hex:rhp-15')
        b.labels.add('hex:adjacent' if abs(step) == 1 else 'hex:next-adjacent')
    bid = b.add_surf(mnem, [float(t) for t in params])
    b.labels.add('hex:body')
    b.labels.add('hex:3d')
    return _finish_hex(b, u, force, md.S(-bid), True, trans[k1], trans[k2],
                       h * e3, e3.copy(), base + 0.5 * h * e3)


@st.composite
def hex_case(draw, tier='quick', periodic=False):
    b = Builder(draw, tier, {'lattice': False})
    W = 5.0
    world = b.add_surf('so', [W])
    ul = b.new_uid()
    if periodic:
        hex_lattice_universe(b, ul, 3.0, force={'homogeneous': True,
                                                'tr': True})
        b.labels.add('periodic-setting')
        tr = None
    else:
        hex_lattice_universe(b, ul, 3.0)
        tr = b.transform_ref(3.0) if draw(st.booleans()) else None
    cont = md.cell(b.new_cid(), 0, None, md.S(-world), imp={'n': 1},
                   fill={'u': ul, 'tr': tr})
    if not periodic and draw(st.integers(0, 3)) == 0:
        cont['trcl'] = b.transform_ref(3.0, allow_none=False)
        b.labels.add('container-trcl')
    b.deck['cells'].append(cont)
    b.deck['cells'].append(md.cell(b.new_cid(), 0, None, md.S(world),
                                   imp={'n': 0}))
    return {'deck': b.deck, 'labels': sorted(b.labels), 'tier': tier,
            'box': W * 1.15, 'pseed': draw(st.integers(0, 2 ** 31 - 1))}


# --------------------------------------------------------------------------
# post-processing of a generated deck: duplicates, unused and flagged surfaces
# --------------------------------------------------------------------------

def _map_leaves(expr, fn):
    op = expr[0]
    if op == 's':
        return md.S(fn(expr[1]))
    if op == 'f':
        return md.F(fn(expr[1]), expr[2])
    if op == '#':
        return expr
    return [op] + [_map_leaves(k, fn) for k in expr[1:]]


def used_surface_ids(deck):
    used = set()

    def walk(expr):
        if expr[0] in ('s', 'f'):
            used.add(abs(expr[1]))
        elif expr[0] != '#':
            for k in expr[1:]:
                walk(k)
    for c in deck['cells']:
        if c.get('like') is None:
            walk(c['expr'])
    return used


@st.composite
def decorate(draw, case, dup=True, unused=True, bc=False, small_ids=True):
    """Add duplicate surfaces (same card under another id, references
    re-pointed at random), unused surfaces and boundary-condition flags."""
    deck = case['deck']
    labels = set(case['labels'])
    ids = [s['id'] for s in deck['surfaces']]
    free_small = [i for i in range(1, max(ids) + 1) if i not in ids]
    next_id = max(ids)
    lat_ids = set()
    for c in deck['cells']:
        if c.get('lat'):
            lat_ids |= used_surface_ids({'cells': [c]})
    if dup and draw(st.integers(0, 2)) != 0:
        n = draw(st.integers(1, 3))
        for _ in range(n):
            src = draw(st.sampled_from(deck['surfaces']))
            if src['id'] in lat_ids:
                continue
            if small_ids and free_small and draw(st.booleans()):
                new_id = free_small.pop(draw(st.integers(0, len(free_small) - 1)))
                labels.add('dup-surface:smaller-id')
            else:
                next_id += draw(st.integers(1, 5))
                new_id = next_id
                labels.add('dup-surface:larger-id')
            cp = dict(src)
            cp['id'] = new_id
            cp['bc'] = ''
            deck['surfaces'].append(cp)
            sid = src['id']
            coin = [draw(st.booleans()) for _ in range(8)]
            state = {'k': 0}

            def fn(n_, sid=sid, new_id=new_id, coin=coin, state=state):
                if abs(n_) != sid:
                    return n_
                state['k'] += 1
                if coin[state['k'] % len(coin)]:
                    return new_id if n_ > 0 else -new_id
                return n_
            for c in deck['cells']:
                if c.get('like') is None and not c.get('lat'):
                    c['expr'] = _map_leaves(c['expr'], fn)
    if unused and draw(st.integers(0, 2)) == 0:
        for _ in range(draw(st.integers(1, 2))):
            next_id += draw(st.integers(1, 5))
            k, p, _l = draw(gen.elementary_params(
                draw(st.sampled_from(['px', 'so', 'c/z', 'p', 'kz']))))
            deck['surfaces'].append(md.surf(next_id, k, p))
            labels.add('unused-surface')
    if bc:
        from . import mgeom
        cands = [s for s in deck['surfaces']
                 if s['kind'].lower() not in mgeom.MACRO_KINDS]
        for s in cands:
            if draw(st.integers(0, 3)) == 0:
                s['bc'] = draw(st.sampled_from(['*', '+']))
                labels.add('bc:' + s['bc'])
    deck['surfaces'].sort(key=lambda s: s['id'])
    out = dict(case)
    out['labels'] = sorted(labels)
    return out


@st.composite
def prune_case(draw, tier='quick'):
    """Decks biased toward pruning interactions (C08): containers without a
    fill transformation whose fillers contain patently empty cells, unions of
    empty pieces and cells that are empty only inside their container."""
    b = Builder(draw, tier, {'lattice': False})
    d = draw
    W = 5.0
    world = b.add_surf('so', [W])
    cut = b.add_surf('px', [d(st.integers(-10, 10)) / 10.0])
    u = b.new_uid()
    plain = [b.add_surf('p' + d(st.sampled_from('xyz')),
                        [d(st.integers(-15, 15)) / 10.0])
             for _ in range(d(st.integers(1, 3)))]
    plain.append(b.add_surf('so', [d(gen.length(0.5, 2.0))]))
    n = d(st.integers(2, 4))
    cids = [b.new_cid() for _ in range(n + 1)]
    regions = []
    for i in range(n):
        kind = d(st.sampled_from(['empty', 'union-of-empties', 'empty-or-region',
                                  'region', 'region', 'far']))
        s0 = d(st.sampled_from(plain))
        s1 = d(st.sampled_from(plain))
        reg = md.S(d(st.sampled_from([1, -1])) * d(st.sampled_from(plain)))
        if kind == 'empty':
            regions.append(md.AND(md.S(s0), md.S(-s0)))
            b.labels.add('patently-empty-cell')
        elif kind == 'union-of-empties':
            regions.append(md.OR(md.AND(md.S(s0), md.S(-s0)),
                                 md.AND(md.S(-s1), md.S(s1))))
            b.labels.add('union-of-empties')
        elif kind == 'empty-or-region':
            regions.append(md.OR(md.AND(md.S(s0), md.S(-s0)), reg))
            b.labels.add('patently-empty-piece')
        elif kind == 'far':
            far = b.add_surf('s', [30.0, 0.0, 0.0, 1.0])
            regions.append(md.S(-far))
            b.labels.add('empty-inside-container')
        else:
            regions.append(reg)
    for i in range(n + 1):
        terms = [regions[i]] if i < n else []
        for j in range(min(i, n)):
            terms.append(md.CELLC(cids[j]) if d(st.booleans())
                         else md.NOT(regions[j]))
        expr = terms[0] if len(terms) == 1 else md.AND(*terms)
        mat, rho = b.material()
        b.deck['cells'].append(md.cell(cids[i], mat, rho, expr, imp={'n': 1},
                                       u=u))
    for sgn in (-1, 1):
        tr = None
        if d(st.integers(0, 3)) == 0:
            tr = b.transform_ref(3.0, allow_none=False)
        b.deck['cells'].append(
            md.cell(b.new_cid(), 0, None, md.AND(md.S(-world), md.S(sgn * cut)),
                    imp={'n': 1}, fill={'u': u, 'tr': tr}))
    b.deck['cells'].append(md.cell(b.new_cid(), 0, None, md.S(world),
                                   imp={'n': 0}))
    b.labels.add('prune-setting')
    return {'deck': b.deck, 'labels': sorted(b.labels), 'tier': tier,
            'box': W * 1.15, 'pseed': draw(st.integers(0, 2 ** 31 - 1))}


# --------------------------------------------------------------------------
# LIKE n BUT
# --------------------------------------------------------------------------

@st.composite
def like_case(draw, tier='quick'):
    """Level-0 deck with a base cell (optionally a container) and a chain of
    LIKE n BUT cells overriding subsets of {mat, rho, trcl, fill, imp, u}."""
    b = Builder(draw, tier, {'lattice': False})
    d = draw
    W = 9.0
    world = b.add_surf('so', [W])
    # a universe (or two) for containers
    u1 = b.universe(0, 1.2, allow_lattice=False)
    u2 = b.universe(0, 1.2, allow_lattice=False)
    # base cell: a small body at the origin
    body = d(st.sampled_from(['so', 'rpp', 'cz-slab']))
    if body == 'so':
        expr = md.S(-b.add_surf('so', [d(gen.length(0.6, 1.1))]))
    elif body == 'rpp':
        h = d(gen.length(0.5, 1.0))
        expr = md.S(-b.add_surf('rpp', [-h, h, -h, h, -h, h]))
    else:
        cyl = b.add_surf('cz', [d(gen.length(0.5, 1.0))])
        p1 = b.add_surf('pz', [-0.8])
        p2 = b.add_surf('pz', [0.8])
        expr = md.AND(md.S(-cyl), md.S(p1), md.S(-p2))
    base_is_container = d(st.integers(0, 2)) == 0
    base_id = b.new_cid()
    if base_is_container:
        base = md.cell(base_id, 0, None, expr, imp={'n': 1},
                       fill={'u': u1, 'tr': b.transform_ref(1.2)})
        b.labels.add('like:base-container')
    else:
        mat, rho = b.material()
        base = md.cell(base_id, mat, rho, expr, imp={'n': 1})
        if d(st.integers(0, 2)) == 0:
            base['trcl'] = {'inline': md.trspec([0.0, d(st.sampled_from(
                [2.5, -2.5])), 0.0], None, n_entries=3)}
    cells = [base]
    prev = base
    n_like = d(st.integers(1, 3))
    for k in range(1, n_like + 1):
        lid = b.new_cid()
        ref = prev if d(st.booleans()) else base
        but = {}
        # always move the copy so that cells do not overlap
        dx = 2.6 * k * d(st.sampled_from([1.0, -1.0]))
        if d(st.integers(0, 3)) == 0:
            spec, _lab = d(gen.tr_spec(allow_abbrev=False, allow_13=False,
                                       translation_only_weight=0))
            spec['o'] = [dx, 0.0, d(st.sampled_from([0.0, 2.6, -2.6]))]
            but['trcl'] = {'inline': spec}
            b.labels.add('like:trcl-rot')
        else:
            but['trcl'] = {'inline': md.trspec(
                [dx, 0.0, d(st.sampled_from([0.0, 2.6, -2.6]))], None,
                n_entries=3)}
        eff = md.expand_like({'cells': cells + [dict(md.cell(
            lid, 0, None, None), like={'base': ref['id'], 'but': {}})]}
        )['cells'][-1]
        if eff.get('fill') is None:
            hows = ['mat+rho', 'mat+rho', 'rho', 'rho', 'none', 'void']
            ref_but = (ref.get('like') or {}).get('but') or {}
            if 'rho' in ref_but and eff['mat'] != 0:
                # a chain: the copied cell overrides RHO itself, the copy of
                # the copy is void whatever density the chain carries
                hows += ['void', 'void', 'void']
            how = d(st.sampled_from(hows))
            if how == 'void' and eff['mat'] != 0:
                # MAT=0: the copy of a cell with a material is void
                but['mat'] = 0
                b.labels.add('like:mat=0')
                if 'rho' in ref_but:
                    b.labels.add('like:mat=0-after-rho-in-chain')
            if how == 'mat+rho' or (how == 'rho' and eff['mat'] == 0):
                m, rho = b.material()
                if m != 0:
                    but['mat'] = m
                    but['rho'] = rho
                    b.labels.add('like:mat+rho')
            elif how == 'rho':
                _m, rho = b.material()
                if rho is not None and not (eff['mat'] == 3
                                            and not rho.startswith('-')):
                    but['rho'] = rho
                    b.labels.add('like:rho')
        else:
            if d(st.booleans()):
                but['fill'] = {'u': d(st.sampled_from([u1, u2])),
                               'tr': b.transform_ref(1.2)}
                b.labels.add('like:fill')
        if d(st.integers(0, 5)) == 0:
            but['imp'] = {'n': d(st.sampled_from([2, 0]))}
            b.labels.add('like:imp')
        lc = md.cell(lid, 0, None, None, like={'base': ref['id'], 'but': but})
        lc['expr'] = None
        cells.append(lc)
        if ref is prev and prev is not base:
            b.labels.add('like:chain')
        prev = lc
    # background and graveyard
    bg_terms = [md.S(-world)] + [md.CELLC(c['id']) for c in cells]
    mat, rho = b.material()
    bg = md.cell(b.new_cid(), mat, rho, md.AND(*bg_terms), imp={'n': 1})
    gy = md.cell(b.new_cid(), 0, None, md.S(world), imp={'n': 0})
    allc = cells + [bg, gy]
    if d(st.booleans()):
        # LIKE cells may refer to cells that come later in the deck
        order = d(st.permutations(list(range(len(allc)))))
        allc = [allc[o] for o in order]
        b.labels.add('like:forward-reference')
    b.deck['cells'] = [c for c in b.deck['cells']] + allc
    b.labels.add('like')
    b.labels.add('like:n=%d' % n_like)
    return {'deck': b.deck, 'labels': sorted(b.labels), 'tier': tier,
            'box': W * 1.1, 'pseed': draw(st.integers(0, 2 ** 31 - 1))}
