"""Independent TRIPOLI-4 point-membership evaluator (DESIGN 3.4 / 4.1).

Surface function g; a volume's PLUS list requires g > 0, MINUS g < 0; UNION
adds the listed volumes, INTE intersects with them.  Vectorised over an
(N, 3) array of points.  Shares no code with the repository.
"""
import math

import numpy as np

REL_TOL = 1e-6


class EvalError(Exception):
    pass


def _axis_split(typ):
    ax = {'X': 0, 'Y': 1, 'Z': 2}[typ[-1]]
    others = [k for k in range(3) if k != ax]
    return ax, others


def surf_value(surf, P):
    """Return (g, scale) arrays for surface ``surf`` at points ``P``."""
    if surf.params is None:
        raise EvalError('surface %d has unparsable parameters' % surf.id)
    P = np.asarray(P, dtype=float)
    if surf.transform is not None:
        t, m = surf.transform
        M = np.array(m, dtype=float).reshape(3, 3)
        # surface' = { M q + t } so g'(p) = g(M^T (p - t))
        P = (P - np.array(t, dtype=float)) @ M
    x, y, z = P[:, 0], P[:, 1], P[:, 2]
    p = surf.params
    typ = surf.type
    p2 = x * x + y * y + z * z
    if typ in ('PLANEX', 'PLANEY', 'PLANEZ'):
        ax, _ = _axis_split(typ)
        g = P[:, ax] - p[0]
        s = np.abs(P[:, ax]) + abs(p[0])
        return g, s
    if typ == 'PLANE':
        a, b, c, d = p
        g = a * x + b * y + c * z + d
        s = np.abs(a * x) + np.abs(b * y) + np.abs(c * z) + abs(d)
        return g, s
    if typ == 'SPHERE':
        x0, y0, z0, r = p
        g = (x - x0) ** 2 + (y - y0) ** 2 + (z - z0) ** 2 - r * r
        s = p2 + x0 * x0 + y0 * y0 + z0 * z0 + r * r
        return g, s
    if typ in ('CYLX', 'CYLY', 'CYLZ'):
        ax, (i, j) = _axis_split(typ)
        a0, b0, r = p
        g = (P[:, i] - a0) ** 2 + (P[:, j] - b0) ** 2 - r * r
        s = P[:, i] ** 2 + P[:, j] ** 2 + a0 * a0 + b0 * b0 + r * r
        return g, s
    if typ == 'CYL':
        x0, y0, z0, r, ux, uy, uz = p
        u = np.array([ux, uy, uz], dtype=float)
        nu = np.linalg.norm(u)
        if nu == 0:
            raise EvalError('CYL %d with null axis' % surf.id)
        u = u / nu
        D = P - np.array([x0, y0, z0])
        ax = D @ u
        rad2 = np.sum(D * D, axis=1) - ax * ax
        g = rad2 - r * r
        s = p2 + x0 * x0 + y0 * y0 + z0 * z0 + r * r
        return g, s
    if typ in ('CONEX', 'CONEY', 'CONEZ', 'CONE'):
        x0, y0, z0, theta = p[:4]
        if typ == 'CONE':
            u = np.array(p[4:7], dtype=float)
            nu = np.linalg.norm(u)
            if nu == 0:
                raise EvalError('CONE %d with null axis' % surf.id)
            u = u / nu
        else:
            ax, _ = _axis_split(typ)
            u = np.zeros(3)
            u[ax] = 1.0
        t2 = math.tan(math.radians(theta)) ** 2
        D = P - np.array([x0, y0, z0])
        axial = D @ u
        rad2 = np.sum(D * D, axis=1) - axial * axial
        g = rad2 - t2 * axial * axial
        s = (1.0 + t2) * (p2 + x0 * x0 + y0 * y0 + z0 * z0)
        return g, s
    if typ == 'QUAD':
        A, B, C, D_, E, F, G, H, I, J = p
        terms = [A * x * x, B * y * y, C * z * z, D_ * x * y, E * y * z,
                 F * z * x, G * x, H * y, I * z]
        g = sum(terms) + J
        s = sum(np.abs(t) for t in terms) + abs(J)
        return g, s
    if typ in ('TORUSX', 'TORUSY', 'TORUSZ'):
        ax, (i, j) = _axis_split(typ)
        c = p[:3]
        R, a, b = p[3:6]
        if a == 0 or b == 0:
            raise EvalError('TORUS %d with null semi-axis' % surf.id)
        axial = P[:, ax] - c[ax]
        radial = np.sqrt((P[:, i] - c[i]) ** 2 + (P[:, j] - c[j]) ** 2)
        g = axial ** 2 / a ** 2 + (radial - R) ** 2 / b ** 2 - 1.0
        c2 = c[0] ** 2 + c[1] ** 2 + c[2] ** 2
        s = (p2 + c2) / a ** 2 + (p2 + c2 + R * R) / b ** 2 + 1.0
        return g, s
    raise EvalError('unknown surface type %s' % typ)


class Evaluator:
    """Evaluate a parsed T4 file on an array of points."""

    def __init__(self, t4, P, rel_tol=REL_TOL):
        self.t4 = t4
        self.P = np.asarray(P, dtype=float).reshape(-1, 3)
        self.n = len(self.P)
        self.rel_tol = rel_tol
        self._sv = {}
        self._vol = {}
        self._busy = set()

    def surf(self, sid):
        got = self._sv.get(sid)
        if got is None:
            if sid not in self.t4.surfs:
                raise EvalError('undefined surface %d' % sid)
            g, s = surf_value(self.t4.surfs[sid], self.P)
            got = (g, np.abs(g) > self.rel_tol * s)
            self._sv[sid] = got
        return got

    def decided_all(self):
        """Mask of points that are off every surface written in the file."""
        dec = np.ones(self.n, dtype=bool)
        for sid in self.t4.surfs:
            dec &= self.surf(sid)[1]
        return dec

    def in_volume(self, vid):
        got = self._vol.get(vid)
        if got is not None:
            return got
        if vid in self._busy:
            raise EvalError('cyclic volume reference at %d' % vid)
        vol = self.t4.volus.get(vid)
        if vol is None:
            raise EvalError('undefined volume %d' % vid)
        self._busy.add(vid)
        res = np.ones(self.n, dtype=bool)
        for s in vol.plus:
            res &= self.surf(s)[0] > 0
        for s in vol.minus:
            res &= self.surf(s)[0] < 0
        if vol.op == 'UNION':
            for a in vol.args:
                res = res | self.in_volume(a)
        elif vol.op == 'INTE':
            for a in vol.args:
                res = res & self.in_volume(a)
        self._busy.discard(vid)
        self._vol[vid] = res
        return res

    def membership(self):
        """Return (ids, matrix) for the non-FICTIVE volumes: matrix[k, i] is
        True iff point i lies in volume ids[k]."""
        ids = [v for v in self.t4.volu_order if not self.t4.volus[v].fictive]
        if not ids:
            return ids, np.zeros((0, self.n), dtype=bool)
        mat = np.vstack([self.in_volume(v) for v in ids])
        return ids, mat
