"""Harness-side repair of the sandbox's TatSu install (see DESIGN.md section 2.1).

On TatSu 5.24 / Python 3.12.1 every ``tatsu`` model class keeps
``_is_protocol = True`` (``JSONBase.__init_subclass__`` does not chain to
``Protocol.__init_subclass__``), which turns ``isinstance(x, Cut)`` into a
structural check that is always true and breaks every parse.  The shim resets
that flag on the concrete subclasses and nothing else.  It does not touch the
repository, its grammar, or ``typing.Protocol`` itself.
"""
import sys
import typing

_DONE = False


def apply():
    global _DONE
    if _DONE:
        return
    import tatsu  # noqa: F401
    import tatsu.grammars  # noqa: F401
    import tatsu.contexts  # noqa: F401
    seen = set()
    for name, mod in list(sys.modules.items()):
        if not name.startswith('tatsu') or mod is None:
            continue
        for obj in list(vars(mod).values()):
            if not isinstance(obj, type) or obj in seen:
                continue
            seen.add(obj)
            if not getattr(obj, '__module__', '').startswith('tatsu'):
                continue
            mro = getattr(obj, '__mro__', ())
            if typing.Protocol in mro and typing.Protocol not in obj.__bases__:
                if obj.__dict__.get('_is_protocol', None) is not False:
                    try:
                        obj._is_protocol = False
                    except Exception:
                        pass
    _DONE = True
