"""Hexagonal (LAT=2) lattices in the abstract model (DESIGN 4.2).

The generator builds the unit prism from three vertices of a centrally
symmetric hexagon and records the lattice translations it implies in the
cell (``c['hex']``): a1 carries the unit cell across the first-listed plane,
a2 across the third-listed, a3 from the eighth to the seventh plane along the
prism axis.  The model finds the element of a point by solving in that basis
and testing the neighbouring candidates for unit-prism membership with the
cell's own planes -- the repository's Lattice.py is not involved.
"""
import itertools

import numpy as np

from . import mgeom
from .mgeom import ModelError


def hex_indices(locator, c, Pa):
    from .mdeck import NO_ELEMENT
    hexinfo = c.get('hex')
    if not hexinfo:
        raise ModelError('LAT=2 cell without generator hex info')
    a1 = np.array(hexinfo['a1'], dtype=float)
    a2 = np.array(hexinfo['a2'], dtype=float)
    w = np.array(hexinfo['axis'], dtype=float)
    a3 = np.array(hexinfo['a3'], dtype=float) if hexinfo.get('a3') else None
    centre = np.array(hexinfo['centre'], dtype=float)
    ndim = 3 if a3 is not None else 2
    basis = np.array([a1, a2, a3 if a3 is not None else w]).T
    coef = np.linalg.solve(basis, (Pa - centre).T).T
    base = np.rint(coef[:, :ndim]).astype(np.int64)
    leaves = locator._leaves(c['expr'], with_facets=True)
    n = len(Pa)
    ind = np.full((n, ndim), NO_ELEMENT, dtype=np.int64)
    found = np.zeros(n, dtype=bool)
    undec = np.zeros(n, dtype=bool)
    A = np.array([a1, a2] + ([a3] if a3 is not None else []))
    rng = (-1, 0, 1)
    for delta in itertools.product(rng, repeat=ndim):
        cand = base + np.array(delta, dtype=np.int64)
        shifted = Pa - cand.astype(float) @ A
        ins = np.ones(n, dtype=bool)
        dec = np.ones(n, dtype=bool)
        for leaf, facet in leaves:
            neg, d = locator.surf_neg(abs(leaf), shifted, facet)
            ins &= (neg if leaf < 0 else ~neg)
            dec &= d
        undec |= ~dec
        new = ins & ~found
        ind[new] = cand[new]
        found |= ins
    # points on no candidate prism are on a boundary (undecided) or the
    # generator's vectors do not tile: report as undecided, counted by caller
    undec |= ~found
    ranges = [tuple(r) for r in c['fill']['ranges']]
    return ind, undec, A, ranges
