"""Rendering of the abstract deck model to MCNP input text (DESIGN 3.1).

A card is a list of *tokens*; a token is a list of ``(text, cls)`` parts that
are written without blanks between them.  Classes: ``kw`` (mnemonic / keyword,
case-insensitive), ``num`` (real number, spelling may vary), ``int``, ``raw``.
A ``Layout`` decides case, blank runs, continuations, comments and number
spellings; the default layout is canonical (lower case, single blanks,
five-blank continuations, no comments).
"""
import math

MAXCOL = 78


def fnum(x):
    """Canonical spelling of a real number (round-trips exactly)."""
    if isinstance(x, str):
        return x
    if isinstance(x, int):
        return str(x)
    if x == 0:
        return '0'
    if float(x).is_integer() and abs(x) < 1e15:
        return '%d.0' % int(x)
    return repr(float(x))


def T(*parts):
    return list(parts)


def kw(text):
    return (text, 'kw')


def num(x):
    return (fnum(x), 'num')


def raw(text):
    return (str(text), 'raw')


def itok(n):
    return (str(int(n)), 'int')


# --------------------------------------------------------------------------
# geometry expressions
# --------------------------------------------------------------------------

def _leaf(expr):
    if expr[0] == 's':
        return str(expr[1])
    if expr[0] == 'f':
        n, k = expr[1], expr[2]
        return '%d.%d' % (n, k)
    raise ValueError(expr)


def expr_text(expr, style=None, top=True):
    """Render an expression tree with minimal parentheses.  ``style`` may
    carry spelling choices: 'compl_space' (``# (``), 'cellc_space' (``# n``),
    'colon' (text used for the union operator), 'redundant' (wrap
    intersections inside unions in parentheses)."""
    st = style or {}
    op = expr[0]
    if op in ('s', 'f'):
        return _leaf(expr)
    if op == '#':
        return '#' + (' ' if st.get('cellc_space') else '') + str(expr[1])
    if op == '~':
        inner = expr_text(expr[1], st, True)
        return '#' + (' ' if st.get('compl_space') else '') + '(' + inner + ')'
    if op == '&':
        parts = []
        for sub in expr[1:]:
            t = expr_text(sub, st, False)
            if sub[0] in ('|', '&'):
                # (a nested intersection is a group the deck writes in
                # parentheses of its own: -2 1 (-4 3))
                t = '(' + t + ')'
            parts.append(t)
        return ' '.join(parts)
    if op == '|':
        parts = []
        for sub in expr[1:]:
            t = expr_text(sub, st, False)
            if sub[0] == '&' and st.get('redundant'):
                t = '(' + t + ')'
            parts.append(t)
        return st.get('colon', ' : ').join(parts)
    raise ValueError(expr)


# --------------------------------------------------------------------------
# transformations
# --------------------------------------------------------------------------

def tr_value_tokens(spec):
    """Tokens for the numbers of a transformation spec (displacement, then
    matrix entries; masked entries become ``j`` placeholders, trailing masked
    entries are omitted)."""
    # spec['disp_j']: displacement entries that are zero may be jumped (the
    # default of a TR entry); spec['m_j']: the 13th entry m = 1 likewise
    dj = spec.get('disp_j') or [False] * 3
    toks = [T(raw('j')) if (dj[q] and v == 0) else T(num(v))
            for q, v in enumerate(spec['o'])]
    if spec['n'] == 3 or spec['full'] is None:
        return toks
    mask = spec.get('mask') or [True] * 9
    entries = []
    for given, v in zip(mask, spec['full']):
        entries.append(T(num(v)) if given else None)
    while entries and entries[-1] is None and spec['n'] != 13:
        entries.pop()       # (with a 13th entry the jumps must be written)
    # collapse runs of placeholders into nJ (or spell them out one by one)
    out = []
    run = 0
    for e in entries:
        if e is None:
            run += 1
            continue
        if run:
            if spec.get('j_expanded'):
                out.extend(T(raw('j')) for _ in range(run))
            else:
                out.append(T(raw('%dj' % run if run > 1 else 'j')))
            run = 0
        out.append(e)
    if run:
        out.extend(T(raw('j')) for _ in range(run))
    toks += out
    if spec['n'] == 13:
        m = spec['m'] if spec.get('m') is not None else 1
        toks.append(T(raw('j' if (spec.get('m_j') and m == 1) else str(m))))
    return toks


def _paren_wrap(prefix_parts, toks):
    """Attach ``prefix(`` to the first token and ``)`` to the last."""
    toks = [list(t) for t in toks]
    toks[0] = list(prefix_parts) + [raw('(')] + toks[0]
    toks[-1] = toks[-1] + [raw(')')]
    return toks


def trref_tokens(keyword_parts, ref):
    """Tokens for ``trcl=...`` (keyword_parts e.g. [kw('trcl'), raw('=')])."""
    if 'num' in ref:
        return [T(*keyword_parts, itok(ref['num']))]
    spec = ref['inline']
    return _paren_wrap(keyword_parts, tr_value_tokens(spec))


# --------------------------------------------------------------------------
# cards
# --------------------------------------------------------------------------

def imp_tokens(imp):
    """imp dict particle->value (or list of (particles, value) groups)."""
    toks = []
    groups = imp.items() if isinstance(imp, dict) else imp
    for part, val in groups:
        toks.append(T(kw('imp'), raw(':'), kw(part), raw('='), num_imp(val)))
    return toks


def num_imp(val):
    if isinstance(val, str):
        return (val, 'num')
    if float(val).is_integer():
        return (str(int(val)), 'num')
    return (fnum(val), 'num')


def extra_kw_tokens(items):
    toks = []
    for item in items:
        key, _, val = item.partition('=')
        if ':' in key:
            k1, _, k2 = key.partition(':')
            toks.append(T(kw(k1), raw(':'), kw(k2), raw('='), (val, 'num')))
        else:
            toks.append(T(kw(key), raw('='), (val, 'num')))
    return toks


def cell_option_tokens(c, skip=()):
    toks = []
    # cell parameters that do not concern the geometry (TMP, VOL, NONU, ...):
    # c['extra_kw'] = (list written before IMP, list written last)
    extra = c.get('extra_kw') or ((), ())
    toks += extra_kw_tokens(extra[0])
    if c.get('params_in_data'):
        # U and FILL are given by data cards (deck['extra_data'])
        skip = tuple(skip) + ('u', 'fill')
    toks += _cell_option_tokens(c, skip)
    toks += extra_kw_tokens(extra[1])
    return toks


def _cell_option_tokens(c, skip=()):
    toks = []
    if c.get('imp') and 'imp' not in skip:
        toks += imp_tokens(c.get('imp_groups') or c['imp'])
    if c.get('u') and 'u' not in skip:
        # c['u_neg']: written u=-n ("this cell is not cut by the boundary of
        # the cell it fills": an optimisation hint, same universe n)
        toks.append(T(kw('u'), raw('='),
                      itok(-c['u'] if c.get('u_neg') else c['u'])))
    if c.get('lat') and 'lat' not in skip:
        toks.append(T(kw('lat'), raw('='), itok(c['lat'])))
    if c.get('fill') is not None and 'fill' not in skip and \
            not c['fill'].get('implicit'):
        # (implicit: a lattice cell without FILL is made of its own material)
        toks += fill_tokens(c['fill'])
    if c.get('trcl') is not None and 'trcl' not in skip:
        ref = c['trcl']
        star = 'inline' in ref and ref['inline']['star']
        kwp = [kw('*trcl' if star else 'trcl'), raw('=')]
        toks += trref_tokens(kwp, ref)
    return toks


def fill_tokens(fill):
    tr = fill.get('tr')
    star = tr is not None and 'inline' in tr and tr['inline']['star']
    name = kw('*fill' if star else 'fill')
    toks = []
    if fill.get('univs') is not None:
        first = True
        for lo, hi in fill['ranges']:
            part = [raw('%d:%d' % (lo, hi))]
            if first:
                part = [name, raw('=')] + part
                first = False
            toks.append(T(*part))
        spelled = fill.get('univs_spelled')
        for item in (fill['univs'] if spelled is None else spelled):
            toks.append(T(raw(str(item))))
    else:
        toks.append(T(name, raw('='), itok(fill['u'])))
    if tr is not None:
        if 'num' in tr:
            toks.append(T(raw('('), itok(tr['num']), raw(')')))
        else:
            vt = [list(t) for t in tr_value_tokens(tr['inline'])]
            vt[0] = [raw('(')] + vt[0]
            vt[-1] = vt[-1] + [raw(')')]
            toks += vt
    return toks


def cell_card(c, expr_style=None):
    toks = [T(itok(c['id']))]
    if c.get('like') is not None:
        toks += [T(kw('like')), T(itok(c['like']['base'])), T(kw('but'))]
        but = c['like']['but']
        tmp = dict(c)
        tmp.update(but)
        if 'mat' in but:
            toks.append(T(kw('mat'), raw('='), itok(but['mat'])))
        if 'rho' in but:
            toks.append(T(kw('rho'), raw('='), (str(but['rho']), 'num')))
        keys = [k for k in ('imp', 'u', 'lat', 'fill', 'trcl') if k in but]
        sub = {k: but[k] for k in keys}
        if 'imp_groups' in but:
            sub['imp_groups'] = but['imp_groups']
        toks += cell_option_tokens(sub)
        return toks
    if c.get('mat_zeros'):
        # the material number written with leading zeros (01, 002, 00)
        toks.append(T(raw('0' * c['mat_zeros'] + str(int(c['mat'])))))
    else:
        toks.append(T(itok(c['mat'])))
    if c['mat'] != 0:
        toks.append(T((str(c['rho']), 'num')))
    gtxt = c.get('expr_text') or expr_text(c['expr'], expr_style)
    toks += [T(raw(t)) for t in gtxt.split(' ') if t != '']
    toks += cell_option_tokens(c)
    return toks


def surface_card(s):
    first = [raw(s.get('bc') or ''), itok(s['id'])]
    toks = [T(*first)]
    if s.get('tr') is not None:
        toks.append(T(itok(s['tr'])))
    toks.append(T(kw(s['kind'])))
    spelled = s.get('spelled')
    if spelled:
        toks += [T((t, 'num')) for t in spelled]
    else:
        kind = s['kind'].lower()
        for q, v in enumerate(s['params']):
            if kind == 'arb' and q >= 24:
                toks.append(T(raw(str(int(round(v))))))
            else:
                toks.append(T(num(v)))
    return toks


def transform_card(t):
    spec = t['spec']
    name = ('*' if spec['star'] else '') + 'tr'
    toks = [T(kw(name), itok(t['id']))]
    toks += tr_value_tokens(spec)
    return toks


def material_card(m):
    toks = [T(kw('m'), itok(m['id']))]
    for item in m['entries']:
        if isinstance(item, (list, tuple)):
            toks.append(T(raw(item[0])))
            toks.append(T((item[1], 'num')))
        elif '=' in item:
            # keyword entry such as nlib=70c
            key, _, val = item.partition('=')
            toks.append(T(kw(key), raw('='), raw(val)))
        else:
            toks.append(T(raw(item)))
    return toks


def imp_data_cards(deck):
    cards = []
    for part, card in (deck.get('imp_cards') or {}).items():
        toks = [T(kw('imp'), raw(':'), kw(part))]
        for t in card.get('tokens') or [fnum(v) for v in card['values']]:
            toks.append(T((str(t), 'num')))
        cards.append(toks)
    return cards


# --------------------------------------------------------------------------
# layout
# --------------------------------------------------------------------------

class Layout:
    """Canonical layout; subclasses / instances with hooks vary it (C14)."""

    def part_text(self, text, cls, card_kind, pos):
        return text

    def blank(self, card_kind, pos):
        return ' '

    def wrap(self, pieces, card_kind):
        """pieces: list of token strings; returns list of physical lines."""
        lines = []
        cur = ''
        for q, piece in enumerate(pieces):
            if not cur:
                cur = piece
                continue
            sep = self.blank(card_kind, q)
            if len(cur) + len(sep) + len(piece) > MAXCOL:
                lines.append(cur)
                cur = '     ' + piece
            else:
                cur = cur + sep + piece
        if cur:
            lines.append(cur)
        return lines

    def card_lines(self, toks, card_kind):
        pieces = []
        for q, tok in enumerate(toks):
            pieces.append(''.join(self.part_text(t, c, card_kind, q)
                                  for t, c in tok))
        return self.wrap(pieces, card_kind)

    def between_cards(self, block, index):
        return []

    def message(self, deck):
        return deck.get('message')


def render_cards(deck, expr_style=None):
    cells = [cell_card(c, (c.get('expr_style') or expr_style))
             for c in deck['cells']]
    surfs = [surface_card(s) for s in deck['surfaces']]
    data = []
    for m in deck['materials']:
        data.append(material_card(m))
    for t in deck['transforms']:
        data.append(transform_card(t))
    data += imp_data_cards(deck)
    for extra in deck.get('extra_data') or []:
        data.append([T(raw(w)) for w in extra.split()])
    return cells, surfs, data


def render(deck, layout=None, expr_style=None):
    lay = layout or Layout()
    cells, surfs, data = render_cards(deck, expr_style)
    out = []
    msg = lay.message(deck)
    if msg:
        out.append(getattr(lay, 'message_kw', 'message:') + ' ' + msg)
        out.append('')
    out.append(deck.get('title') or 'generated deck')
    for bi, (kind, cards) in enumerate((('c', cells), ('s', surfs),
                                        ('d', data))):
        if bi > 0:
            out.append('')
        for ci, toks in enumerate(cards):
            out.extend(lay.between_cards(kind, ci))
            out.extend(lay.card_lines(toks, kind))
    return '\n'.join(out) + '\n'


def argv_of(deck, extra=()):
    argv = []
    for opt in deck.get('lattice_opts') or []:
        argv += ['--lattice', opt]
    return argv + list(extra)
