"""Hypothesis strategies for the abstract deck model (DESIGN 3.2).

Everything is built by construction (no rejection sampling beyond trivial
non-degeneracy filters); all randomness comes from Hypothesis.
"""
import math

import numpy as np
from hypothesis import strategies as st

from . import mdeck as md

NICE = [0.0, 1.0, -1.0, 2.0, -2.0, 0.5, -0.5, 3.0, -3.0, 1.5, -1.5, 4.0, -4.0,
        0.25, 5.0, -5.0]


@st.composite
def coord(draw, lim=6.0, wide=False):
    """A coordinate-like real number."""
    k = draw(st.integers(0, 9))
    if k <= 3:
        v = draw(st.sampled_from(NICE))
        return v if abs(v) <= lim else math.copysign(lim, v)
    if k <= 6:
        return draw(st.integers(int(-lim * 10), int(lim * 10))) / 10.0
    if k <= 8:
        return draw(st.integers(int(-lim * 100), int(lim * 100))) / 100.0
    if wide:
        e = draw(st.floats(-2.0, 2.0))
        s = draw(st.sampled_from([-1.0, 1.0]))
        return float(s * 10.0 ** e)
    v = draw(st.floats(-lim, lim, allow_nan=False, allow_infinity=False))
    # magnitudes below the generator's stated range collapse to zero (the
    # range bound is a conditioning bound for sign oracles, DESIGN 3.2)
    return 0.0 if abs(v) < 1e-3 else float(v)


@st.composite
def length(draw, lo=0.2, hi=5.0, wide=False):
    """A strictly positive length (radius, pitch, edge)."""
    k = draw(st.integers(0, 9))
    if k <= 3:
        v = draw(st.sampled_from([1.0, 2.0, 0.5, 3.0, 1.5, 4.0, 2.5, 0.25, 5.0]))
        return min(max(v, lo), hi)
    if hi <= lo:
        return float(lo)
    if k <= 7 and int(hi * 10) >= max(1, int(math.ceil(lo * 10))):
        return draw(st.integers(max(1, int(math.ceil(lo * 10))),
                                int(hi * 10))) / 10.0
    if wide and k == 9:
        e = draw(st.floats(-2.0, 2.0))
        return float(10.0 ** e)
    return draw(st.floats(lo, hi, allow_nan=False, allow_infinity=False))


@st.composite
def point(draw, lim=5.0):
    return [draw(coord(lim)) for _ in range(3)]


@st.composite
def unit_vector(draw, aligned_weight=3):
    k = draw(st.integers(0, 9))
    if k < aligned_weight:
        ax = draw(st.integers(0, 2))
        s = draw(st.sampled_from([1.0, -1.0]))
        v = [0.0, 0.0, 0.0]
        v[ax] = s
        return v
    while True:
        v = np.array([draw(st.integers(-9, 9)) for _ in range(3)], dtype=float)
        if v.any():
            break
    v = v / np.linalg.norm(v)
    return [float(t) for t in v]


# --------------------------------------------------------------------------
# rotations  (3x3, rows = auxiliary axes in the main frame, det = +1)
# --------------------------------------------------------------------------

def _quat_to_mat(q):
    w, x, y, z = q
    return np.array([
        [1 - 2 * (y * y + z * z), 2 * (x * y - z * w), 2 * (x * z + y * w)],
        [2 * (x * y + z * w), 1 - 2 * (x * x + z * z), 2 * (y * z - x * w)],
        [2 * (x * z - y * w), 2 * (y * z + x * w), 1 - 2 * (x * x + y * y)]])


_PERMS = []
for _p in ((0, 1, 2), (1, 2, 0), (2, 0, 1), (0, 2, 1), (2, 1, 0), (1, 0, 2)):
    for _s in ((1, 1, 1), (1, -1, -1), (-1, 1, -1), (-1, -1, 1),
               (-1, 1, 1), (1, -1, 1), (1, 1, -1), (-1, -1, -1)):
        _m = np.zeros((3, 3))
        for _r in range(3):
            _m[_r, _p[_r]] = _s[_r]
        if abs(np.linalg.det(_m) - 1.0) < 1e-9:
            _PERMS.append(_m)


@st.composite
def rotation(draw, classes=('generic', 'perm', 'flip', 'small', 'identity',
                            'axis')):
    """Return (class label, 3x3 list)."""
    cls = draw(st.sampled_from(classes))
    if cls == 'identity':
        m = np.eye(3)
    elif cls == 'perm':
        m = _PERMS[draw(st.integers(0, len(_PERMS) - 1))]
        if np.array_equal(m, np.eye(3)):
            cls = 'identity'
    elif cls == 'flip':
        # proper rotation by pi about a coordinate axis: two axes map to
        # minus themselves
        ax = draw(st.integers(0, 2))
        d = [-1.0, -1.0, -1.0]
        d[ax] = 1.0
        m = np.diag(d)
    elif cls == 'axis':
        ax = draw(st.integers(0, 2))
        ang = math.radians(draw(st.integers(1, 359)))
        c, s = math.cos(ang), math.sin(ang)
        i, j = [q for q in range(3) if q != ax]
        m = np.eye(3)
        m[i, i], m[i, j], m[j, i], m[j, j] = c, -s, s, c
    elif cls == 'small':
        # (below ~1e-4 the tilt only matters to branch thresholds of the
        # converter; from 1e-3 up a wrong frame is visible to point sampling)
        ang = draw(st.sampled_from([1e-5, 1e-4, 1e-3, 3e-3, 1e-2, 0.02, 0.04,
                                    0.05, 0.1]))
        axis = np.array(draw(unit_vector()))
        q = np.concatenate([[math.cos(ang / 2)], math.sin(ang / 2) * axis])
        m = _quat_to_mat(q)
    else:
        while True:
            q = np.array([draw(st.integers(-8, 8)) for _ in range(4)],
                         dtype=float)
            if q.any():
                break
        q = q / np.linalg.norm(q)
        m = _quat_to_mat(q)
    return cls, [float(t) for t in np.asarray(m).reshape(9)]


def to_degrees(mat9):
    return [math.degrees(math.acos(max(-1.0, min(1.0, v)))) for v in mat9]


# --------------------------------------------------------------------------
# elementary surfaces
# --------------------------------------------------------------------------

ELEMENTARY = ['p', 'p3', 'px', 'py', 'pz', 'so', 's', 'sx', 'sy', 'sz',
              'c/x', 'c/y', 'c/z', 'cx', 'cy', 'cz',
              'k/x', 'k/y', 'k/z', 'kx', 'ky', 'kz', 'sq', 'gq',
              'tx', 'ty', 'tz', 'x', 'y', 'z']


@st.composite
def tan2(draw):
    return draw(st.sampled_from([1.0, 0.25, 4.0, 0.5, 2.0, 0.09, 3.0,
                                 0.3333, 9.0]))


@st.composite
def quadric_coeffs(draw):
    """GQ coefficients: a canonical quadric moved by a rigid motion, or raw."""
    mode = draw(st.integers(0, 3))
    if mode == 0:
        co = [draw(coord(3.0)) for _ in range(10)]
        if not any(co[:6]):
            co[0] = 1.0
        return co
    a, b, c = (draw(length(0.5, 3.0)) for _ in range(3))
    shapes = {
        0: ([1 / a ** 2, 1 / b ** 2, 1 / c ** 2], [0, 0, 0], -1.0),
        1: ([1 / a ** 2, 1 / b ** 2, -1 / c ** 2], [0, 0, 0], -1.0),
        2: ([1 / a ** 2, 1 / b ** 2, 0.0], [0, 0, -1.0], 0.0),
        3: ([1 / a ** 2, 1 / b ** 2, 0.0], [0, 0, 0], -1.0),
    }
    diag, lin, const = shapes[draw(st.integers(0, 3))]
    Q = np.diag(diag)
    lin = np.array(lin, dtype=float)
    _cls, R = draw(rotation())
    R = np.array(R).reshape(3, 3)
    t = np.array(draw(point(3.0)))
    # f(p) = q^T Q q + lin.q + const with q = R (p - t)
    Qp = R.T @ Q @ R
    linp = R.T @ lin - 2 * Qp @ t
    constp = t @ Qp @ t - (R.T @ lin) @ t + const
    return [float(Qp[0, 0]), float(Qp[1, 1]), float(Qp[2, 2]),
            float(2 * Qp[0, 1]), float(2 * Qp[1, 2]), float(2 * Qp[0, 2]),
            float(linp[0]), float(linp[1]), float(linp[2]), float(constp)]


@st.composite
def elementary_params(draw, kind, wide=False):
    """(mcnp mnemonic, params, labels) for one elementary surface kind."""
    labels = []
    c = lambda lim=5.0: draw(coord(lim, wide))  # noqa: E731
    r = lambda lo=0.3, hi=4.0: draw(length(lo, hi, wide))  # noqa: E731
    if kind == 'p':
        if draw(st.integers(0, 3)) == 0:
            # almost, but not exactly, normal to a coordinate axis
            ax = draw(st.integers(0, 2))
            n = [0.0, 0.0, 0.0]
            n[ax] = draw(st.sampled_from([1.0, 1.0, -1.0, 2.0]))
            tilt = draw(st.sampled_from([3e-3, 1e-3, 1e-4, 1e-5]))
            n[(ax + 1) % 3] = tilt * draw(st.sampled_from([1.0, -1.0, 0.0]))
            n[(ax + 2) % 3] = tilt * draw(st.sampled_from([1.0, -1.0]))
            labels.append('p:near-axis')
            return 'p', n + [c()], labels
        while True:
            n = [draw(coord(3.0)) for _ in range(3)]
            if any(n):
                break
        return 'p', n + [c()], labels
    if kind == 'p3':
        mode = draw(st.integers(0, 4))
        while True:
            pts = [draw(point(4.0)) for _ in range(3)]
            if mode == 1:      # plane through the origin (D = 0)
                pts[0] = [0.0, 0.0, 0.0]
            elif mode == 2:    # D = 0 and C = 0: contains the z axis
                pts[0] = [0.0, 0.0, 0.0]
                pts[1] = [0.0, 0.0, draw(length(0.5, 3.0))]
            elif mode == 3:    # D = C = B = 0: the plane x = 0
                pts[0] = [0.0, 0.0, 0.0]
                pts[1] = [0.0, 0.0, draw(length(0.5, 3.0))]
                pts[2] = [0.0, draw(length(0.5, 3.0)), draw(coord(3.0))]
            if mode in (2, 3) and draw(st.booleans()):
                # either orientation of the generated triple
                pts[1], pts[2] = [-v for v in pts[1]], [-v for v in pts[2]]
            a, b, d = (np.array(q) for q in pts)
            nrm = np.linalg.norm(np.cross(b - a, d - a))
            if nrm > 1e-2 * (1 + np.linalg.norm(b - a) * np.linalg.norm(d - a)):
                break
        # the order in which the three points are written is free
        order = draw(st.permutations([0, 1, 2]))
        pts = [pts[o] for o in order]
        labels.append('p3:mode%d' % mode)
        return 'p', pts[0] + pts[1] + pts[2], labels
    if kind in ('px', 'py', 'pz'):
        return kind, [c()], labels
    if kind == 'so':
        return kind, [r()], labels
    if kind == 's':
        return kind, draw(point(4.0)) + [r()], labels
    if kind in ('sx', 'sy', 'sz'):
        return kind, [c(4.0), r()], labels
    if kind in ('c/x', 'c/y', 'c/z'):
        return kind, [c(4.0), c(4.0), r()], labels
    if kind in ('cx', 'cy', 'cz'):
        return kind, [r()], labels
    if kind in ('k/x', 'k/y', 'k/z'):
        sheet = draw(st.sampled_from([None, None, 1, -1]))
        p = draw(point(4.0)) + [draw(tan2())]
        if sheet is not None:
            p.append(float(sheet))
            labels.append('one-sheet-cone')
        return kind, p, labels
    if kind in ('kx', 'ky', 'kz'):
        sheet = draw(st.sampled_from([None, None, 1, -1]))
        p = [c(4.0), draw(tan2())]
        if sheet is not None:
            p.append(float(sheet))
            labels.append('one-sheet-cone')
        return kind, p, labels
    if kind == 'sq':
        A, B, C = (draw(st.sampled_from([1.0, 0.5, 2.0, 0.0, -1.0, 0.25]))
                   for _ in range(3))
        if not (A or B or C):
            A = 1.0
        D, E, F = (draw(st.sampled_from([0.0, 0.0, 0.5, -1.0, 1.0]))
                   for _ in range(3))
        G = draw(st.sampled_from([-1.0, -4.0, -0.25, -9.0, 1.0, 2.0, 0.0,
                                  0.0]))
        cen = draw(point(3.0))
        if G == 0:
            # a quadric through its reference point (the usual way to write
            # an axis-parallel cone or a paraboloid); x^2+y^2 = 0 and the like
            # are not surfaces
            quad = [v for v in (A, B, C) if v != 0]
            if not (D or E or F) and (min(quad) > 0 or max(quad) < 0):
                G = -1.0
            else:
                labels.append('sq:G=0')
        if G > 0:
            labels.append('sq:positive-at-centre')
        return 'sq', [A, B, C, D, E, F, G] + cen, labels
    if kind == 'gq':
        return 'gq', draw(quadric_coeffs()), labels
    if kind in ('tx', 'ty', 'tz'):
        A = r(1.0, 4.0)
        elliptic = draw(st.booleans())
        B = r(0.2, 0.95 * A)
        C = r(0.2, 0.95 * A) if elliptic else B
        if elliptic and B != C:
            labels.append('torus:elliptic')
        return kind, draw(point(3.0)) + [A, B, C], labels
    if kind in ('x', 'y', 'z'):
        mode = draw(st.sampled_from(['1pair', 'plane', 'cyl', 'cone',
                                     'cone']))
        labels.append('xyz:' + mode)
        if mode == '1pair':
            return kind, [c(4.0), r(0.0, 4.0)], labels
        if mode == 'plane':
            a = c(4.0)
            return kind, [a, r(), a, r()], labels
        if mode == 'cyl':
            rad = r()
            a = c(4.0)
            b = a + draw(st.sampled_from([1.0, -1.0, 2.5, -0.5]))
            return kind, [a, rad, b, rad], labels
        a = c(4.0)
        b = a + draw(st.sampled_from([1.0, -1.0, 2.0, -2.0, 0.5, 3.0]))
        r1 = r(0.3, 3.0)
        r2 = r1 + draw(st.sampled_from([0.5, 1.0, 2.0, -0.2, 0.25]))
        if r2 <= 0:
            r2 = r1 + 0.5
        k_ = draw(st.integers(0, 7))
        if k_ == 0:
            # the first point is the apex itself (radius 0)
            r1 = 0.0
            labels.append('xyz:apex-point')
        elif k_ == 1:
            r1, r2 = r2, 0.0
            labels.append('xyz:apex-point')
        labels.append('one-sheet-cone')
        return kind, [a, r1, b, r2], labels
    raise ValueError(kind)


# --------------------------------------------------------------------------
# macrobodies
# --------------------------------------------------------------------------

MACROS = ['box', 'rpp', 'sph', 'rcc', 'rhp9', 'rhp15', 'rec10', 'rec12',
          'trc', 'ell+', 'ell-', 'wed', 'arb4', 'arb5', 'arb6', 'arb8']


def _frame(draw):
    """A right- or left-handed orthonormal frame (rows)."""
    # bodies slightly tilted from the coordinate axes are drawn twice as
    # often as the other orientation classes: the converter has branches for
    # "almost aligned" axes (ELL, cones, cylinders)
    cls, R = draw(rotation(('generic', 'perm', 'flip', 'small', 'small',
                            'identity', 'axis')))
    R = np.array(R).reshape(3, 3)
    hand = draw(st.sampled_from([1, 1, -1]))
    if hand < 0:
        R = R.copy()
        R[2] = -R[2]
    perm = draw(st.permutations([0, 1, 2]))
    R = R[list(perm)]
    lefthanded = np.linalg.det(R) < 0
    return cls, R, lefthanded


@st.composite
def macro_params(draw, kind):
    """(mnemonic, params, labels) of a macrobody."""
    labels = []
    L = lambda lo=0.5, hi=4.0: draw(length(lo, hi))  # noqa: E731
    if kind == 'rpp':
        lo = [draw(coord(3.0)) for _ in range(3)]
        ext = [L() for _ in range(3)]
        p = []
        for a, e in zip(lo, ext):
            p += [a, a + e]
        return 'rpp', p, labels
    if kind == 'sph':
        return 'sph', draw(point(3.0)) + [L(0.5, 3.0)], labels
    cls, R, lefth = _frame(draw)
    labels.append('rot:' + cls)
    if lefth:
        labels.append('left-handed')
    v = np.array(draw(point(3.0)))
    if kind == 'box':
        a, b, c = R[0] * L(), R[1] * L(), R[2] * L()
        return 'box', _fl(v, a, b, c), labels
    if kind == 'rcc':
        return 'rcc', _fl(v, R[0] * L()) + [L(0.3, 3.0)], labels
    if kind in ('rhp9', 'rhp15'):
        h = R[0] * L()
        if kind == 'rhp9':
            r1 = R[1] * L(0.5, 3.0)
            return draw(st.sampled_from(['rhp', 'hex'])), _fl(v, h, r1), labels
        regular = draw(st.booleans())
        d = L(0.5, 3.0)
        ang0 = math.radians(draw(st.integers(0, 359)))

        def inplane(ang, dist):
            return (R[1] * math.cos(ang) + R[2] * math.sin(ang)) * dist

        if regular:
            rs = [inplane(ang0 + q * math.pi / 3, d) for q in range(3)]
        else:
            labels.append('rhp:irregular')
            # irregular: three facet normals about 60 degrees apart with
            # different apothems (the hexagon stays bounded)
            rs = []
            for q in range(3):
                dd = d * draw(st.sampled_from([1.0, 1.2, 0.8, 1.1]))
                jit = math.radians(draw(st.integers(-8, 8)))
                rs.append(inplane(ang0 + q * math.pi / 3 + jit, dd))
        # any order / sign of the three vectors is admissible
        signs = [draw(st.sampled_from([1.0, -1.0])) for _ in range(3)]
        order = draw(st.permutations([0, 1, 2]))
        rs = [rs[o] * s for o, s in zip(order, signs)]
        return draw(st.sampled_from(['rhp', 'hex'])), _fl(v, h, *rs), labels
    if kind in ('rec10', 'rec12'):
        h = R[0] * L()
        a = R[1] * L(0.5, 3.0)
        if kind == 'rec10':
            return 'rec', _fl(v, h, a) + [L(0.3, 3.0)], labels
        b = R[2] * L(0.3, 3.0)
        return 'rec', _fl(v, h, a, b), labels
    if kind == 'trc':
        r1 = L(0.3, 3.0)
        r2 = r1 * draw(st.sampled_from([0.5, 2.0, 0.25, 1.5, 0.8]))
        labels.append('trc:r1>r2' if r1 > r2 else 'trc:r1<r2')
        return 'trc', _fl(v, R[0] * L()) + [r1, r2], labels
    if kind == 'ell+':
        half = L(0.3, 2.0)
        major = half + L(0.3, 2.0)
        f1 = v + R[0] * half
        f2 = v - R[0] * half
        return 'ell', _fl(f1, f2) + [major], labels
    if kind == 'ell-':
        a = L(0.5, 3.0)
        b = L(0.3, 3.0)
        return 'ell', _fl(v, R[0] * a) + [-b], labels
    if kind == 'wed':
        return 'wed', _fl(v, R[0] * L(), R[1] * L(), R[2] * L()), labels
    if kind.startswith('arb'):
        return draw(arb_params(kind, v, R, labels))
    raise ValueError(kind)


def _fl(*vecs):
    out = []
    for vec in vecs:
        out += [float(t) for t in vec]
    return out


_ARB_SHAPES = {
    # canonical vertices and facets (1-based vertex numbers)
    'arb4': ([(0, 0, 0), (1, 0, 0), (0, 1, 0), (0, 0, 1)],
             [[1, 2, 3], [1, 2, 4], [1, 3, 4], [2, 3, 4]]),
    'arb5': ([(0, 0, 0), (1, 0, 0), (1, 1, 0), (0, 1, 0), (0.5, 0.5, 1)],
             [[1, 2, 3, 4], [1, 2, 5], [2, 3, 5], [3, 4, 5], [4, 1, 5]]),
    'arb6': ([(0, 0, 0), (1, 0, 0), (0, 1, 0), (0, 0, 1), (1, 0, 1),
              (0, 1, 1)],
             [[1, 2, 3], [4, 5, 6], [1, 2, 5, 4], [2, 3, 6, 5], [1, 3, 6, 4]]),
    'arb8': ([(0, 0, 0), (1, 0, 0), (1, 1, 0), (0, 1, 0), (0, 0, 1),
              (1, 0, 1), (1, 1, 1), (0, 1, 1)],
             [[1, 2, 3, 4], [5, 6, 7, 8], [1, 2, 6, 5], [2, 3, 7, 6],
              [3, 4, 8, 7], [4, 1, 5, 8]]),
}


@st.composite
def arb_params(draw, kind, v, R, labels):
    verts, facets = _ARB_SHAPES[kind]
    # affine image: anisotropic scaling + shear-free rotation R + offset v
    sc = np.array([draw(length(0.8, 4.0)) for _ in range(3)])
    shear = draw(st.sampled_from([0.0, 0.0, 0.3, -0.4]))
    A = np.diag(sc)
    A[0, 1] = shear
    M = R.T @ A
    pts = [v + M @ np.array(q, dtype=float) for q in verts]
    # the corners that are used need not be the first ones: unused corners
    # are zero triplets anywhere among the eight
    slots = list(range(len(pts)))
    if len(pts) < 8 and draw(st.integers(0, 2)) == 0:
        slots = list(draw(st.permutations(list(range(8)))))[:len(pts)]
        if slots != list(range(len(pts))):
            labels.append('arb:scattered-corners')
    params = [0.0] * 24
    for i, q in enumerate(pts):
        params[3 * slots[i]:3 * slots[i] + 3] = [float(t) for t in q]
    fac = []
    order = draw(st.permutations(list(range(len(facets)))))
    for o in order:
        f = [slots[d - 1] + 1 for d in facets[o]]
        rot = draw(st.integers(0, len(f) - 1))
        f = f[rot:] + f[:rot]
        if draw(st.booleans()):
            f = f[::-1]
        fac.append(float(int(''.join(str(d) for d in f))))
    fac += [0.0] * (6 - len(fac))
    labels.append(kind)
    if shear:
        labels.append('arb:sheared')
    return 'arb', params + fac, labels


# --------------------------------------------------------------------------
# transformation specs
# --------------------------------------------------------------------------

@st.composite
def tr_spec(draw, rot_classes=None, allow_abbrev=True, allow_13=True,
            translation_only_weight=1, allow_mirror=False):
    """A transformation as written on a TR card / inline, with labels."""
    labels = []
    o = draw(point(4.0))
    if draw(st.integers(0, 9)) < translation_only_weight:
        labels.append('tr:3-entries')
        star3 = draw(st.integers(0, 3)) == 0
        if star3:
            labels.append('tr:3-entries-starred')
        return md.trspec(o, None, star=star3, n_entries=3), labels
    cls, B = draw(rotation(rot_classes) if rot_classes else rotation())
    labels.append('rot:' + cls)
    mirror = allow_mirror and draw(st.integers(0, 7)) == 0
    if mirror:
        # a left-handed auxiliary system (one axis reversed or two axes
        # exchanged): all nine cosines are written, a = B (p - o) as for any
        # other matrix
        Bm = np.array(B).reshape(3, 3)
        k = draw(st.integers(0, 5))
        if k < 3:
            Bm[k, :] = -Bm[k, :]
        else:
            i, j = [(0, 1), (1, 2), (0, 2)][k - 3]
            Bm[[i, j], :] = Bm[[j, i], :]
        B = [float(t) for t in Bm.reshape(9)]
        labels.append('tr:left-handed')
    star = draw(st.booleans())
    full = to_degrees(B) if star else list(B)
    if star:
        labels.append('tr:degrees')
    n = 12
    m = None
    if allow_13 and draw(st.integers(0, 4)) == 0:
        n, m = 13, 1
        labels.append('tr:13-entries')
    mask = None
    if allow_abbrev and n == 12 and not mirror and \
            draw(st.integers(0, 3)) == 0:
        kind = draw(st.sampled_from(['rows6', 'cols6', 'rc5']))
        mask = [False] * 9
        if kind == 'rows6':
            skip = draw(st.integers(0, 2))
            for rr in range(3):
                if rr != skip:
                    for cc in range(3):
                        mask[3 * rr + cc] = True
        elif kind == 'cols6':
            skip = draw(st.integers(0, 2))
            for cc in range(3):
                if cc != skip:
                    for rr in range(3):
                        mask[3 * rr + cc] = True
        else:
            rr = draw(st.integers(0, 2))
            cc = draw(st.integers(0, 2))
            # one row + one column determine the rotation uniquely only when
            # their common element is not +-1 (otherwise a one-parameter
            # family of completions exists and the reference is ambiguous)
            if abs(B[3 * rr + cc]) > 0.99:
                mask = None
                kind = None
            else:
                for q in range(3):
                    mask[3 * rr + q] = True
                    mask[3 * q + cc] = True
        if kind:
            labels.append('tr:abbrev-' + kind)
    return md.trspec(o, full, star=star, n_entries=n, mask=mask, m=m), labels


# --------------------------------------------------------------------------
# Boolean expressions over a set of surfaces
# --------------------------------------------------------------------------

@st.composite
def leaf(draw, surf_ids, facet_counts=None, cell_ids=None):
    if cell_ids and draw(st.integers(0, 5)) == 0:
        # complement of a (helper) cell used as an operand
        return md.CELLC(draw(st.sampled_from(cell_ids)))
    sid = draw(st.sampled_from(surf_ids))
    sign = draw(st.sampled_from([1, -1]))
    nf = (facet_counts or {}).get(sid)
    if nf and nf > 1 and draw(st.integers(0, 2)) == 0:
        return md.F(sign * sid, draw(st.integers(1, nf)))
    return md.S(sign * sid)


@st.composite
def expression(draw, surf_ids, depth=3, facet_counts=None, compl_ok=True,
               cell_ids=None):
    if depth <= 0 or draw(st.integers(0, 3)) == 0:
        return draw(leaf(surf_ids, facet_counts, cell_ids))
    op = draw(st.sampled_from(['&', '&', '|', '~'] if compl_ok
                              else ['&', '&', '|']))
    if op == '~':
        return md.NOT(draw(expression(surf_ids, depth - 1, facet_counts,
                                      compl_ok, cell_ids)))
    n = draw(st.integers(2, 3))
    kids = [draw(expression(surf_ids, depth - 1, facet_counts, compl_ok,
                            cell_ids))
            for _ in range(n)]
    return [op] + kids


def push_not(expr, neg=False):
    """De Morgan the negations down to the leaves (generator-side rendering
    of a complement; cell complements stay as they are)."""
    op = expr[0]
    if op == 's':
        return md.S(-expr[1]) if neg else expr
    if op == 'f':
        return md.F(-expr[1], expr[2]) if neg else expr
    if op == '#':
        return md.NOT(expr) if neg else expr
    if op == '~':
        return push_not(expr[1], not neg)
    kids = [push_not(k, neg) for k in expr[1:]]
    if neg:
        return ['|' if op == '&' else '&'] + kids
    return [op] + kids


def expr_stats(expr, acc=None):
    acc = acc if acc is not None else {'&': 0, '|': 0, '~': 0, '#': 0,
                                       's': 0, 'f': 0}
    acc[expr[0]] += 1
    if expr[0] in ('&', '|'):
        for k in expr[1:]:
            expr_stats(k, acc)
    elif expr[0] == '~':
        expr_stats(expr[1], acc)
    return acc


# --------------------------------------------------------------------------
# cell parameters that have nothing to do with the geometry
# --------------------------------------------------------------------------

IGNORABLE_CELL_KW = ['tmp=2.53e-8', 'vol=10.0', 'nonu=1', 'nonu=2', 'nonu=0',
                     'pwt=1', 'ext:n=0', 'fcl:n=0', 'elpt:n=1e-3', 'unc:n=1',
                     'bflcl=0', 'vol=1', 'tmp=1e-7']


@st.composite
def ignorable_keywords(draw):
    """(written before the other parameters, written last); mostly empty."""
    if draw(st.integers(0, 5)) != 0:
        return None
    items = draw(st.lists(st.sampled_from(IGNORABLE_CELL_KW), min_size=1,
                          max_size=2, unique_by=lambda t: t.split('=')[0]))
    k = draw(st.integers(0, len(items)))
    return [items[:k], items[k:]]


# --------------------------------------------------------------------------
# data cards that have nothing to do with geometry, materials or importances
# --------------------------------------------------------------------------

UNRELATED_DATA_CARDS = ['mode n p', 'nps 1000', 'print', 'sdef pos=0 0 0 erg=14',
                        'f4:n 1', 'e4 1 2 3', 'mt1 lwtr.10t', 'mx1:n j 8017',
                        'kcode 1000 1.0 10 50', 'ksrc 0 0 0', 'phys:n 20 0',
                        'cut:n j 0', 'tmp1 2.53e-8 2.53e-8', 'vol 1 1',
                        'totnu', 'mpn1 0 8016', 'm0 nlib=70c', 'prdmp j j 1',
                        'thtme 0', 'ctme 10', '+f6 1', '*f8:p 1', '+f8:e 1']


@st.composite
def unrelated_data_cards(draw):
    if draw(st.integers(0, 2)) != 0:
        return []
    return draw(st.lists(st.sampled_from(UNRELATED_DATA_CARDS), min_size=1,
                         max_size=4, unique_by=lambda t: t.split()[0]))
