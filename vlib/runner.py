"""Check runner: tiers, seeds, exclude-and-continue search, known findings,
replays and evidence (DESIGN 3.6 - 3.9, 10).

Usage:  python -m vlib.runner <ID> [quick|thorough] [--replay FILE]

Exit 0: property held on everything explored (KNOWN-FINDING lines may have
been printed).  Exit 1: ``VIOLATION property=<id> replay=<path>`` per unknown
bucket.  Exit 2: harness error (never reported as a violation).
"""
import hashlib
import importlib
import json
import multiprocessing
import os
import re
import sys
import time
import traceback
from collections import Counter
from . import cov as covmod

VERIF = os.path.dirname(os.path.dirname(os.path.abspath(__file__)))


class Outcome:
    """Verdict of one generated case."""
    __slots__ = ('kind', 'bucket', 'detail', 'labels', 'nontrivial', 'sig',
                 'counts')

    def __init__(self, kind='ok', bucket=None, detail=None, labels=(),
                 nontrivial=False, sig=None, counts=None):
        self.kind = kind            # ok | violation | skip
        self.bucket = bucket
        self.detail = detail or {}
        self.labels = list(labels)
        self.nontrivial = nontrivial
        self.sig = sig
        self.counts = counts or {}


class HarnessError(Exception):
    pass


def ok(labels=(), nontrivial=False, sig=None, counts=None):
    return Outcome('ok', labels=labels, nontrivial=nontrivial, sig=sig,
                   counts=counts)


def violation(bucket, detail, labels=(), sig=None, counts=None):
    return Outcome('violation', bucket=bucket, detail=detail, labels=labels,
                   sig=sig, counts=counts)


class CaseTimeout(BaseException):
    """Raised by the per-case watchdog (BaseException: it must pass through
    the `except Exception` clauses between the check and the converter)."""


CASE_LIMIT = int(os.environ.get('T4GC_CASE_LIMIT', '300'))


def _on_alarm(_signum, _frame):
    raise CaseTimeout()


def guarded_check(mod, case):
    """mod.check(case) under a watchdog: the conversion of one small
    generated deck takes milliseconds to seconds; one that is still running
    after CASE_LIMIT seconds (an endless loop in the converter) is reported as
    a violation with the case as its replay instead of blocking the check for
    ever."""
    import signal
    try:
        signal.signal(signal.SIGALRM, _on_alarm)
        signal.setitimer(signal.ITIMER_REAL, CASE_LIMIT)
    except ValueError:            # not in the main thread: no watchdog
        return mod.check(case)
    try:
        return mod.check(case)
    except CaseTimeout:
        try:
            text = mod.render_case(case)
        except Exception:
            text = None
        return violation('hang:case-not-finished-in-%ds' % CASE_LIMIT,
                         {'limit_s': CASE_LIMIT, 'deck': text}, ['hang'])
    finally:
        signal.setitimer(signal.ITIMER_REAL, 0)


def skip(reason, labels=(), counts=None):
    return Outcome('skip', bucket=reason, labels=labels, counts=counts)


def case_sig(obj):
    blob = json.dumps(obj, sort_keys=True, default=str).encode()
    return hashlib.sha1(blob).hexdigest()[:16]


# --------------------------------------------------------------------------
# known findings
# --------------------------------------------------------------------------

def load_known(pid):
    path = os.path.join(VERIF, 'known_findings.json')
    if not os.path.exists(path):
        return []
    with open(path) as f:
        data = json.load(f)
    out = []
    for ent in data.get('findings', []):
        if ent.get('property') == pid and ent.get('status') == 'known':
            out.append(ent)
    return out


def match_known(known, bucket):
    for ent in known:
        if re.search(ent['bucket_regex'], bucket):
            return ent
    return None


# --------------------------------------------------------------------------
# statistics
# --------------------------------------------------------------------------

class Stats:
    def __init__(self):
        self.evaluations = 0
        self.sigs = set()
        self.labels = Counter()
        self.counts = Counter()
        self.samples = []
        self.excluded = Counter()
        self.known_hits = Counter()
        self.skipped = Counter()
        self.harness_error = None
        self.budget_exhausted = False

    def merge(self, other):
        self.evaluations += other.evaluations
        self.sigs |= other.sigs
        self.labels.update(other.labels)
        self.counts.update(other.counts)
        for s in other.samples:
            if len(self.samples) < 6:
                self.samples.append(s)
        self.excluded.update(other.excluded)
        self.known_hits.update(other.known_hits)
        self.skipped.update(other.skipped)
        if other.harness_error and not self.harness_error:
            self.harness_error = other.harness_error
        self.budget_exhausted |= other.budget_exhausted


class _Found(Exception):
    pass


# diagnostic: T4GC_LABELS_DUMP=<prefix> appends the label set of every
# generated case to <prefix>.<pid> (tools/label_pairs.py reads them)
_LABEL_DUMP = os.environ.get('T4GC_LABELS_DUMP')


def pmap(func, jobs, nproc):
    """map over forked worker processes.  Unlike multiprocessing.Pool.map, a
    worker that dies (e.g. killed for lack of memory) raises
    BrokenProcessPool here instead of leaving the parent waiting for ever;
    the callers turn that into a harness error (exit 2)."""
    import concurrent.futures as cf
    ctx = multiprocessing.get_context('fork')
    nproc = max(1, min(nproc, os.cpu_count() or 1, len(jobs) or 1))
    with cf.ProcessPoolExecutor(max_workers=nproc, mp_context=ctx) as ex:
        return list(ex.map(func, jobs, chunksize=1))


def _derive_seed(seed, shard, rnd):
    h = hashlib.sha256(('%d/%d/%d' % (seed, shard, rnd)).encode()).digest()
    return int.from_bytes(h[:6], 'big')


def run_shard(args):
    """Run one shard of the generated search in this process."""
    pid, tier, seed, shard, n_examples, time_budget, max_rounds = args
    os.environ.setdefault('PYTHONHASHSEED', '0')
    import hypothesis
    from hypothesis import given, settings, HealthCheck, Phase
    mod = importlib.import_module('vlib.props.' + pid.lower())
    known = load_known(pid)
    covmod.start()
    stats = Stats()
    found = {}
    excluded = set()
    t_start = time.time()
    remaining = n_examples
    shrink_budget = 25.0 if tier == 'quick' else 120.0
    strategy = mod.strategy(tier)
    for rnd in range(max_rounds):
        if remaining <= 0 or stats.harness_error:
            break
        state = {'last': None, 'first_fail_t': None, 'runs': 0}

        def body(case):
            if stats.harness_error:
                return
            now = time.time()
            if now - t_start > time_budget:
                stats.budget_exhausted = True
                return
            if state['first_fail_t'] is not None and \
                    now - state['first_fail_t'] > shrink_budget:
                return
            try:
                out = guarded_check(mod, case)
            except HarnessError:
                stats.harness_error = traceback.format_exc()
                return
            except Exception:
                stats.harness_error = traceback.format_exc()
                return
            shrinking = state['first_fail_t'] is not None
            if not shrinking:
                state['runs'] += 1
                stats.evaluations += 1
                stats.labels.update(out.labels)
                stats.counts.update(out.counts)
                if _LABEL_DUMP:
                    with open('%s.%d' % (_LABEL_DUMP, os.getpid()), 'a') as lf:
                        lf.write(json.dumps(sorted(set(out.labels))) + '\n')
                if out.kind == 'skip':
                    stats.skipped[out.bucket] += 1
                if out.nontrivial and out.kind == 'ok':
                    sig = out.sig or case_sig(case)
                    if sig not in stats.sigs:
                        stats.sigs.add(sig)
                        if len(stats.samples) < 4:
                            stats.samples.append(mod.sample_repr(case, out))
            if out.kind == 'violation':
                ent = match_known(known, out.bucket)
                if ent is not None:
                    if not shrinking:
                        stats.known_hits[ent['id']] += 1
                    return
                if out.bucket in excluded:
                    if not shrinking:
                        stats.excluded[out.bucket] += 1
                    return
                state['last'] = (case, out)
                if state['first_fail_t'] is None:
                    state['first_fail_t'] = time.time()
                raise _Found(out.bucket)

        phases = (Phase.generate, Phase.shrink)
        test = given(strategy)(body)
        test = settings(max_examples=remaining, database=None, deadline=None,
                        derandomize=False, report_multiple_bugs=False,
                        phases=phases, print_blob=False,
                        suppress_health_check=[HealthCheck.too_slow,
                                               HealthCheck.data_too_large,
                                               HealthCheck.large_base_example,
                                               ])(test)
        test = hypothesis.seed(_derive_seed(seed, shard, rnd))(test)
        try:
            test()
        except _Found:
            pass
        except hypothesis.errors.FailedHealthCheck:
            stats.harness_error = traceback.format_exc()
        except hypothesis.errors.Flaky:
            # expected when the shrink time budget cuts replays short after a
            # violation; without a violation it is an error of the harness
            # (an exception outside check()), never to be swallowed
            if state['last'] is None:
                stats.harness_error = traceback.format_exc()
        except hypothesis.errors.HypothesisException:
            if state['last'] is None:
                stats.harness_error = traceback.format_exc()
        except Exception:
            if state['last'] is None:
                stats.harness_error = traceback.format_exc()
        remaining -= max(state['runs'], 1)
        if state['last'] is None:
            break
        case, out = state['last']
        found[out.bucket] = (case, out.detail)
        excluded.add(out.bucket)
        if time.time() - t_start > time_budget:
            stats.budget_exhausted = True
            break
    try:
        from . import conv
        conv.cleanup()
    except Exception:
        pass
    covmod.dump('%s-shard%d' % (pid, shard))
    return stats, found


# --------------------------------------------------------------------------
# driver
# --------------------------------------------------------------------------

def write_replay(pid, bucket, case, detail, seed, mod):
    d = os.path.join(os.environ.get('T4GC_REPLAY_DIR') or
                     os.path.join(VERIF, 'replays'), pid)
    os.makedirs(d, exist_ok=True)
    h = hashlib.sha1(bucket.encode()).hexdigest()[:10]
    path = os.path.join(d, '%s.json' % h)
    payload = {'property': pid, 'bucket': bucket, 'seed': seed, 'case': case,
               'detail': detail}
    try:
        payload['rendered'] = mod.render_case(case)
    except Exception:
        pass
    with open(path, 'w') as f:
        json.dump(payload, f, indent=1, default=str)
    return os.path.relpath(path, VERIF) if path.startswith(VERIF + os.sep) \
        else path


def run_replay(pid, path):
    mod = importlib.import_module('vlib.props.' + pid.lower())
    with open(path) as f:
        payload = json.load(f)
    out = guarded_check(mod, payload['case'])
    if out.kind == 'violation':
        known = load_known(pid)
        ent = match_known(known, out.bucket)
        if ent is not None:
            print('KNOWN-FINDING: property=%s %s' % (pid, ent['description']))
            return 0
        print('replay bucket: %s' % out.bucket)
        print(json.dumps(out.detail, indent=1, default=str)[:4000])
        print('VIOLATION property=%s replay=%s' % (pid, path))
        return 1
    print('replay of %s: %s' % (path, out.kind))
    return 0


def run_regress(pid, mod, stats):
    """Seconds-long replay tier: saved cases of fixed findings and seeded
    changes are re-run first, bypassing Hypothesis."""
    d = os.path.join(VERIF, 'regress', pid)
    found = {}
    if not os.path.isdir(d):
        return found
    known = load_known(pid)
    for name in sorted(os.listdir(d)):
        if not name.endswith('.json'):
            continue
        with open(os.path.join(d, name)) as f:
            payload = json.load(f)
        out = guarded_check(mod, payload['case'])
        stats.counts['regress_cases'] += 1
        if out.kind == 'violation':
            ent = match_known(known, out.bucket)
            if ent is not None:
                stats.known_hits[ent['id']] += 1
                continue
            found[out.bucket] = (payload['case'], out.detail)
    return found


def main(argv=None):
    argv = list(sys.argv[1:] if argv is None else argv)
    if not argv:
        print(__doc__)
        return 2
    pid = argv[0].upper()
    tier = os.environ.get('VERIF_TIER', 'quick')
    replay = None
    rest = argv[1:]
    while rest:
        a = rest.pop(0)
        if a in ('quick', 'thorough'):
            tier = a
        elif a == '--replay':
            replay = rest.pop(0)
        else:
            print('unknown argument %r' % a)
            return 2
    try:
        seed = int(os.environ.get('VERIF_SEED', '1'))
    except ValueError:
        seed = 1
    if replay:
        try:
            return run_replay(pid, replay)
        except Exception:
            traceback.print_exc()
            return 2
    t0 = time.time()
    try:
        mod = importlib.import_module('vlib.props.' + pid.lower())
    except Exception:
        traceback.print_exc()
        return 2
    budget = mod.budget(tier)
    shards = budget.get('shards', 1)
    n_examples = budget['max_examples']
    time_budget = budget.get('time_budget', 150 if tier == 'quick' else 2400)
    max_rounds = budget.get('max_rounds', 4)
    total = Stats()
    found = {}
    covmod.start()
    # 1. replay tier
    try:
        found.update(run_regress(pid, mod, total))
    except Exception:
        traceback.print_exc()
        return 2
    # 2. optional deterministic part (exhaustive enumerations, fixed corpus)
    if hasattr(mod, 'extra'):
        try:
            efound = mod.extra(tier, seed, total)
            known = load_known(pid)
            for b, v in (efound or {}).items():
                ent = match_known(known, b)
                if ent is not None:
                    total.known_hits[ent['id']] += 1
                else:
                    found[b] = v
        except HarnessError:
            traceback.print_exc()
            return 2
        except Exception:
            traceback.print_exc()
            return 2
    # 3. generated search
    if n_examples > 0:
        per = max(1, n_examples // shards)
        jobs = [(pid, tier, seed, sh, per, time_budget, max_rounds)
                for sh in range(shards)]
        if shards == 1:
            results = [run_shard(jobs[0])]
        else:
            try:
                results = pmap(run_shard, jobs, shards)
            except Exception:
                traceback.print_exc()
                return 2
        for st, fnd in results:
            total.merge(st)
            for b, v in fnd.items():
                found.setdefault(b, v)
    wall = time.time() - t0
    covmod.dump('%s-main' % pid)
    if total.harness_error:
        print('HARNESS ERROR in %s:\n%s' % (pid, total.harness_error))
        return 2
    # known findings
    known = load_known(pid)
    for ent in known:
        print('KNOWN-FINDING: property=%s %s [%s; matched %d generated cases '
              'in this run]' % (pid, ent['description'], ent['id'],
                                total.known_hits.get(ent['id'], 0)))
    # evidence
    nontriv = len(total.sigs) + total.counts.get('extra_nontrivial', 0)
    cov = {
        'evaluations': total.evaluations + total.counts.get('extra_evaluations', 0),
        'distinct_nontrivial': nontriv,
        'rule': mod.RULE,
        'samples': total.samples[:6] or [],
        'labels': dict(total.labels.most_common(150)),
        'counters': {k: v for k, v in total.counts.items()},
        'skipped': dict(total.skipped),
        'excluded_by_bucket': dict(total.excluded),
        'known_finding_hits': dict(total.known_hits),
        'budget_exhausted': total.budget_exhausted,
        'shards': shards,
    }
    if hasattr(mod, 'evidence_extra'):
        cov.update(mod.evidence_extra(tier, total))
    ev = {'property_id': pid, 'tier': tier, 'seed': seed,
          'level': mod.LEVEL, 'coverage': cov,
          'assumptions': list(getattr(mod, 'ASSUMPTIONS', [])),
          'wall_s': round(wall, 2), 'violations': len(found)}
    evdir = os.environ.get('T4GC_EVIDENCE_DIR') or \
        os.path.join(VERIF, 'evidence')
    os.makedirs(evdir, exist_ok=True)
    with open(os.path.join(evdir, '%s.json' % pid), 'w') as f:
        json.dump(ev, f, indent=1, default=str)
    print('%s %s seed=%d: %d cases, %d distinct non-trivial, %d violation '
          'bucket(s), %.1fs' % (pid, tier, seed, cov['evaluations'], nontriv,
                                len(found), wall))
    if not found and (cov['evaluations'] < 1 or nontriv < 2):
        print('HARNESS ERROR: too few non-trivial cases (generator problem)')
        return 2
    if found:
        for bucket, (case, detail) in sorted(found.items()):
            path = write_replay(pid, bucket, case, detail, seed, mod)
            print('bucket: %s' % bucket)
            print('detail: %s' % json.dumps(detail, default=str)[:1500])
            print('VIOLATION property=%s replay=%s' % (pid, path))
        return 1
    return 0


if __name__ == '__main__':
    sys.exit(main())
