"""Abstract MCNP deck model and its point-location semantics (DESIGN 3.1/4.2).

A deck is a JSON-serialisable dict (see ``new_deck``).  Decks are generated as
data and rendered to text by ``mrender``; the harness never parses MCNP text.
``Locator`` evaluates the model: which cell owns a point, through universes,
fills, lattices and transformations.  Nothing here imports the repository.
"""
import copy
import math

import numpy as np

from . import mgeom
from .mgeom import Rigid, ModelError

# --------------------------------------------------------------------------
# construction helpers
# --------------------------------------------------------------------------


def new_deck(title='generated deck'):
    return {'title': title, 'message': None, 'cells': [], 'surfaces': [],
            'transforms': [], 'materials': [], 'imp_cards': None,
            'lattice_opts': [], 'extra_data': []}


def surf(id_, kind, params, tr=None, bc=''):
    return {'id': int(id_), 'kind': kind, 'params': [float(x) for x in params],
            'tr': tr, 'bc': bc}


def cell(id_, mat, rho, expr, imp=None, u=None, fill=None, trcl=None,
         lat=None, like=None):
    return {'id': int(id_), 'mat': int(mat), 'rho': rho, 'expr': expr,
            'imp': imp, 'u': u, 'fill': fill, 'trcl': trcl, 'lat': lat,
            'like': like}


def S(n):
    return ['s', int(n)]


def F(n, k):
    return ['f', int(n), int(k)]


def AND(*xs):
    return ['&'] + list(xs)


def OR(*xs):
    return ['|'] + list(xs)


def NOT(x):
    return ['~', x]


def CELLC(n):
    return ['#', int(n)]


def trspec(o, full, star=False, n_entries=12, mask=None, m=None):
    """Transformation as written: ``full`` holds the nine matrix numbers in
    the written unit (cosines, or degrees when ``star``); ``mask`` marks which
    of them are actually given (others rendered as J / omitted)."""
    return {'o': [float(x) for x in o],
            'full': None if full is None else [float(x) for x in full],
            'star': bool(star), 'n': int(n_entries), 'mask': mask, 'm': m}


def rigid_of(spec):
    """Rigid motion denoted by a transformation spec (the completed matrix is
    the one the generator started from)."""
    if spec is None:
        return mgeom.IDENTITY
    if spec['full'] is None or spec['n'] == 3:
        return Rigid(spec['o'])
    vals = spec['full']
    if spec['star']:
        vals = [math.cos(math.radians(v)) for v in vals]
    return Rigid(spec['o'], vals)


# --------------------------------------------------------------------------
# LIKE n BUT expansion (model side)
# --------------------------------------------------------------------------

def expand_like(deck):
    """Return a copy of the deck where every LIKE cell is replaced by the
    explicit cell it abbreviates (copy of the base + overrides)."""
    new = copy.deepcopy(deck)
    by_id = {c['id']: c for c in new['cells']}

    def resolve(c, depth=0):
        if c.get('like') is None:
            return c
        if depth > 20:
            raise ModelError('LIKE chain too deep / cyclic')
        base = resolve(by_id[c['like']['base']], depth + 1)
        out = copy.deepcopy(base)
        out['id'] = c['id']
        out['like'] = None
        but = c['like']['but']
        for key, val in but.items():
            if key == 'imp':
                # importances are overridden per particle type
                merged = dict(out.get('imp') or {})
                merged.update(val)
                out['imp'] = merged
                out.pop('imp_groups', None)
                continue
            if key == 'imp_groups':
                continue
            out[key] = copy.deepcopy(val)
        if out.get('mat') == 0:
            out['rho'] = None       # MAT=0: the copy is void
        by_id[c['id']] = out
        return out

    new['cells'] = [resolve(c) for c in new['cells']]
    return new


# --------------------------------------------------------------------------
# importances
# --------------------------------------------------------------------------

def cell_importance(deck, rank, c):
    """Importance of a cell as a dict particle -> value; cell-card keywords
    win, otherwise the value at the cell's rank in each IMP data card."""
    if c.get('imp'):
        return dict(c['imp'])
    cards = deck.get('imp_cards') or {}
    out = {}
    for part, card in cards.items():
        vals = card['values']
        if rank >= len(vals):
            raise ModelError('IMP:%s card too short' % part)
        out[part] = vals[rank]
    return out


def is_zero_importance(imp):
    return all(v == 0 for v in imp.values())


# --------------------------------------------------------------------------
# lattice helpers (independent of the repository's Lattice.py)
# --------------------------------------------------------------------------

def _plane_nd(deck_surfs, sid, trs=None, facet=None):
    s = deck_surfs[abs(sid)]
    k = s['kind'].lower()
    p = s['params']
    if facet is not None:
        try:
            n_, d_ = mgeom.facet_planes(k, p)[facet - 1]
        except (mgeom.ModelError, IndexError):
            raise ModelError('facet %r of %s is not a lattice plane'
                             % (facet, k))
    elif k in ('px', 'py', 'pz'):
        n = np.zeros(3)
        n[mgeom.AXIS[k[1]]] = 1.0
        n_, d_ = n, p[0]
    elif k == 'p' and len(p) == 4:
        n_, d_ = np.array(p[:3], dtype=float), p[3]
    elif k == 'p' and len(p) == 9:
        n_, d_ = mgeom.plane3_params(p)
    else:
        raise ModelError('lattice surface %d is not a plane' % sid)
    if s.get('tr') is not None:
        if trs is None:
            raise ModelError('transformed lattice plane without TR table')
        T = rigid_of(trs[s['tr']]['spec'])
        # aux: n.a = d with a = B (p - o)  ->  (B^T n).p = d + (B^T n).o
        n_ = T.B.T @ np.asarray(n_, dtype=float)
        d_ = d_ + float(n_ @ T.o)
    return n_, d_


def rect_lattice_frame(deck_surfs, leaves, trs=None):
    """From the signed plane leaves of a LAT=1 cell (in card order, pairs
    consecutive) return (W, c): rows of W are the reciprocal vectors and the
    pair coordinate is s = W p - c; element index = floor(s)."""
    if len(leaves) not in (2, 4, 6):
        raise ModelError('LAT=1 cell needs 2, 4 or 6 planes')
    W, C = [], []
    for q in range(0, len(leaves), 2):
        na, da = _plane_nd(deck_surfs, leaves[q][0], trs, leaves[q][1])
        nb, db = _plane_nd(deck_surfs, leaves[q + 1][0], trs,
                           leaves[q + 1][1])
        # make the two normals comparable (same direction)
        na_u = na / np.linalg.norm(na)
        nb_u = nb / np.linalg.norm(nb)
        da_u = da / np.linalg.norm(na)
        db_u = db / np.linalg.norm(nb)
        if na_u @ nb_u < 0:
            nb_u, db_u = -nb_u, -db_u
        if not np.allclose(na_u, nb_u, atol=1e-9):
            raise ModelError('lattice planes of a pair are not parallel')
        W.append(na_u / (da_u - db_u))
        C.append(db_u / (da_u - db_u))
    return np.array(W), np.array(C)


def lattice_vectors(W):
    """Translation vectors a_m with W a_m = e_m lying in the row space of W."""
    return np.linalg.pinv(W).T  # rows are a_m


# --------------------------------------------------------------------------
# point location
# --------------------------------------------------------------------------

NO_ELEMENT = -(2 ** 40)


class Located:
    """Result of locating an array of points."""

    def __init__(self, n):
        self.n = n
        self.owner = np.full(n, -1, dtype=np.int64)   # owning leaf cell
        self.chain = [None] * n       # tuple of ('c', id) / ('l', id, idx)
        self.count = np.zeros(n, dtype=np.int64)      # leaf cells claiming it
        self.undec = np.zeros(n, dtype=bool)
        self.level0 = np.full(n, -1, dtype=np.int64)  # level-0 cell
        self.dead = np.zeros(n, dtype=bool)   # some container has imp 0

    def key(self, i):
        return (int(self.owner[i]), self.chain[i])


class Locator:
    def __init__(self, deck):
        self.deck = expand_like(deck)
        self.surfs = {s['id']: s for s in self.deck['surfaces']}
        self.cells = {c['id']: c for c in self.deck['cells']}
        self.rank = {c['id']: r for r, c in enumerate(self.deck['cells'])}
        self.trs = {t['id']: t for t in self.deck['transforms']}
        self.by_u = {}
        for c in self.deck['cells']:
            self.by_u.setdefault(c['u'] or 0, []).append(c)
        self.imp = {c['id']: cell_importance(self.deck, self.rank[c['id']], c)
                    for c in self.deck['cells']}

    # -- transformations ---------------------------------------------------
    def tr_rigid(self, ref):
        """ref is None, {'num': n} or {'inline': spec}."""
        if ref is None:
            return None
        if 'num' in ref:
            return rigid_of(self.trs[ref['num']]['spec'])
        return rigid_of(ref['inline'])

    def cell_trcl(self, c):
        return self.tr_rigid(c.get('trcl'))

    # -- surfaces ----------------------------------------------------------
    def surf_neg(self, sid, P, facet=None):
        """Negative-sense mask of surface ``sid`` (positive id) at P."""
        sid = abs(sid)
        if sid not in self.surfs and sid >= 1000:
            cid, base = divmod(sid, 1000)
            c = self.cells.get(cid)
            if c is None or base not in self.surfs:
                raise ModelError('implicit surface %d unresolved' % sid)
            T = self.cell_trcl(c)
            if T is not None:
                P = T.to_aux(P)
            sid = base
        s = self.surfs[sid]
        if s.get('tr') is not None:
            P = rigid_of(self.trs[s['tr']]['spec']).to_aux(P)
        kind = s['kind'].lower()
        if kind in mgeom.MACRO_KINDS:
            if facet is None:
                return mgeom.body_inside(kind, s['params'], P)
            facets = mgeom.body_facets(kind, s['params'], P)
            if facet < 1 or facet > len(facets):
                raise ModelError('facet %d of surface %d' % (facet, sid))
            return facets[facet - 1]
        if facet is not None:
            raise ModelError('facet of non-macrobody %d' % sid)
        return mgeom.surface_neg(kind, s['params'], P)

    # -- expressions -------------------------------------------------------
    def expr_in(self, expr, P, Ptr, undec, stack=()):
        """Membership of expression; ``Ptr`` = points in the cell's TRCL
        frame (used for surfaces), ``P`` = points in the universe frame (used
        for complements of other cells)."""
        op = expr[0]
        if op in ('s', 'f'):
            n = expr[1]
            facet = expr[2] if op == 'f' else None
            neg, dec = self.surf_neg(abs(n), Ptr, facet)
            undec |= ~dec
            return neg if n < 0 else ~neg
        if op == '&':
            res = np.ones(len(P), dtype=bool)
            for sub in expr[1:]:
                res &= self.expr_in(sub, P, Ptr, undec, stack)
            return res
        if op == '|':
            res = np.zeros(len(P), dtype=bool)
            for sub in expr[1:]:
                res |= self.expr_in(sub, P, Ptr, undec, stack)
            return res
        if op == '~':
            return ~self.expr_in(expr[1], P, Ptr, undec, stack)
        if op == '#':
            cid = expr[1]
            if cid in stack:
                raise ModelError('cyclic complement through cell %d' % cid)
            return ~self.cell_in(self.cells[cid], P, undec, stack + (cid,))
        raise ModelError('bad expression node %r' % (op,))

    def cell_in(self, c, P, undec, stack=()):
        T = self.cell_trcl(c)
        Ptr = T.to_aux(P) if T is not None else P
        return self.expr_in(c['expr'], P, Ptr, undec, stack)

    # -- location ----------------------------------------------------------
    def locate(self, P):
        P = np.asarray(P, dtype=float).reshape(-1, 3)
        out = Located(len(P))
        self._locate_u(0, P, np.arange(len(P)), (), out, 0)
        return out

    def _leaves(self, expr, with_facets=False):
        if expr[0] == 's':
            s_ = self.surfs.get(abs(expr[1]))
            if with_facets and expr[1] < 0 and s_ is not None and \
                    s_['kind'].lower() in ('rpp', 'box', 'rhp', 'hex'):
                # a whole body bounding a lattice cell stands for its facets
                # in facet order
                nf = 6 if s_['kind'].lower() in ('rpp', 'box') else 8
                return [(expr[1], k) for k in range(1, nf + 1)]
            return [(expr[1], None)] if with_facets else [expr[1]]
        if expr[0] == 'f' and with_facets:
            return [(expr[1], expr[2])]
        if expr[0] == '&':
            res = []
            for sub in expr[1:]:
                res.extend(self._leaves(sub, with_facets))
            return res
        raise ModelError('lattice cell must be an intersection of planes')

    def _leaves_any(self, expr):
        """Surface numbers referred to directly (not through #n) by an
        expression of any shape."""
        if expr is None:
            return []
        if expr[0] in ('s', 'f'):
            return [expr[1]]
        if expr[0] == '#':
            return []
        out = []
        for sub in expr[1:]:
            out.extend(self._leaves_any(sub))
        return out

    def _locate_u(self, u, P, idx, chain, out, depth):
        if depth > 12:
            raise ModelError('universe nesting too deep / cyclic')
        if len(idx) == 0:
            return
        cells = self.by_u.get(u, [])
        for c in cells:
            if c.get('lat'):
                self._locate_lattice(c, P, idx, chain, out, depth)
                continue
            undec = np.zeros(len(P), dtype=bool)
            ins = self.cell_in(c, P, undec, (c['id'],))
            out.undec[idx[undec]] = True
            sel = np.nonzero(ins)[0]
            if len(sel) == 0:
                continue
            if depth == 0:
                out.level0[idx[sel]] = c['id']
            dead = is_zero_importance(self.imp[c['id']])
            if c.get('fill') is None:
                self._assign(c['id'], idx[sel], chain, out, dead)
                continue
            if dead:
                out.dead[idx[sel]] = True
            fill = c['fill']
            T = self.tr_rigid(fill.get('tr'))
            if T is None:
                T = self.cell_trcl(c)
            Pn = P[sel] if T is None else T.to_aux(P[sel])
            self._locate_u(fill['u'], Pn, idx[sel],
                           chain + (('c', c['id']),), out, depth + 1)

    def _assign(self, cid, gidx, chain, out, dead):
        out.count[gidx] += 1
        out.owner[gidx] = cid
        for g in gidx:
            out.chain[g] = chain
        if dead:
            out.dead[gidx] = True

    def lattice_info(self, c):
        """(W, C, A, ranges, univs) of a LAT=1 cell."""
        leaves = self._leaves(c['expr'], with_facets=True)
        W, C = rect_lattice_frame(self.surfs, leaves, self.trs)
        A = lattice_vectors(W)
        fill = c['fill']
        ranges = [tuple(r) for r in fill['ranges']]
        return leaves, W, C, A, ranges

    def _lattice_indices(self, c, Pa):
        """Element indices of points Pa (lattice frame): returns
        (ind[N, ndim], undecided[N], A[ndim, 3], ranges)."""
        if c['lat'] == 2:
            from . import mhex
            return mhex.hex_indices(self, c, Pa)
        leaves, W, C, A, ranges = self.lattice_info(c)
        s = Pa @ W.T - C
        fl = np.floor(s)
        frac = s - fl
        # undecided if a pair coordinate is too close to an integer
        scale = np.abs(Pa) @ np.abs(W.T) + np.abs(C) + 1.0
        near = np.minimum(frac, 1.0 - frac) < mgeom.REL_TOL * scale
        return fl.astype(np.int64), np.any(near, axis=1), A, ranges

    def _locate_lattice(self, c, P, idx, chain, out, depth):
        T = self.cell_trcl(c)
        Pa = T.to_aux(P) if T is not None else P
        ind, near, A, ranges = self._lattice_indices(c, Pa)
        out.undec[idx[near]] = True
        ndim = A.shape[0]
        # pad indices to the number of declared ranges
        nr = len(ranges)
        if nr < ndim:
            raise ModelError('fewer ranges than lattice dimensions')
        if depth == 0:
            out.level0[idx] = c['id']
        dead = is_zero_importance(self.imp[c['id']])
        fill = c['fill']
        Tf = self.tr_rigid(fill.get('tr'))
        uniq, inv = np.unique(ind, axis=0, return_inverse=True)
        inv = np.asarray(inv).reshape(-1)
        for k, tup in enumerate(uniq):
            sel = np.nonzero(inv == k)[0]
            if tup[0] == NO_ELEMENT:
                continue
            full_idx = tuple(int(t) for t in tup) + (0,) * (nr - ndim)
            # outside the declared ranges: nothing is generated
            inside = all(ranges[q][0] <= full_idx[q] <= ranges[q][1]
                         for q in range(nr))
            if not inside:
                continue
            uni = self._lattice_universe(c, full_idx, ranges)
            if uni == 0:
                continue
            echain = chain + (('l', c['id'], full_idx),)
            if uni == (c['u'] or 0):
                self._assign(c['id'], idx[sel], echain, out, dead)
                continue
            transl_aux = np.array(tup, dtype=float) @ A
            if dead:
                out.dead[idx[sel]] = True
            if Tf is not None:
                if T is not None:
                    transl_main = transl_aux @ T.B
                else:
                    transl_main = transl_aux
                Pn = Tf.to_aux(P[sel] - transl_main)
            else:
                Pn = Pa[sel] - transl_aux
            self._locate_u(uni, Pn, idx[sel], echain, out, depth + 1)

    def _lattice_universe(self, c, full_idx, ranges):
        fill = c['fill']
        if fill.get('univs') is None:
            return fill['u']
        pos = 0
        mult = 1
        for q, (lo, hi) in enumerate(ranges):
            pos += (full_idx[q] - lo) * mult
            mult *= (hi - lo + 1)
        return fill['univs'][pos]

    # -- expected composition ---------------------------------------------
    def material_of(self, cid):
        c = self.cells[cid]
        return c['mat'], c['rho']
