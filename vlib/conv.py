"""Conversion runner: drives the converter under test (DESIGN.md section 3.3).

The repository is imported from the *current working tree* at ``T4GC_REPO``
(default ``/repo``); there is no build step, so a fresh interpreter per check
invocation is "rebuilding from the working tree".
"""
import atexit
import contextlib
import io
import os
import shutil
import subprocess
import sys
import tempfile
import traceback
import warnings

REPO = os.path.abspath(os.environ.get('T4GC_REPO', '/repo'))
VERIF = os.path.dirname(os.path.dirname(os.path.abspath(__file__)))
SHIM_DIR = os.path.join(VERIF, 'vlib', 'shim')
PYTHON = os.environ.get('T4GC_PYTHON', '/venv/bin/python')

_loaded = {}


def load_repo():
    """Import the converter from the working tree (once per process)."""
    if _loaded:
        return _loaded
    if REPO in sys.path:
        sys.path.remove(REPO)
    sys.path.insert(0, REPO)
    from . import tatsu_shim
    tatsu_shim.apply()
    import t4_geom_convert.main as t4main
    got = os.path.abspath(t4main.__file__)
    if not got.startswith(REPO + os.sep):
        raise RuntimeError('converter imported from %s, expected under %s'
                           % (got, REPO))
    _loaded['main'] = t4main
    return _loaded


_scratch = None
_scratch_pid = None


def scratch_dir():
    """Per-process scratch directory (a forked child never shares its
    parent's)."""
    global _scratch, _scratch_pid
    if _scratch is None or _scratch_pid != os.getpid() \
            or not os.path.isdir(_scratch):
        _scratch = tempfile.mkdtemp(prefix='t4gc_verif_')
        _scratch_pid = os.getpid()
        atexit.register(cleanup)
    return _scratch


def cleanup():
    global _scratch
    if _scratch and _scratch_pid == os.getpid() and os.path.isdir(_scratch):
        shutil.rmtree(_scratch, ignore_errors=True)
        _scratch = None


class Result:
    __slots__ = ('ok', 'exc_type', 'exc_msg', 'frame', 'frames', 't4_text',
                 'stdout', 'warnings', 'exit_code', 'raw_text')

    def __init__(self):
        self.ok = False
        self.exc_type = None
        self.exc_msg = None
        self.frame = None
        self.frames = []
        self.t4_text = None
        self.raw_text = None
        self.stdout = ''
        self.warnings = []
        self.exit_code = None

    def crash_key(self):
        return '%s@%s' % (self.exc_type, self.frame)

    def brief(self):
        if self.ok:
            return 'ok'
        return '%s: %s (%s)' % (self.exc_type, (self.exc_msg or '')[:300],
                                self.frame)


def strip_header(text):
    """Remove the three-line header (it echoes sys.argv and the version)."""
    lines = text.split('\n')
    out = [ln for ln in lines
           if not ln.startswith('// t4_geom_convert command line:')]
    return '\n'.join(out)


def _repo_frame(tb):
    frames = []
    for fs in traceback.extract_tb(tb):
        fn = os.path.abspath(fs.filename)
        if fn.startswith(REPO + os.sep):
            rel = os.path.relpath(fn, REPO)
            frames.append('%s:%s' % (rel, fs.name))
    return frames


_counter = [0]


def trim_library_caches(limit=20000):
    """The installed TatSu keeps every argument binding of every parse in an
    unbounded class-level dictionary (tatsu.util.typetools.BoundCallable.
    _BIND_CACHE, ~75 kB per parsed cell): a process that parses 10^5 cells
    grows to several GB.  It is a pure cache; the harness empties it now and
    then (sandbox hygiene like the shim, no effect on results)."""
    try:
        from tatsu.util import typetools
        cache = typetools.BoundCallable._BIND_CACHE
        if len(cache) > limit:
            cache.clear()
    except Exception:
        pass


def convert(deck_text, argv=(), encoding='utf-8', keep=False, name=None):
    """Convert ``deck_text`` in-process; returns a :class:`Result`."""
    mods = load_repo()
    trim_library_caches()
    t4main = mods['main']
    d = scratch_dir()
    _counter[0] += 1
    base = name or ('case%d_%d' % (os.getpid(), _counter[0]))
    ipath = os.path.join(d, base + '.imcnp')
    opath = os.path.join(d, base + '.t4')
    with open(ipath, 'w', encoding=encoding, newline='') as f:
        f.write(deck_text)
    res = Result()
    buf = io.StringIO()
    old_argv = sys.argv
    try:
        full_argv = list(argv) + [ipath, '-o', opath]
        sys.argv = ['t4_geom_convert'] + full_argv
        with warnings.catch_warnings(record=True) as wlist:
            warnings.simplefilter('always')
            with contextlib.redirect_stdout(buf), \
                    contextlib.redirect_stderr(io.StringIO()):
                try:
                    args = t4main.parse_args(full_argv)
                    t4main.conversion(args)
                    res.ok = True
                except SystemExit as exc:
                    res.exc_type = 'SystemExit'
                    res.exc_msg = str(exc.code)
                    res.frame = 'argparse'
                except RecursionError as exc:
                    res.exc_type = 'RecursionError'
                    res.exc_msg = str(exc)[:200]
                    fr = _repo_frame(exc.__traceback__)
                    res.frames = fr[-3:]
                    res.frame = fr[-1] if fr else '?'
                except Exception as exc:  # the subject may raise anything
                    res.exc_type = type(exc).__name__
                    res.exc_msg = str(exc)
                    fr = _repo_frame(exc.__traceback__)
                    res.frames = fr[-6:]
                    res.frame = fr[-1] if fr else '?'
        res.warnings = [str(w.message) for w in wlist]
    finally:
        sys.argv = old_argv
    res.stdout = buf.getvalue()
    if res.ok:
        with open(opath, 'r', encoding='utf-8') as f:
            res.raw_text = f.read()
        res.t4_text = strip_header(res.raw_text)
    if not keep:
        for p in (ipath, opath):
            try:
                os.unlink(p)
            except OSError:
                pass
    return res


def fresh_env(hashseed='0'):
    env = dict(os.environ)
    env['PYTHONPATH'] = os.pathsep.join([SHIM_DIR, REPO])
    env['PYTHONHASHSEED'] = str(hashseed)
    env['PYTHONDONTWRITEBYTECODE'] = '1'
    return env


def convert_fresh(ipath, opath, argv=(), hashseed='0', timeout=300):
    """Run the CLI entry point in a fresh interpreter on an existing file."""
    cmd = [PYTHON, '-c',
           'from t4_geom_convert.main import main; main()'] \
        + list(argv) + [ipath, '-o', opath]
    proc = subprocess.run(cmd, env=fresh_env(hashseed), capture_output=True,
                          text=True, timeout=timeout, cwd=os.path.dirname(ipath))
    res = Result()
    res.exit_code = proc.returncode
    res.stdout = proc.stdout
    res.ok = proc.returncode == 0
    if res.ok and os.path.exists(opath):
        with open(opath, 'r', encoding='utf-8') as f:
            res.raw_text = f.read()
        res.t4_text = strip_header(res.raw_text)
    else:
        res.ok = False
        tail = (proc.stderr or '').strip().split('\n')
        res.exc_msg = tail[-1] if tail else ''
        res.exc_type = res.exc_msg.split(':')[0] if res.exc_msg else 'exit'
    return res


def convert_path(ipath, opath, argv=(), default_output=False):
    """In-process conversion of an existing input file (used by C18, which
    watches the input file and its directory).  With ``default_output`` no
    -o is given and ``opath`` is where the converter is expected to write."""
    mods = load_repo()
    trim_library_caches()
    t4main = mods['main']
    res = Result()
    buf = io.StringIO()
    old_argv = sys.argv
    try:
        full_argv = list(argv) + [ipath]
        if not default_output:
            full_argv += ['-o', opath]
        sys.argv = ['t4_geom_convert'] + full_argv
        with warnings.catch_warnings(record=True):
            warnings.simplefilter('always')
            with contextlib.redirect_stdout(buf), \
                    contextlib.redirect_stderr(io.StringIO()):
                try:
                    t4main.conversion(t4main.parse_args(full_argv))
                    res.ok = True
                except SystemExit as exc:
                    res.exc_type, res.exc_msg = 'SystemExit', str(exc.code)
                except Exception as exc:
                    res.exc_type = type(exc).__name__
                    res.exc_msg = str(exc)
                    fr = _repo_frame(exc.__traceback__)
                    res.frame = fr[-1] if fr else '?'
    finally:
        sys.argv = old_argv
    res.stdout = buf.getvalue()
    if res.ok and os.path.exists(opath):
        with open(opath, 'r', encoding='utf-8') as f:
            res.raw_text = f.read()
        res.t4_text = strip_header(res.raw_text)
    return res


def reload_repo():
    """Forget the imported converter so that the next load_repo() starts from
    freshly imported modules (a case then is a pure function of its own
    history)."""
    for name in list(sys.modules):
        if name == 'MIP' or name.startswith('MIP.') or \
                name == 't4_geom_convert' or \
                name.startswith('t4_geom_convert.'):
            del sys.modules[name]
    _loaded.clear()
