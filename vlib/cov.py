"""Optional line coverage of the converter under the checks (diagnostic only).

With T4GC_COVERAGE=<dir> every runner process records which lines of
t4_geom_convert it executed (sys.monitoring, Python 3.12) and dumps them to
<dir>/<tag>.<pid>.json at the end.  tools/coverage_report.py merges the dumps
and lists the executable lines no check reached; that list is what drives
generator extensions (DESIGN section 17).  It has no influence on verdicts.
"""
import json
import os
import sys

_LINES = {}
_ON = False
TOOL = 3


def start():
    global _ON
    d = os.environ.get('T4GC_COVERAGE')
    if not d or _ON or not hasattr(sys, 'monitoring'):
        return
    mon = sys.monitoring
    try:
        mon.use_tool_id(TOOL, 't4gc-cov')
    except ValueError:
        pass

    def on_line(code, line):
        fn = code.co_filename
        if 't4_geom_convert' in fn and 'site-packages' not in fn:
            _LINES.setdefault(fn, set()).add(line)
        return mon.DISABLE

    mon.register_callback(TOOL, mon.events.LINE, on_line)
    mon.set_events(TOOL, mon.events.LINE)
    _ON = True


def dump(tag):
    d = os.environ.get('T4GC_COVERAGE')
    if not d or not _ON:
        return
    os.makedirs(d, exist_ok=True)
    path = os.path.join(d, '%s.%d.json' % (tag, os.getpid()))
    with open(path, 'w') as f:
        json.dump({k: sorted(v) for k, v in _LINES.items()}, f)
