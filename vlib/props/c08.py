"""C08 - every written file is structurally valid TRIPOLI-4 input."""
import glob
import os
import re
import shlex

from hypothesis import strategies as st

from .. import conv, gen_hier, mrender as mr, t4read
from ..runner import ok, violation, skip, case_sig
from . import c01

PID = 'C08'
LEVEL = 'exploration'
RULE = ('Decks from the union of the level-0 (C01), hierarchical (C05), '
        'rectangular-lattice (C06) and hexagonal-lattice (C07) generators, '
        'decorated with duplicate, unused and flagged (reflecting / white) '
        'surfaces and patently empty pieces, converted under every '
        'combination of --skip-deduplication, --always-inline-filling, '
        '--always-inline-filled, --max-inline-score in {-1, 0, 0.5, 1, 2, '
        '1e9}, --skip-compositions / --skip-geomcomp / '
        '--skip-boundary-conditions; plus the 128 shipped decks as a fixed '
        'corpus. Oracle: strict reader of the written dialect + one validity '
        'clause per sentence of the statement. Non-trivial: the file has a '
        'UNION or INTE operator and the deck has a FILL or a pruned '
        '(patently empty / duplicate-surface) piece; distinct = (deck text, '
        'options).')
ASSUMPTIONS = [
    'the TRIPOLI-4 dialect is the one the writer emits (DESIGN 3.4); a '
    'declared count of 0 with no items is noted, not counted as a violation',
    'decks are valid MCNP by construction; a crash is reported separately '
    '(bucket crash:*) since the property quantifies over accepted decks',
]

SCORES = [None, '-1', '0', '0.5', '1', '2', '1e9']


@st.composite
def options(draw):
    argv = []
    for flag in ('--skip-deduplication', '--always-inline-filling',
                 '--always-inline-filled'):
        if draw(st.booleans()):
            argv.append(flag)
    score = draw(st.sampled_from(SCORES))
    if score is not None:
        argv += ['--max-inline-score', score]
    for flag in ('--skip-compositions', '--skip-geomcomp',
                 '--skip-boundary-conditions'):
        if draw(st.integers(0, 5)) == 0:
            argv.append(flag)
    return argv


@st.composite
def any_deck(draw, tier='quick'):
    which = draw(st.sampled_from(['level0', 'hier', 'hier', 'lattice',
                                  'lattice', 'hex', 'prune', 'prune', 'tr',
                                  'tr', 'twin']))
    if which == 'level0':
        case = draw(c01.level0_case(tier))
        case['box'] = 6.0
    elif which == 'hier':
        case = draw(gen_hier.hier_case(tier, {'lattice': True,
                                              'empty_pieces': True,
                                              'unsupported_mix': True}))
    elif which == 'lattice':
        case = draw(gen_hier.hier_case(tier, {'lattice': 'force',
                                              'max_depth': 2,
                                              'empty_pieces': True,
                                              'unsupported_mix': True}))
    elif which == 'prune':
        case = draw(gen_hier.prune_case(tier))
    elif which == 'twin':
        case = draw(gen_hier.twin_fill_case(tier, mirrors=True))
    elif which == 'tr':
        from . import c04
        case = draw(c04.tr_case(tier, focus=draw(st.sampled_from([None, 'axis', 'axis']))))
        case['box'] = 8.0
    else:
        case = draw(gen_hier.hex_case(tier))
    case = draw(gen_hier.decorate(case, bc=True))
    case['labels'] = sorted(set(case['labels']) | {'gen:' + which})
    case['argv'] = draw(options())
    deck = case['deck']
    if deck.get('materials') and draw(st.integers(0, 19)) == 0 and \
            any(c.get('mat') for c in deck['cells']):
        # the material cards live in a file of their own, pulled in by a READ
        # card (a shared material library): whatever the converter does with
        # the card, what it writes must be complete
        deck['materials'] = []
        if deck.get('transforms') and draw(st.booleans()):
            # ... and so do the TR cards
            deck['transforms'] = []
            case['labels'] = sorted(set(case['labels'])
                                    | {'tr-cards-through-read-card'})
        deck['extra_data'] = list(deck.get('extra_data') or []) + [
            draw(st.sampled_from(['read file=materials.inc noecho',
                                  'read file=materials.inc',
                                  'READ FILE=materials.inc NOECHO',
                                  'read noecho file = materials.inc']))]
        case['labels'] = sorted(set(case['labels'])
                                | {'materials-through-read-card'})
    return case


def strategy(tier):
    return any_deck(tier)


def budget(tier):
    if tier == 'quick':
        return {'max_examples': 1280, 'shards': 16, 'time_budget': 110}
    return {'max_examples': 64000, 'shards': 16, 'time_budget': 1800}


def render_case(case):
    return mr.render(case['deck'], expr_style=case.get('style')) + \
        '\nc options: ' + ' '.join(mr.argv_of(case['deck'], case['argv']))


def sample_repr(case, out):
    return {'deck': mr.render(case['deck'], expr_style=case.get('style')),
            'argv': mr.argv_of(case['deck'], case['argv']),
            'labels': out.labels}


def structural_outcome(text, argv, labels, deck_has_fill):
    res = conv.convert(text, argv)
    opt_tag = ','.join(a for a in argv if a.startswith('--')
                       and a != '--lattice')
    if not res.ok:
        if res.exc_type == 'ValueError' and 'empty' in (res.exc_msg or ''):
            return skip('degenerate:nothing-to-convert', labels)
        if res.exc_type == 'NotImplementedError' and \
                'macrobodies' in (res.exc_msg or ''):
            return skip('rejected:bc-on-macrobody', labels)
        if 'materials-through-read-card' in labels and \
                res.exc_type == 'NotImplementedError' and \
                'READ' in (res.exc_msg or ''):
            # refused with an error that names the card
            return skip('refused:read-card', labels)
        return violation('crash:%s' % res.crash_key(),
                         {'error': res.brief(), 'frames': res.frames,
                          'deck': text, 'argv': argv}, labels)
    t4 = t4read.parse(res.t4_text)
    issues = t4read.validate(t4)
    if '--skip-compositions' not in argv and not t4.has_compo:
        issues.append(('missing-block', 'COMPOSITION'))
    if '--skip-geomcomp' not in argv and not t4.has_geomcomp:
        issues.append(('missing-block', 'GEOMCOMP'))
    if issues:
        return violation('structural:%s' % issues[0][0],
                         {'issues': issues[:6], 'deck': text, 'argv': argv,
                          'options': opt_tag}, labels)
    has_op = any(v.op for v in t4.volus.values())
    pruned = any(l.startswith('dup-surface') or l.startswith('patently-empty')
                 or l in ('union-of-empties', 'empty-inside-container')
                 for l in labels)
    counts = {'volumes': len(t4.volus), 'surfaces': len(t4.surfs),
              'notes_empty_list': sum(1 for n in t4.notes
                                      if n[0] == 'empty-list')}
    return ok(labels, has_op and (deck_has_fill or pruned),
              sig=case_sig([text, argv]), counts=counts)


def check(case):
    if case.get('corpus'):
        for name, text, flags, enc in shipped_decks():
            if name == case['deck_file']:
                return structural_outcome(text, case['argv'],
                                          ['corpus:' + name], True)
        return skip('corpus-deck-missing')
    deck = case['deck']
    text = mr.render(deck, expr_style=case.get('style'))
    argv = mr.argv_of(deck, case['argv'])
    labels = list(case['labels']) + ['opt:' + a for a in case['argv']
                                     if a.startswith('--')]
    has_fill = any(c.get('fill') for c in deck['cells'])
    return structural_outcome(text, argv, labels, has_fill)


# -- fixed corpus: the shipped decks --------------------------------------

def shipped_decks():
    d = os.path.join(conv.REPO, 't4_geom_convert', 'IntegrationTests', 'data')
    for path in sorted(glob.glob(os.path.join(d, '*.imcnp'))):
        enc = 'latin1' if 'latin1' in path else 'utf-8'
        with open(path, encoding=enc) as f:
            text = f.read()
        flags = []
        for line in text.split('\n')[:50]:
            pos = line.find('converter-flags:')
            if pos != -1:
                flags = shlex.split(line[pos + len('converter-flags:'):])
        yield os.path.basename(path), text, flags, enc


def extra(tier, seed, stats):
    found = {}
    n = 0
    for name, text, flags, enc in shipped_decks():
        if enc != 'utf-8':
            continue
        variants = [[], ['--skip-deduplication'],
                    ['--always-inline-filling', '--always-inline-filled'],
                    ['--max-inline-score', '-1']]
        if tier == 'quick':
            variants = variants[:2]
        for extra_args in variants:
            out = structural_outcome(text, flags + extra_args,
                                     ['corpus:' + name], True)
            n += 1
            if out.kind == 'violation':
                found.setdefault(out.bucket, ({'deck_file': name,
                                               'argv': flags + extra_args,
                                               'corpus': True}, out.detail))
    stats.counts['corpus_conversions'] += n
    # every axisymmetric surface kind under the 24 axis-permuting rotations
    from . import c04
    m = 0
    for case in c04.axis_rotation_cases():
        text = mr.render(case['deck'])
        out = structural_outcome(text, [], case['labels'], False)
        m += 1
        if out.kind == 'violation':
            found.setdefault(out.bucket, ({'deck': case['deck'],
                                           'labels': case['labels'],
                                           'argv': []}, out.detail))
    stats.counts['axis_enumeration_cases'] = m
    stats.counts['extra_evaluations'] += n + m
    return found
