"""C18 - conversion is deterministic and leaves no state between runs
(stateful, rule-based)."""
import hashlib
import os
import pathlib
import shutil
import tempfile
import time

import hypothesis
from hypothesis import settings, strategies as st, HealthCheck, Phase
from hypothesis.stateful import (RuleBasedStateMachine, initialize, rule,
                                 invariant, precondition,
                                 run_state_machine_as_test)

from .. import conv, mrender as mr
from ..runner import ok, violation, case_sig
from . import c08, c17

PID = 'C18'
LEVEL = 'exploration'
RULE = ('Hypothesis RuleBasedStateMachine over one long-lived interpreter '
        '(converter modules freshly imported at the start of each machine): '
        'a pool of 3-5 generated decks (Boolean level-0 decks, universe '
        'trees, rectangular and hexagonal lattices, duplicate / unused / '
        'flagged surfaces, multi-particle importance decks, material decks, '
        'LIKE decks, small shipped example decks) and 7 option sets (one of '
        'them --cache, one the same deck with other --lattice ranges, one '
        'with both --lattice options for the same cell on one command line); '
        'rules: convert(deck, options) '
        'in-process, convert_failing(fault-injected deck) which must raise, '
        'convert_default_output (no -o; input files are named with '
        'the extensions .imcnp, .i, none, .v2.inp and .t4, and by absolute '
        'path, bare name, ./name or ../dir/name), reconvert(an earlier '
        'pair), every_ordered_pair(options) which '
        'converts b right after a for all ordered pairs of pool decks, '
        'fresh_hashseed(deck, options, seed in '
        '{1..5, random}, every other time on the two-option command line). '
        'Invariants after every step: the bytes written '
        '(command-line echo stripped) equal the memoised output of a fresh '
        'process with PYTHONHASHSEED=0 for the same (deck, options); fresh '
        'processes under other hash seeds agree with it; the input file\'s '
        'bytes and mtime are unchanged; no file other than the requested '
        'outputs appears in the deck directory. Non-trivial: a history of >= '
        '3 steps over >= 2 distinct decks that repeats a pair after an '
        'intervening different or failing conversion; distinct = history.')
ASSUMPTIONS = [
    'the only permitted difference between two outputs is the header line '
    'echoing sys.argv',
    'a "fresh process" is /venv/bin/python running the CLI entry point with '
    'the TatSu shim injected through sitecustomize (DESIGN 2.1)',
]

OPTION_SETS = [[], ['--skip-deduplication'],
               ['--always-inline-filling', '--always-inline-filled'],
               ['--max-inline-score', '-1'],
               # the disk cache (written next to the input by the first run,
               # read by later ones) must not change what is written
               ['--cache'],
               # the same deck with other --lattice ranges (decks whose
               # lattices are filled homogeneously accept any ranges)
               ['@alt-lattice'],
               # both at once: two --lattice options for one cell on the same
               # command line (whichever wins, it is the same one every time)
               ['@both-lattice']]
CACHE_SUFFIXES = ('.volumes.cache', '.surfaces.cache', '.mcnp.cache')
NAME_SUFFIXES = ('.imcnp', '.i', '', '.v2.inp', '.t4')


class Trace:
    """Everything needed to replay a history without Hypothesis."""

    def __init__(self):
        self.decks = []      # list of {'text', 'argv', 'fault_text'?}
        self.steps = []


class World:
    """Executes steps and checks the invariants; used by the machine and by
    the plain replay."""

    def __init__(self, decks):
        self.dir = tempfile.mkdtemp(prefix='c18_', dir=conv.scratch_dir())
        self.decks = decks
        self.paths = []
        self.snap = []
        self.fresh = {}
        self.expected_files = set()
        self.cache_files = set()
        self.steps = []
        self.problem = None
        self.n_fresh = 0
        conv.reload_repo()
        for i, d in enumerate(decks):
            # file names with the usual extension, another one, none, and
            # two dots (the default output and the cache files are named
            # after the input)
            name = 'deck%d%s' % (i, NAME_SUFFIXES[i % len(NAME_SUFFIXES)])
            p = os.path.join(self.dir, name)
            with open(p, 'w', encoding='utf-8', newline='') as f:
                f.write(d['text'])
            self.paths.append(p)
            self.expected_files.add(os.path.basename(p))
            for suf in CACHE_SUFFIXES:
                self.cache_files.add(
                    os.path.basename(str(pathlib.Path(p).with_suffix(suf))))
            if d.get('fault_text'):
                pf = os.path.join(self.dir, 'bad%d.imcnp' % i)
                with open(pf, 'w', encoding='utf-8', newline='') as f:
                    f.write(d['fault_text'])
                self.expected_files.add(os.path.basename(pf))
        for p in sorted(os.path.join(self.dir, n)
                        for n in self.expected_files):
            st_ = os.stat(p)
            with open(p, 'rb') as f:
                self.snap.append((p, f.read(), st_.st_mtime_ns))

    def close(self):
        shutil.rmtree(self.dir, ignore_errors=True)

    def argv(self, i, oi):
        if OPTION_SETS[oi] == ['@alt-lattice']:
            return list(self.decks[i].get('alt_argv') or self.decks[i]['argv'])
        if OPTION_SETS[oi] == ['@both-lattice']:
            return list(self.decks[i]['argv']) + \
                list(self.decks[i].get('alt_argv') or [])
        return list(self.decks[i]['argv']) + OPTION_SETS[oi]

    def fresh_output(self, i, oi, hashseed='0'):
        key = (i, oi, str(hashseed))
        if key not in self.fresh:
            out = os.path.join(self.dir, 'fresh_%d_%d_%s.t4' % (i, oi,
                                                                hashseed))
            self.expected_files.add(os.path.basename(out))
            res = conv.convert_fresh(self.paths[i], out, self.argv(i, oi),
                                     hashseed=hashseed)
            self.n_fresh += 1
            self.fresh[key] = res.t4_text if res.ok else \
                'FAILED: ' + str(res.exc_msg)
        return self.fresh[key]

    def fail(self, what, detail):
        if self.problem is None:
            self.problem = (what, detail)

    def do_convert(self, i, oi, tag='convert', spelling='abs'):
        if tag == 'default-output':
            # no -o: the output goes next to the input, suffix .t4
            out = str(pathlib.Path(self.paths[i]).with_suffix('.t4'))
        else:
            out = os.path.join(self.dir, 'inproc_%d.t4' % len(self.steps))
        self.expected_files.add(os.path.basename(out))
        if os.path.exists(out) and os.path.abspath(out) not in (
                os.path.abspath(p_) for p_ in self.paths):
            os.remove(out)
        ipath = self.paths[i]
        cwd = os.getcwd()
        if spelling != 'abs':
            # the same file named relative to the working directory
            os.chdir(self.dir)
            ipath = os.path.basename(ipath)
            if spelling == 'dot':
                ipath = './' + ipath
            elif spelling == 'dotdot':
                ipath = os.path.join('..', os.path.basename(self.dir), ipath)
        try:
            res = conv.convert_path(ipath, out, self.argv(i, oi),
                                    default_output=(tag == 'default-output'))
        finally:
            os.chdir(cwd)
        self.steps.append((tag, i, oi) if spelling == 'abs'
                          else (tag, i, oi, spelling))
        got = res.t4_text if res.ok else 'FAILED: ' + str(res.exc_msg)
        if tag == 'default-output' and got.startswith('FAILED') and \
                'input file itself' in got:
            # the default output name of an input called x.t4 is x.t4: the
            # run is refused by name instead of overwriting the input
            return
        want = self.fresh_output(i, oi)
        if want.startswith('FAILED') and got.startswith('FAILED'):
            return
        if got != want:
            self.fail('differs-from-fresh-process',
                      {'step': len(self.steps), 'deck': i,
                       'options': OPTION_SETS[oi],
                       'first_difference': first_diff(want, got)})

    def do_failing(self, i):
        pf = os.path.join(self.dir, 'bad%d.imcnp' % i)
        if not os.path.exists(pf):
            return
        out = os.path.join(self.dir, 'bad_out_%d.t4' % len(self.steps))
        self.expected_files.add(os.path.basename(out))
        res = conv.convert_path(pf, out, self.decks[i]['fault_argv'])
        self.steps.append(('failing', i, 0))
        # whether the faulty deck is rejected is C17's concern; here the
        # in-process outcome must be the one of a fresh process
        key = ('bad', i)
        if key not in self.fresh:
            fout = os.path.join(self.dir, 'fresh_bad_%d.t4' % i)
            self.expected_files.add(os.path.basename(fout))
            fres = conv.convert_fresh(pf, fout, self.decks[i]['fault_argv'])
            self.n_fresh += 1
            self.fresh[key] = fres.t4_text if fres.ok else 'FAILED'
        got = res.t4_text if res.ok else 'FAILED'
        if got != self.fresh[key]:
            self.fail('failing-deck-differs-from-fresh-process',
                      {'step': len(self.steps), 'deck': i,
                       'in_process': got[:60], 'fresh': self.fresh[key][:60]})

    def do_hashseed(self, i, oi, hashseed):
        self.steps.append(('hashseed', i, oi, str(hashseed)))
        a = self.fresh_output(i, oi)
        b = self.fresh_output(i, oi, hashseed)
        if a != b:
            self.fail('depends-on-hash-seed',
                      {'deck': i, 'options': OPTION_SETS[oi],
                       'hashseed': hashseed,
                       'first_difference': first_diff(a, b)})

    def check_invariants(self):
        for p, data, mtime in self.snap:
            try:
                with open(p, 'rb') as f:
                    now = f.read()
                st_ = os.stat(p)
            except OSError:
                self.fail('input-file-removed', {'path': os.path.basename(p)})
                continue
            if now != data:
                self.fail('input-file-modified',
                          {'path': os.path.basename(p)})
            elif st_.st_mtime_ns != mtime:
                self.fail('input-file-touched', {'path': os.path.basename(p)})
        stray = set(os.listdir(self.dir)) - self.expected_files \
            - self.cache_files
        if stray:
            self.fail('stray-files', {'files': sorted(stray)})


def first_diff(a, b):
    la, lb = a.split('\n'), b.split('\n')
    for k, (x, y) in enumerate(zip(la, lb)):
        if x != y:
            return {'line': k + 1, 'expected': x[:200], 'got': y[:200]}
    return {'line': min(len(la), len(lb)) + 1,
            'expected_lines': len(la), 'got_lines': len(lb)}


@st.composite
def pool_deck(draw, tier, homogeneous=False, special=False):
    from .. import gen_hier
    if special:
        which = draw(st.sampled_from(['imp', 'imp', 'mat', 'like']))
    else:
        which = 'lat' if homogeneous else draw(st.sampled_from(
            ['lat', 'lat', 'lat', 'any', 'any', 'any', 'any', 'imp', 'imp',
             'mat', 'like', 'corpus', 'corpus']))
    if which == 'corpus':
        # one of the shipped example decks (the small ones), with its flags
        small = [(nm, tx, fl) for nm, tx, fl, enc in c08.shipped_decks()
                 if enc == 'utf-8' and len(tx) < 4000]
        nm, tx, fl = draw(st.sampled_from(small))
        return {'text': tx, 'argv': list(fl),
                'labels': ['pool:corpus', 'corpus:' + nm]}
    if which == 'lat':
        case = draw(gen_hier.hier_case(tier, {'lattice': 'force',
                                              'max_depth': 2,
                                              'homogeneous': True}))
        case = draw(gen_hier.decorate(case, bc=True))
    elif which == 'imp':
        # importances by cell keyword for several particle types, by data
        # cards or mixed; zero-importance cells at any rank
        from . import c12
        case = draw(c12.strategy(tier))
        case['labels'] = list(case['labels']) + ['pool:importances']
    elif which == 'mat':
        from . import c10
        mcase = draw(c10.mat_case(tier))
        case = {'deck': c10.build_deck(mcase), 'labels': ['pool:materials']}
        if draw(st.booleans()):
            # a mass-fraction card used with an atom density: documented as
            # unsupported (a warning and an empty composition), but accepted
            neg = set(m['id'] for m in mcase['mats'] if m['negative'])
            for c in case['deck']['cells']:
                if c['mat'] in neg and str(c['rho']).startswith('-'):
                    c['rho'] = str(c['rho'])[1:]
                    case['labels'].append('pool:unsupported-density-mix')
                    break
    elif which == 'like':
        case = draw(gen_hier.like_case(tier))
        case['labels'] = list(case['labels']) + ['pool:like']
    else:
        case = draw(c08.any_deck(tier))
    deck = case['deck']
    text = mr.render(deck, expr_style=case.get('style'))
    out = {'text': text, 'argv': mr.argv_of(deck),
           'labels': case['labels']}
    if deck.get('lattice_opts'):
        alt = []
        for a in out['argv']:
            if ':' in a and ',' in a:
                head, *rngs = a.split(',')
                new_r = []
                for r in rngs:
                    lo, hi = (int(v) for v in r.split(':'))
                    if lo == hi:
                        new_r.append('%d:%d' % (lo, hi))
                    else:
                        k = draw(st.integers(0, 2))
                        new_r.append(['%d:%d' % (lo, lo), '%d:%d' % (hi, hi),
                                      '%d:%d' % (lo + 1, hi)][k])
                a = ','.join([head] + new_r)
            alt.append(a)
        if alt != out['argv']:
            out['alt_argv'] = alt
    if deck['transforms'] or any(c.get('trcl') or (c.get('fill') or {}).get('tr')
                                 for c in deck['cells']):
        out['sibling_text'] = mr.render(sibling_deck(deck),
                                        expr_style=case.get('style'))
    # a fault-injected sibling for convert_failing
    sites = [s for s in c17.fault_sites(deck)
             if s[0] in ('surface:unknown-mnemonic', 'facet:index-too-large',
                         'lattice:no-option', 'material:mixed-signs')]
    pref = [s for s in sites if s[0] == 'lattice:no-option']
    if pref and (homogeneous or draw(st.booleans())):
        sites = pref
    if sites:
        f, site = draw(st.sampled_from(sites))
        got = c17.inject(deck, f, site)
        if got is not None:
            out['fault_text'] = mr.render(got[0],
                                          expr_style=case.get('style'))
            out['fault_argv'] = got[1]
    return out


def sibling_deck(entry_deck):
    """A deck that differs from the given one only by perturbations far
    below any sensible tolerance (rotations turned by 1e-8 rad, lengths
    scaled by 1 + 1e-10): state that survives a conversion under a lossy key
    shows up when both are converted in one interpreter."""
    import copy
    import math
    import numpy as np
    deck = copy.deepcopy(entry_deck)
    ang = 1e-8
    Rz = np.array([[math.cos(ang), -math.sin(ang), 0.0],
                   [math.sin(ang), math.cos(ang), 0.0], [0.0, 0.0, 1.0]])

    def nudge(spec):
        if spec is None or spec.get('full') is None or spec.get('mask'):
            return
        vals = spec['full']
        if spec['star']:
            vals = [math.cos(math.radians(v)) for v in vals]
            spec['star'] = False
        B = np.array(vals).reshape(3, 3) @ Rz
        spec['full'] = [float(v) for v in B.reshape(9)]
    for t in deck['transforms']:
        nudge(t['spec'])
    for c in deck['cells']:
        for ref in (c.get('trcl'), (c.get('fill') or {}).get('tr')):
            if ref and 'inline' in ref:
                nudge(ref['inline'])
    for s_ in deck['surfaces']:
        if s_['kind'].lower() != 'arb':
            s_['params'] = [v * (1.0 + 1e-10) for v in s_['params']]
    return deck


def make_machine(tier, sink):
    class ConversionHistory(RuleBasedStateMachine):
        def __init__(self):
            super().__init__()
            self.world = None
            self.pairs = []
            self.swept = False

        @initialize(first=pool_deck(tier, homogeneous=True),
                    second=pool_deck(tier, special=True),
                    rest=st.lists(pool_deck(tier), min_size=1, max_size=3))
        def setup(self, first, second, rest):
            decks = []
            for dck in [first, second] + rest:
                decks.append({k_: v_ for k_, v_ in dck.items()
                              if k_ != 'sibling_text'})
                if dck.get('sibling_text'):
                    # the nearly identical sibling is a deck of its own
                    decks.append({'text': dck['sibling_text'],
                                  'argv': dck['argv'], 'labels': ['sibling']})
            self.world = World(decks)
            sink['worlds'].append(self.world)

        @rule(i=st.integers(0, 9), oi=st.integers(0, len(OPTION_SETS) - 1))
        def convert(self, i, oi):
            i %= len(self.world.decks)
            self.world.do_convert(i, oi)
            self.pairs.append((i, oi))

        @rule(i=st.integers(0, 9), oi=st.integers(0, len(OPTION_SETS) - 1),
              spelling=st.sampled_from(['abs', 'rel', 'dot', 'dotdot']))
        def convert_default_output(self, i, oi, spelling):
            i %= len(self.world.decks)
            self.world.do_convert(i, oi, 'default-output', spelling)
            self.pairs.append((i, oi))

        @rule(i=st.integers(0, 4), after=st.booleans())
        def convert_failing(self, i, after):
            if after and self.pairs:
                # the faulty sibling of a deck that was converted before
                i = self.pairs[i % len(self.pairs)][0]
            self.world.do_failing(i % len(self.world.decks))

        @precondition(lambda self: not self.swept)
        @rule(oi=st.integers(0, len(OPTION_SETS) - 1))
        def every_ordered_pair(self, oi):
            # a after b for every ordered pair of pool decks: whatever one
            # conversion leaves behind meets every other deck once
            self.swept = True
            n = len(self.world.decks)
            for a in range(n):
                for b in range(n):
                    if a != b:
                        self.world.do_convert(a, oi, 'convert')
                        self.world.do_convert(b, oi, 'convert')
                        if self.world.problem is not None:
                            return
            self.pairs.append((0, oi))

        @precondition(lambda self: len(self.pairs) > 0)
        @rule(k=st.integers(0, 50))
        def reconvert(self, k):
            i, oi = self.pairs[k % len(self.pairs)]
            self.world.do_convert(i, oi, 'reconvert')

        @precondition(lambda self: len(self.pairs) > 0)
        @rule(k=st.integers(0, 50),
              hs=st.sampled_from(['1', '2', '3', '4', '5', 'random']),
              both=st.booleans())
        def fresh_hashseed(self, k, hs, both):
            i, oi = self.pairs[k % len(self.pairs)]
            twice = [j for j, dk in enumerate(self.world.decks)
                     if dk.get('alt_argv')]
            if both and twice:
                # a command line with two --lattice options for one cell
                i = twice[k % len(twice)]
                oi = OPTION_SETS.index(['@both-lattice'])
            self.world.do_hashseed(i, oi, hs)

        @invariant()
        def nothing_leaks(self):
            if self.world is None:
                return
            self.world.check_invariants()
            if self.world.problem is not None:
                what, detail = self.world.problem
                raise AssertionError('%s: %r' % (what, detail))

        def teardown(self):
            if self.world is not None:
                sink['finished'].append(summarise(self.world))
                self.world.close()

    return ConversionHistory


def summarise(world):
    steps = world.steps
    decks = set(s[1] for s in steps if s[0] in ('convert', 'reconvert'))
    repeats = False
    seen = {}
    for k, s in enumerate(steps):
        if s[0] in ('convert', 'reconvert'):
            key = (s[1], s[2])
            if key in seen and any(
                    t[0] == 'failing' or (t[0] in ('convert', 'reconvert')
                                          and (t[1], t[2]) != key)
                    for t in steps[seen[key] + 1:k]):
                repeats = True
            seen.setdefault(key, k)
    return {'steps': [list(s) for s in steps], 'n_steps': len(steps),
            'distinct_decks': len(decks), 'repeat_after_other': repeats,
            'fresh_processes': world.n_fresh,
            'problem': world.problem,
            'labels': sorted(set(l for d in world.decks
                                 for l in d.get('labels', ())
                                 if l.startswith('pool:') or l.startswith('gen:')
                                 or l.startswith('mode:')
                                 or l.startswith('particles:')
                                 or l in ('sibling', 'lattice', 'hex-lattice'))),
            'decks': [{k: v for k, v in d.items() if k != 'labels'}
                      for d in world.decks]}


def strategy(tier):
    return st.none()


def budget(tier):
    return {'max_examples': 0, 'shards': 1}


def render_case(case):
    return '\n'.join('%d: %r' % (k, s) for k, s in enumerate(case['steps']))


def sample_repr(case, out):
    return {'steps': case['steps'][:12]}


def check(case):
    """Plain replay of a recorded history (no Hypothesis)."""
    world = World(case['decks'])
    try:
        for s in case['steps']:
            if s[0] in ('convert', 'reconvert', 'default-output'):
                world.do_convert(s[1], s[2], s[0],
                                 s[3] if len(s) > 3 else 'abs')
            elif s[0] == 'failing':
                world.do_failing(s[1])
            elif s[0] == 'hashseed':
                world.do_hashseed(s[1], s[2], s[3])
            world.check_invariants()
            if world.problem:
                break
        if world.problem:
            what, detail = world.problem
            return violation('history:%s' % what, detail)
        return ok([], True, sig=case_sig(case['steps']))
    finally:
        world.close()


def minimise(case, what, max_replays):
    """Greedy step removal on a recorded history (the quick tier runs
    without Hypothesis' shrinker, whose stateful shrinking can take minutes)."""
    steps = list(case['steps'])
    k = len(steps) - 2
    n = 0
    while k >= 0 and n < max_replays:
        trial = steps[:k] + steps[k + 1:]
        n += 1
        out = check({'decks': case['decks'], 'steps': trial})
        if out.kind == 'violation' and out.bucket == 'history:%s' % what:
            steps = trial
        k -= 1
    return {'decks': case['decks'], 'steps': steps}


def _shard(args):
    tier, seed, shard, n_machines, n_steps = args
    sink = {'worlds': [], 'finished': []}
    Machine = make_machine(tier, sink)
    found = {}
    t0 = time.time()
    try:
        run_state_machine_as_test(
            hypothesis.seed(seed * 1009 + shard)(Machine),
            settings=settings(max_examples=n_machines,
                              stateful_step_count=n_steps, deadline=None,
                              database=None, report_multiple_bugs=False,
                              print_blob=False,
                              phases=((Phase.generate,) if tier == 'quick'
                                      else (Phase.generate, Phase.shrink)),
                              suppress_health_check=list(HealthCheck)))
    except BaseException as exc:      # AssertionError, Flaky..., anything
        # the last finished world with a problem is the smallest history
        bad = [w for w in sink['finished'] if w['problem']]
        if bad:
            w = min(bad[-3:], key=lambda w_: len(w_['steps']))
            case = minimise({'decks': w['decks'], 'steps': w['steps']},
                            w['problem'][0], 6 if tier == 'quick' else 25)
            found['history:%s' % w['problem'][0]] = (
                case, {'problem': w['problem'][1], 'steps': case['steps']})
        elif not isinstance(exc, AssertionError):
            conv.cleanup()
            raise
    finally:
        conv.cleanup()
    good = [w for w in sink['finished'] if not w['problem']]
    return good, found, time.time() - t0


def extra(tier, seed, stats):
    import multiprocessing
    if tier == 'quick':
        shards, n_machines, n_steps = 16, 4, 10
    else:
        shards, n_machines, n_steps = 16, 40, 20
    from ..runner import pmap
    jobs = [(tier, seed, sh, n_machines, n_steps) for sh in range(shards)]
    results = pmap(_shard, jobs, shards)
    found = {}
    sigs = set()
    for good, fnd, _t in results:
        for w in good:
            stats.counts['extra_evaluations'] += 1
            stats.counts['steps'] += w['n_steps']
            stats.counts['fresh_processes'] += w['fresh_processes']
            stats.labels.update(w.get('labels', ()))
            nontrivial = (w['n_steps'] >= 3 and w['distinct_decks'] >= 2
                          and w['repeat_after_other'])
            sig = hashlib.sha1(repr(w['steps']).encode()
                               + repr([d['text'] for d in w['decks']]).encode()
                               ).hexdigest()
            if nontrivial and sig not in sigs:
                sigs.add(sig)
                stats.counts['extra_nontrivial'] += 1
                if len(stats.samples) < 3:
                    stats.samples.append({'history': w['steps'][:14],
                                          'n_decks': len(w['decks'])})
        for b, v in fnd.items():
            found.setdefault(b, v)
    return found
