"""C09 - each volume gets the material and density of the owning MCNP cell."""
import numpy as np

from .. import gen_hier, mdeck as md, mrender as mr, semcheck
from ..runner import ok, violation, case_sig
from .c05 import run_semantic, with_options

PID = 'C09'
LEVEL = 'exploration'
RULE = ('Generated hierarchies (universe trees and LAT=1 lattices incl. '
        'elements filled with the lattice\'s own universe) with 2-4 materials '
        'drawn from a small palette, so that cells share a material with '
        'numerically different densities or with one density in several '
        'spellings (trailing zeros: 2.7/2.70/2.700, 1./1.0/1.00; Fortran '
        'exponent forms of one mantissa: 6.4-2/6.4e-2/6.4E-2/6.4d-2/6.4D-2), '
        'void cells, and LIKE-BUT cells overriding mat= / rho=. Oracle: for '
        'every decided point the GEOMCOMP composition of its volume is m0 iff '
        'the owning (lowest-level) cell is void, else its name parses to the '
        'owner\'s (material, density) numerically; spellings of one family '
        'share one composition name; numerically different densities never '
        'share one. Non-trivial: >= 2 cells share a material with different '
        'densities or one density in >= 2 spellings, nesting depth >= 1, and '
        '>= 2 owners hit; distinct = rendered deck.')
ASSUMPTIONS = [
    'composition names are m<material>_<density> as written by the converter; '
    'they are compared numerically with the owner cell, and as strings only '
    'within one spelling family named by the statement',
    'spellings outside the two named families (leading zero, exponent sign / '
    'zero padding) are generated as observations and not asserted',
    'the owner is the filler cell at the lowest universe level (DESIGN 4.2)',
]


def strategy(tier):
    from hypothesis import strategies as st
    return with_options(st.one_of(
        gen_hier.hier_case(tier, {'lattice': True}),
        gen_hier.hier_case(tier, {'lattice': 'force', 'max_depth': 2}),
        gen_hier.like_case(tier)))


def budget(tier):
    if tier == 'quick':
        return {'max_examples': 960, 'shards': 16, 'time_budget': 110}
    return {'max_examples': 40000, 'shards': 16, 'time_budget': 1800}


def render_case(case):
    return mr.render(case['deck']) + '\nc options: ' + \
        ' '.join(mr.argv_of(case['deck']))


def sample_repr(case, out):
    return {'deck': mr.render(case['deck']),
            'argv': mr.argv_of(case['deck']), 'labels': out.labels}


def family_key(rho):
    """Canonical form under the two respellings named by the statement:
    trailing zeros after the decimal point and Fortran exponent forms."""
    import re
    s = rho.strip()
    m = re.match(r'^([-+]?)(\d*\.?\d*)(?:[eEdD]?([-+]\d+)|[eEdD](\d+))?$', s)
    if not m:
        return s
    sign, mant, e1, e2 = m.groups()
    exp = e1 or e2 or ''
    if '.' in mant:
        mant = mant.rstrip('0')
        if mant.endswith('.'):
            mant += '0'
    return (sign if sign == '-' else '') + mant + ('e' + exp if exp else '')


def check(case):
    cmp_, viol, counts = run_semantic(case, 'comp', check_prov=False,
                                      check_comp=True)
    if viol is not None:
        return viol
    labels = list(case['labels'])
    deck = case['deck']
    t4 = cmp_.t4
    comp_of = t4.comp_of_volume()
    cells = {c['id']: c for c in cmp_.locator.deck['cells']}
    dec = cmp_.decided & cmp_.expected_in() & (cmp_.nvol == 1)
    name_by_family = {}
    name_by_value = {}
    owners = set()
    for i in np.nonzero(dec)[0]:
        owner = int(cmp_.loc.owner[i])
        if owner in owners:
            continue
        owners.add(owner)
        vid = cmp_.volumes_at(i)[0]
        names = comp_of.get(vid, [])
        c = cells[owner]
        if c['mat'] == 0 or len(names) != 1:
            continue
        fam = (c['mat'], family_key(c['rho']))
        val = (c['mat'], semcheck.parse_real(c['rho']))
        name_by_family.setdefault(fam, {}).setdefault(names[0], owner)
        name_by_value.setdefault(names[0], {}).setdefault(val, owner)
    text = mr.render(deck)
    for fam, names in name_by_family.items():
        if len(names) > 1:
            return violation('comp:spelling-split',
                             {'family': list(fam), 'compositions': names,
                              'deck': text}, labels, counts=counts)
    for name, vals in name_by_value.items():
        if len(vals) > 1:
            return violation('comp:merged-different-densities',
                             {'composition': name,
                              'cells': {str(k): v for k, v in vals.items()},
                              'deck': text}, labels, counts=counts)
    # non-triviality
    by_mat = {}
    for c in cmp_.locator.deck['cells']:
        if c['mat'] and c['id'] in owners:
            by_mat.setdefault(c['mat'], set()).add(c['rho'])
    shared = any(len(v) >= 2 for v in by_mat.values())
    depth = max((len(ch) for ch in cmp_.loc.chain if ch), default=0)
    nontrivial = shared and depth >= 1 and len(owners) >= 2
    return ok(labels, nontrivial, sig=case_sig(text), counts=counts)
