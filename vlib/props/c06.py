"""C06 - rectangular lattices: element position, index order, fill array."""
import numpy as np
from hypothesis import strategies as st

from .. import conv, gen_hier, mdeck as md, mrender as mr, semcheck  # noqa
from ..runner import ok, violation, case_sig
from .c05 import run_semantic, with_options

PID = 'C06'
LEVEL = 'exploration'
RULE = ('Generated decks with at least one LAT=1 universe: 1/2/3-dimensional '
        'unit cells, orthogonal (PX/PY/PZ) or skew (general P, 3-D only), '
        'either plane of a pair listed first, homogeneous fill=u with '
        '--lattice ranges or full FILL arrays over {0, own universe, other '
        'universes} with negative / degenerate / padded ranges, lattice '
        'placed in containers with fill transformations and TRCL, fill '
        'transformation on the lattice cell (translation and rotation). '
        'Oracle: pair-coordinate rule of DESIGN 4.2 -> element index -> array '
        'entry (first index fastest) -> recursive location; provenance '
        'comments with synthetic element ids used consistently; material of '
        'own-universe elements. Non-trivial: >= 3 lattice elements hit and '
        '(>= 2 distinct universes in the array, or a non-zero lower bound, or '
        'a low-side-first pair); distinct = rendered deck + options.')
ASSUMPTIONS = [
    'lattice index convention of the MCNP manual: the first-listed surface of '
    'each pair separates element i from element i+1 (DESIGN 4.2)',
    'each element is a translated copy: the filling universe sits in the '
    'element frame moved by the fill transformation (translation applied '
    'after the fill transformation)',
    'skew lattices are generated in three dimensions only (DESIGN 4.3)',
    'decidability rule |f| > 1e-6 * sum|terms|',
]


def strategy(tier):
    return with_options(st.one_of(
        gen_hier.hier_case(tier, {'lattice': 'force', 'max_depth': 2}),
        gen_hier.hier_case(tier, {'lattice': 'force', 'max_depth': 2}),
        gen_hier.periodic_case(tier)))


def periodicity_mismatches(case, limit=3):
    """Reference-free relation: in a lattice filled homogeneously with one
    universe, the (owning cell, composition) read from the *output* at p and
    at p + a_m (both inside the declared ranges and the container) coincide,
    whatever composition order of fill transformations is assumed."""
    deck = case['deck']
    text = mr.render(deck)
    res = conv.convert(text, mr.argv_of(deck, case.get('argv_extra') or []))
    if not res.ok:
        return None, None
    from .. import t4read, t4eval
    t4 = t4read.parse(res.t4_text)
    if t4read.validate(t4):
        return None, None
    locator = md.Locator(deck)
    lat = [c for c in locator.deck['cells'] if c.get('lat')][0]
    if lat['lat'] == 2:
        hx = lat['hex']
        A = np.array([hx['a1'], hx['a2']] + ([hx['a3']] if hx.get('a3')
                                              else []), dtype=float)
    else:
        _leaves, W, C, A, ranges = locator.lattice_info(lat)
    rng = np.random.Generator(np.random.PCG64(case['pseed'] + 7))
    P = rng.uniform(-case['box'], case['box'], (300, 3))
    loc = locator.locate(P)
    pairs = []
    for m in range(len(A)):
        Q = P + A[m]
        locq = locator.locate(Q)
        for i in range(len(P)):
            ch, chq = loc.chain[i], locq.chain[i]
            if not ch or not chq or loc.undec[i] or locq.undec[i]:
                continue
            if ch[-1][0] != 'l' or chq[-1][0] != 'l':
                continue
            if loc.count[i] != 1 or locq.count[i] != 1:
                continue
            ia, ib = ch[-1][2], chq[-1][2]
            if tuple(ib[k] - ia[k] for k in range(len(ia))) != \
                    tuple(1 if k == m else 0 for k in range(len(ia))):
                continue
            pairs.append((i, m))
    if not pairs:
        return [], 0
    comp_of = t4.comp_of_volume()
    out = []
    for m in range(len(A)):
        idx = [i for i, mm in pairs if mm == m]
        if not idx:
            continue
        Pa = P[idx]
        Pb = Pa + A[m]
        eva = t4eval.Evaluator(t4, Pa)
        evb = t4eval.Evaluator(t4, Pb)
        ids, ma = eva.membership()
        _ids, mb = evb.membership()
        da, db = eva.decided_all(), evb.decided_all()
        for k in range(len(idx)):
            if not (da[k] and db[k]):
                continue
            va = [ids[j] for j in np.nonzero(ma[:, k])[0]]
            vb = [ids[j] for j in np.nonzero(mb[:, k])[0]]

            def sig(vs):
                if len(vs) != 1:
                    return ('n=%d' % len(vs),)
                v = t4.volus[vs[0]]
                own = v.prov[0][0] if v.prov else v.id
                return (own, tuple(comp_of.get(v.id, [])))
            if sig(va) != sig(vb):
                out.append({'kind': 'not-periodic',
                            'point': [float(x) for x in Pa[k]],
                            'shifted_by': [float(x) for x in A[m]],
                            'at_p': repr(sig(va)), 'at_p_plus_a': repr(sig(vb))})
                if len(out) >= limit:
                    return out, len(pairs)
    return out, len(pairs)


def budget(tier):
    if tier == 'quick':
        return {'max_examples': 1440, 'shards': 16, 'time_budget': 110}
    return {'max_examples': 24000, 'shards': 16, 'time_budget': 1800}


def render_case(case):
    if case.get('fixed'):
        return case['deck_text']
    return mr.render(case['deck']) + '\nc options: ' + \
        ' '.join(mr.argv_of(case['deck']))


def sample_repr(case, out):
    return {'deck': mr.render(case['deck']),
            'argv': mr.argv_of(case['deck']), 'labels': out.labels}


def check(case):
    if case.get('fixed'):
        out = judge_array_transformation(case['deck_text'], case['ranges'])
        return out if out is not None else ok(['fixed-array-transformation'],
                                              True)
    labels = list(case['labels'])
    n_pairs = 0
    if 'periodic-setting' in labels:
        pm, n_pairs = periodicity_mismatches(case)
        if pm:
            return violation('lattice:not-periodic',
                             {'mismatches': pm, 'deck': mr.render(case['deck']),
                              'argv': mr.argv_of(case['deck'])}, labels)
    cmp_, viol, counts = run_semantic(case, 'lattice', check_comp=True)
    if viol is not None:
        return viol
    counts['periodicity_pairs'] = n_pairs or 0
    deck = case['deck']
    dec = cmp_.decided & cmp_.expected_in()
    elements = set()
    for i in np.nonzero(dec)[0]:
        for ent in cmp_.loc.chain[i] or ():
            if ent[0] == 'l':
                elements.add((ent[1], ent[2]))
    rich = False
    for c in deck['cells']:
        if c.get('lat'):
            f = c['fill']
            if f.get('univs') and len(set(f['univs'])) >= 2:
                rich = True
            if any(r[0] != 0 for r in f['ranges']):
                rich = True
    if 'lat:low-side-first' in labels:
        rich = True
    nontrivial = len(elements) >= 3 and rich
    sig = case_sig([mr.render(deck), mr.argv_of(deck)])
    counts['lattice_elements_hit'] = len(elements)
    return ok(labels, nontrivial, sig=sig, counts=counts)


# -- deterministic part: a transformation written after a FILL array --------
# MCNP attaches a parenthesised transformation to the array entry it follows:
# after the last entry it moves the universe of the LAST element only.  The
# converter may refuse the form (it does, by name) or convert it that way; it
# must not move every element.

def judge_array_transformation(text, ranges):
    import numpy as np
    from .. import t4read, t4eval
    res = conv.convert(text)
    if not res.ok:
        if res.exc_type in ('ParseMCNPCellError', 'NotImplementedError',
                            'LatticeError') and res.exc_msg:
            return None
        return violation('lattice:array-transformation:crash:%s'
                         % res.crash_key(),
                         {'error': res.brief(), 'deck': text})
    # converted: the FIRST element (lowest indices) must be unmoved
    t4 = t4read.parse(res.t4_text)
    lo = int(ranges.split(':')[0])
    centre = np.array([[float(lo), 0.15, 0.0]])
    ev = t4eval.Evaluator(t4, centre)
    ids, mat = ev.membership()
    owners = [t4.volus[v] for k, v in enumerate(ids) if mat[k, 0]]
    fillers = [v.prov[0][0] for v in owners if v.prov]
    if fillers != [3]:
        return violation('lattice:array-transformation:applied-to-every-'
                         'element',
                         {'deck': text, 'point': centre[0].tolist(),
                          'filler_cells_found': fillers, 'expected': [3]})
    return None


def extra(tier, seed, stats):
    found = {}
    n = 0
    for ranges, univs in (('-1:1 0:0 0:0', '2 2 2'), ('0:1 0:0 0:0', '2 2'),
                          ('0:1 0:1 0:0', '2 2 2 2')):
        for trtxt in ('(0.2 0 0)', '(7)', '(0.2 0 0 0 1 0 -1 0 0 0 0 1)'):
            text = ('array fill with a transformation after the last entry\n'
                    '1 0 -1 imp:n=1 fill=1\n'
                    '2 0 -2 3 -5 6 imp:n=1 u=1 lat=1 fill=%s %s %s\n'
                    '3 1 -1.0 -4 imp:n=1 u=2\n'
                    '4 0 4 imp:n=1 u=2\n'
                    '5 0 1 imp:n=0\n\n'
                    '1 so 5\n2 px 0.5\n3 px -0.5\n4 so 0.2\n5 py 0.5\n'
                    '6 py -0.5\n\nm1 1001 1\ntr7 0.2 0 0\n\n'
                    % (ranges, univs, trtxt))
            n += 1
            stats.counts['extra_nontrivial'] += 1
            stats.labels.update(['fill-array+trailing-transformation'])
            out = judge_array_transformation(text, ranges)
            if out is None:
                stats.counts['array_tr_refused_or_right'] += 1
            else:
                found.setdefault(out.bucket, ({'deck_text': text,
                                               'ranges': ranges,
                                               'fixed': True}, out.detail))
    stats.counts['array_transformation_decks'] = n
    stats.counts['extra_evaluations'] += n
    return found
