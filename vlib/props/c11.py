"""C11 - cell expressions denote the Boolean function MCNP assigns to them
(parser + complement elimination)."""
import itertools
import multiprocessing
import os

from hypothesis import strategies as st

from .. import conv
from ..runner import ok, violation, case_sig

PID = 'C11'
LEVEL = 'exploration'
RULE = ('(a) exhaustive: every expression tree with <= 3 leaves (quick) / <= 4 '
        'leaves (thorough) over a leaf alphabet of signed surfaces, facet '
        'references and #n cell complements, every inner node an intersection '
        'or a union, optionally wrapped in #( ); each tree rendered in several '
        'spellings (minimal / redundant parentheses; "#n" vs "# n"; "#(" vs '
        '"# ("; blanks inside parentheses; none / one / many blanks around '
        'the colon; adjacency such as "(1 2)(3:4)", "1(2:3)", "#2#3"). (b) '
        'random: Hypothesis trees up to 14 leaves over 6 surfaces with facets, '
        'nested complements and up to two referenced cells. Every expression '
        'is embedded in a full cell card (material, density, options) so that '
        'cellcard.split decides where the geometry ends. Oracle: the truth '
        'table of the generator\'s tree over all 2^n sense assignments equals '
        'the table of (i) the AST returned by get_ast and (ii) the tree after '
        'pot_complement, which must contain no complement operator. '
        'Non-trivial: two operators of different kind or a complement; '
        'distinct = card text.')
ASSUMPTIONS = [
    'MCNP expression semantics: blank = intersection binding tighter than the '
    'colon union; #( ) complements a sub-expression, #n the region of cell n',
    'the spacing variants are those found in the upstream-validated decks '
    '(hash_no_space, chars_spaces_hash, spaces, whitespace .imcnp)',
]

# --------------------------------------------------------------------------
# generator-side trees:  ('s', n) | ('f', n, k) | ('c', cell) |
#                        ('&', a, b, ...) | ('|', a, b, ...) | ('~', a)
# --------------------------------------------------------------------------


def tree_vars(t, cells, acc=None):
    acc = acc if acc is not None else set()
    op = t[0]
    if op == 's':
        acc.add((abs(t[1]), None))
    elif op == 'f':
        acc.add((abs(t[1]), t[2]))
    elif op == 'c':
        tree_vars(cells[t[1]], cells, acc)
    else:
        for k in t[1:]:
            tree_vars(k, cells, acc)
    return acc


def tree_eval(t, sigma, cells):
    op = t[0]
    if op == 's':
        v = sigma[(abs(t[1]), None)]
        return v if t[1] < 0 else not v
    if op == 'f':
        v = sigma[(abs(t[1]), t[2])]
        return v if t[1] < 0 else not v
    if op == 'c':
        return not tree_eval(cells[t[1]], sigma, cells)
    if op == '~':
        return not tree_eval(t[1], sigma, cells)
    if op == '&':
        return all(tree_eval(k, sigma, cells) for k in t[1:])
    return any(tree_eval(k, sigma, cells) for k in t[1:])


class Spelling:
    """Rendering choices; ``bits`` is a tuple of small integers consumed in
    order so that a spelling is plain data (shrinkable / enumerable)."""

    def __init__(self, redundant=False, compl_space=False, cellc_space=False,
                 colon=':', pad_open='', pad_close='', adjacency=False,
                 wide=False):
        self.redundant = redundant
        self.compl_space = compl_space
        self.cellc_space = cellc_space
        self.colon = colon
        self.pad_open = pad_open
        self.pad_close = pad_close
        self.adjacency = adjacency
        self.wide = wide

    def as_dict(self):
        return dict(self.__dict__)


def render(t, sp):
    """Render a tree; returns text.  Blanks between two plain leaves are
    mandatory; everywhere else they follow the spelling."""
    blank = '   ' if sp.wide else ' '

    def paren(inner):
        return '(' + sp.pad_open + inner + sp.pad_close + ')'

    def rec(t):
        op = t[0]
        if op == 's':
            return str(t[1])
        if op == 'f':
            return '%d.%d' % (t[1], t[2])
        if op == 'c':
            return '#' + (' ' if sp.cellc_space else '') + str(t[1])
        if op == '~':
            return '#' + (' ' if sp.compl_space else '') + paren(rec(t[1]))
        if op == '&':
            parts = []
            for k in t[1:]:
                s = rec(k)
                if k[0] == '|':
                    s = paren(s)
                parts.append(s)
            out = parts[0]
            for s in parts[1:]:
                glue = blank
                if sp.adjacency and (out.endswith(')') or s.startswith('(')
                                     or s.startswith('#')):
                    glue = ''
                out = out + glue + s
            return out
        parts = []
        for k in t[1:]:
            s = rec(k)
            if k[0] == '&' and sp.redundant:
                s = paren(s)
            parts.append(s)
        return sp.colon.join(parts)
    return rec(t)


SPELLINGS = [
    Spelling(),
    Spelling(redundant=True, colon=' : '),
    Spelling(compl_space=True, cellc_space=True, colon=' :', pad_open=' ',
             pad_close=' '),
    Spelling(adjacency=True, colon=': '),
    Spelling(wide=True, colon='  :  ', pad_open='  '),
    Spelling(adjacency=True, redundant=True, pad_close=' ', cellc_space=True),
]

CARD_FORMS = [
    ('{id} 0 {g} imp:n=1', False),
    ('{id} 3 -2.7 {g} imp:n=1 u=2', False),
    ('{id} 0 {g} u=4 imp:n=1 vol=1.5', False),
    ('{id} 12 1.0e-2 {g}', False),
    ('{id} 5 -1.0{g} imp:n=1', True),     # needs the geometry to start with ( or #
    ('  {id}   7  -8.96   {g}   IMP:N=2', False),
    ('{id} 0 {g}imp:n=1 u=3', 'close'),   # options right after a closing )
    ('{id} 0{g} imp:n=1', True),          # void: ( right after the material 0
]

REF_CELLS = {9: ('&', ('s', -7), ('s', 8)),
             12: ('|', ('s', 7), ('~', ('&', ('s', -8), ('s', 9))))}


def card_text(cid, g, form):
    tmpl, needs_paren = CARD_FORMS[form]
    if needs_paren == 'close':
        if not g.endswith(')'):
            tmpl = CARD_FORMS[0][0]
    elif needs_paren and not g.startswith(('(', '#')):
        # ( and # delimit entries: no blank is needed in front of them
        tmpl = CARD_FORMS[0][0]
    return tmpl.format(id=cid, g=g)


# --------------------------------------------------------------------------
# the subject side
# --------------------------------------------------------------------------

_ctx = {}


def subject():
    if _ctx:
        return _ctx
    conv.load_repo()
    from MIP.mip import cellcard
    from MIP.geom.parsegeom import get_ast
    from MIP.geom.semantics import Surface
    from t4_geom_convert.Kernel.Volume.CellConversion import CellConversion
    from t4_geom_convert.Kernel.Volume.CellMCNP import CellMCNP
    _ctx.update(cellcard=cellcard, get_ast=get_ast, Surface=Surface,
                CellConversion=CellConversion, CellMCNP=CellMCNP)
    return _ctx


def ast_eval(ast, sigma, cell_fn, Surface):
    if isinstance(ast, Surface):
        v = sigma[(abs(ast.surface), ast.sub)]
        return v if ast.surface < 0 else not v
    op = ast[0]
    if op == '*':
        return all(ast_eval(k, sigma, cell_fn, Surface) for k in ast[1:])
    if op == ':':
        return any(ast_eval(k, sigma, cell_fn, Surface) for k in ast[1:])
    if op == '^':
        # ('^', n) is the complement of cell n; the repository encodes the
        # complement of that complement (the cell itself) as ('^', -n)
        cid = int(ast[1])
        val = cell_fn(abs(cid), sigma)
        return val if cid < 0 else not val
    raise ValueError('unexpected node %r' % (op,))


def has_complement(ast, Surface):
    if isinstance(ast, Surface):
        return False
    if ast[0] == '^':
        return True
    return any(has_complement(k, Surface) for k in ast[1:])


def judge(tree, spelling, form, cells=None):
    """Returns (problem or None, card text, n assignments)."""
    cx = subject()
    conv.trim_library_caches()
    Surface = cx['Surface']
    cells = cells or REF_CELLS
    text = render(tree, spelling)
    card = card_text(1, text, form)
    # referenced cells get their own cards, rendered canonically
    ref_asts = {}
    try:
        for cid, ctree in cells.items():
            ccard = card_text(cid, render(ctree, SPELLINGS[0]), 0)
            _n, _m, geom, _o = cx['cellcard'].split(ccard)
            ref_asts[cid] = cx['get_ast'](geom)
        _name, _mat, geom, _opts = cx['cellcard'].split(card)
        ast = cx['get_ast'](geom)
    except Exception as exc:
        return (('parse-error', '%s: %s' % (type(exc).__name__,
                                            str(exc)[:200])), card, 0)
    variables = sorted(tree_vars(tree, cells),
                       key=lambda v: (v[0], v[1] or 0))
    for ctree in cells.values():
        for v in tree_vars(ctree, cells):
            if v not in variables:
                variables.append(v)

    def ref_fn(cid, sigma):
        return ast_eval(ref_asts[cid], sigma,
                        lambda c2, s2: ref_fn(c2, s2), Surface)
    # complement elimination
    dic = {}
    for cid, a in ref_asts.items():
        dic[cid] = cx['CellMCNP']('0', None, a, 1.0, 0, None, (), None, [])
    dic[1] = cx['CellMCNP']('0', None, ast, 1.0, 0, None, (), None, [])
    cconv = cx['CellConversion'](100, 100, {}, {}, {}, dic)
    try:
        elim = cconv.pot_complement(ast)
    except Exception as exc:
        return (('complement-error', '%s: %s' % (type(exc).__name__,
                                                 str(exc)[:200])), card, 0)
    try:
        left = has_complement(elim, Surface)
    except Exception as exc:
        return (('malformed-ast', '%r after pot_complement: %r'
                 % (exc, elim)), card, 0)
    if left:
        return (('complement-left', repr(elim)[:300]), card, 0)
    n = 0
    for bits in itertools.product((False, True), repeat=len(variables)):
        sigma = dict(zip(variables, bits))
        want = tree_eval(tree, sigma, cells)
        try:
            got = ast_eval(ast, sigma, ref_fn, Surface)
            got2 = ast_eval(elim, sigma, ref_fn, Surface)
        except KeyError as exc:
            return (('unknown-surface-in-ast', repr(exc)), card, n)
        except Exception as exc:
            return (('malformed-ast', '%r: %r' % (exc, ast)), card, n)
        n += 1
        if got != want:
            return (('parse-table', 'assignment %r: expected %r, AST %r gives '
                     '%r' % (sigma, want, ast, got)), card, n)
        if got2 != want:
            return (('complement-table', 'assignment %r: expected %r, after '
                     'pot_complement %r gives %r' % (sigma, want, elim, got2)),
                    card, n)
    return None, card, n


# --------------------------------------------------------------------------
# (a) exhaustive enumeration
# --------------------------------------------------------------------------

def enum_trees(leaves, max_leaves):
    """All trees with 1..max_leaves leaves, binary inner nodes '&'/'|', each
    inner node optionally wrapped in a complement."""
    by_n = {1: [l for l in leaves]}
    for n in range(2, max_leaves + 1):
        out = []
        for k in range(1, n):
            for a in by_n[k]:
                for b in by_n[n - k]:
                    for op in ('&', '|'):
                        node = (op, a, b)
                        out.append(node)
                        out.append(('~', node))
        by_n[n] = out
    res = []
    for n in range(1, max_leaves + 1):
        res.extend(by_n[n])
    # complemented single leaves as well
    res.extend(('~', l) for l in leaves)
    return res


def _enum_worker(args):
    chunk, n_spell = args
    bad = []
    nontriv = 0
    evals = 0
    samples = []
    for idx, tree in chunk:
        for si in range(n_spell):
            sp = SPELLINGS[(idx + si) % len(SPELLINGS)]
            form = (idx + 2 * si) % len(CARD_FORMS)
            forms = [form]
            # the card forms that glue the expression to its neighbours are
            # tried whenever the spelled expression allows them
            txt = render(tree, sp)
            if si == 0 and txt.startswith(('(', '#')):
                forms += [f for f in (4, 7) if f != form]
            if si == 0 and txt.endswith(')'):
                forms += [f for f in (6,) if f != form]
            for form in forms:
                prob, card, _n = judge(tree, sp, form)
                evals += 1
                ops = repr(tree)
                if ('&' in ops and '|' in ops) or '~' in ops or "'c'" in ops:
                    nontriv += 1
                if len(samples) < 2 and idx % 997 == 0:
                    samples.append(card)
                if prob:
                    bad.append((prob[0], prob[1], card,
                                {'tree': tree, 'spelling': sp.as_dict(),
                                 'form': form}))
    return evals, nontriv, bad, samples


def extra(tier, seed, stats):
    if tier == 'quick':
        leaves = [('s', 1), ('s', -2), ('f', 3, 1), ('c', 9)]
        max_leaves, n_spell = 3, 2
    else:
        leaves = [('s', 1), ('s', -2), ('s', 3), ('f', -3, 2), ('c', 9),
                  ('c', 12)]
        max_leaves, n_spell = 4, 3
    trees = list(enumerate(enum_trees(leaves, max_leaves)))
    nproc = min(16, os.cpu_count() or 1)
    chunks = [(trees[k::nproc * 4], n_spell) for k in range(nproc * 4)]
    from ..runner import pmap
    results = pmap(_enum_worker, chunks, nproc)
    found = {}
    for evals, nontriv, bad, samples in results:
        stats.counts['extra_evaluations'] += evals
        stats.counts['extra_nontrivial'] += nontriv
        stats.counts['exhaustive_cards'] += evals
        for s in samples:
            if len(stats.samples) < 3:
                stats.samples.append({'card': s, 'part': 'exhaustive'})
        for code, detail, card, case in bad:
            found.setdefault('expr:%s' % code,
                             (dict(case, exhaustive=True),
                              {'problem': detail, 'card': card}))
    stats.counts['exhaustive_trees'] += len(trees)
    stats.counts['exhaustive_max_leaves'] = max_leaves
    return found


def evidence_extra(tier, stats):
    return {'exhaustive': False,
            'exhaustive_subdomain': 'all trees with <= %d leaves over the '
            'leaf alphabet, each in several spellings, were enumerated '
            'completely (%d trees); the random part is a sample'
            % (stats.counts.get('exhaustive_max_leaves', 0),
               stats.counts.get('exhaustive_trees', 0))}


# --------------------------------------------------------------------------
# (b) random trees
# --------------------------------------------------------------------------

@st.composite
def rand_tree(draw, depth, cells_ok):
    if depth <= 0 or draw(st.integers(0, 4)) == 0:
        k = draw(st.integers(0, 9))
        n = draw(st.integers(1, 6)) * draw(st.sampled_from([1, -1]))
        if k == 0:
            return ('f', n, draw(st.integers(1, 6)))
        if k == 1 and cells_ok:
            return ('c', draw(st.sampled_from(cells_ok)))
        return ('s', n)
    op = draw(st.sampled_from(['&', '&', '|', '|', '~']))
    if op == '~':
        return ('~', draw(rand_tree(depth - 1, cells_ok)))
    n = draw(st.integers(2, 4))
    return (op,) + tuple(draw(rand_tree(depth - 1, cells_ok))
                         for _ in range(n))


def count_leaves(t):
    if t[0] in ('s', 'f', 'c'):
        return 1
    return sum(count_leaves(k) for k in t[1:])


@st.composite
def rand_case(draw, tier='quick'):
    cells = {}
    if draw(st.booleans()):
        cells[20] = draw(rand_tree(2, []))
        if draw(st.booleans()):
            cells[30] = draw(rand_tree(2, [20]))
    tree = draw(rand_tree(4, sorted(cells)))
    sp = {'redundant': draw(st.booleans()),
          'compl_space': draw(st.booleans()),
          'cellc_space': draw(st.booleans()),
          'colon': draw(st.sampled_from([':', ' : ', ' :', ': ', '  :  '])),
          'pad_open': draw(st.sampled_from(['', '', ' ', '  '])),
          'pad_close': draw(st.sampled_from(['', '', ' '])),
          'adjacency': draw(st.booleans()),
          'wide': draw(st.integers(0, 3)) == 0}
    return {'tree': tree, 'cells': cells, 'spelling': sp,
            'form': draw(st.integers(0, len(CARD_FORMS) - 1)), 'tier': tier}


def strategy(tier):
    return rand_case(tier)


def budget(tier):
    if tier == 'quick':
        return {'max_examples': 1200, 'shards': 8, 'time_budget': 80}
    return {'max_examples': 320000, 'shards': 16, 'time_budget': 1200}


def _totuple(x):
    if isinstance(x, list):
        return tuple(_totuple(k) for k in x)
    return x


def render_case(case):
    tree = _totuple(case['tree'])
    return card_text(1, render(tree, Spelling(**case['spelling'])),
                     case['form'])


def sample_repr(case, out):
    return {'card': render_case(case), 'labels': out.labels,
            'part': 'random'}


def check(case):
    tree = _totuple(case['tree'])
    cells = {int(k): _totuple(v) for k, v in (case.get('cells') or {}).items()}
    if case.get('exhaustive'):
        cells = None
    sp = Spelling(**case['spelling'])
    n_leaves = count_leaves(tree)
    if n_leaves > 14:
        from ..runner import skip
        return skip('too-large')
    prob, card, n = judge(tree, sp, case['form'], cells)
    labels = ['leaves:%d' % min(n_leaves, 15)]
    rep = repr(tree)
    if "'~'" in rep:
        labels.append('compl-expr')
    if "'c'" in rep:
        labels.append('compl-cell')
    if "'f'" in rep:
        labels.append('facet')
    if sp.adjacency:
        labels.append('adjacency')
    if prob:
        return violation('expr:%s' % prob[0], {'problem': prob[1],
                                               'card': card}, labels)
    nontrivial = (("'&'" in rep and "'|'" in rep) or "'~'" in rep
                  or "'c'" in rep)
    return ok(labels, nontrivial, sig=case_sig(card),
              counts={'assignments': n})
