"""C13 - de-duplication and inlining options never change the geometry."""
import itertools

import numpy as np
from hypothesis import strategies as st

from .. import conv, gen_hier, mdeck as md, mrender as mr, semcheck, t4eval, \
    t4read
from ..runner import ok, violation, case_sig

PID = 'C13'
LEVEL = 'exploration'
RULE = ('Generated hierarchical, lattice, hexagonal-lattice and twin-fill '
        '(one universe in 2-3 containers under fill transformations sharing '
        'the displacement, matrices equal / turned / reflected) decks with '
        'duplicated surfaces (one card under several numbers, references '
        're-pointed at random) converted under all 2^3 combinations of '
        '--skip-deduplication, --always-inline-filling, '
        '--always-inline-filled, each with a drawn --max-inline-score from '
        '{-1, 0, 0.5, 1, 2, 1e9} or a generated float. Metamorphic oracle (no '
        'MCNP model in the verdict): for every decided point the (provenance '
        'comment or volume number, composition) read from each output equals '
        'that of the reference output (--skip-deduplication only). Second '
        'part: generated dictionaries of T4 surfaces (incl. -0.0, nearly '
        'equal parameters, equal parameters with different transforms) go '
        'through remove_duplicate_surfaces; two numbers may be merged only '
        'if type, parameters and transform are equal, and then their '
        'functions agree in sign on sample points. Third part: the shipped '
        'example decks (a quarter of them per quick run, all in thorough) '
        'under the same 8 combinations, points drawn in boxes sized from the '
        'written surfaces. Non-trivial: the deck has '
        'a FILL and a duplicate pair and >= 2 outputs differ textually; '
        'distinct = deck text.')
ASSUMPTIONS = [
    'TRIPOLI-4 evaluator of DESIGN 4.1 for reading both outputs',
    'points are placed with the abstract model but the verdict compares '
    'converter outputs with each other only',
]

FLAGS = ['--skip-deduplication', '--always-inline-filling',
         '--always-inline-filled']
SCORES = ['-1', '0', '0.5', '1', '2', '1e9']


@st.composite
def opt_case(draw, tier='quick'):
    if draw(st.integers(0, 5)) == 0:
        return draw(dedup_unit_case())
    which = draw(st.sampled_from(['hier', 'lattice', 'hex', 'prune',
                                  'twin', 'facets', 'facetfill']))
    if which == 'twin':
        # one universe in several containers under related transformations,
        # reflections included (the relation between outputs needs no MCNP
        # reading of a reflected frame)
        case = draw(gen_hier.twin_fill_case(tier, mirrors=True))
    elif which == 'hier':
        case = draw(gen_hier.hier_case(tier, {'lattice': True}))
    elif which == 'facetfill':
        case = draw(gen_hier.facet_fill_case(tier))
    elif which == 'facets':
        # macrobodies and their facets on every level, fillers cut by facets
        # of the body that bounds their container: inlining and
        # de-duplication must keep b, b.1 and b.3 apart
        case = draw(gen_hier.hier_case(tier, {'lattice': False,
                                              'facet_bias': True}))
    elif which == 'lattice':
        case = draw(gen_hier.hier_case(tier, {'lattice': 'force',
                                              'max_depth': 2}))
    elif which == 'prune':
        case = draw(gen_hier.prune_case(tier))
    else:
        case = draw(gen_hier.hex_case(tier))
    case = draw(gen_hier.decorate(case, dup=True, unused=False, bc=False))
    scores = []
    for _ in range(8):
        if draw(st.integers(0, 3)) == 0:
            scores.append(repr(round(draw(st.floats(-2.0, 6.0)), 3)))
        else:
            scores.append(draw(st.sampled_from(SCORES + [None])))
    case['scores'] = scores
    case['labels'] = sorted(set(case['labels']) | {'gen:' + which})
    return case


@st.composite
def dedup_unit_case(draw):
    n = draw(st.integers(2, 8))
    surfs = []
    base_vals = [0.0, -0.0, 1.0, 1.0 + 2 ** -52, 1.0000001, -1.0, 2.5, 1e-12]
    for _ in range(n):
        typ = draw(st.sampled_from(['PLANEX', 'PLANEZ', 'PLANE', 'SPHERE',
                                    'CYLZ', 'TORUSZ', 'TORUSZ', 'QUAD',
                                    'QUAD', 'CONEZ']))
        ar = t4read.SURF_ARITY[typ]
        params = [draw(st.sampled_from(base_vals)) for _ in range(ar)]
        if typ in ('SPHERE',):
            params[3] = abs(params[3]) + 1.0
        if typ == 'CYLZ':
            params[2] = abs(params[2]) + 1.0
        if typ == 'TORUSZ':
            params[3:] = [3.0, 1.0, draw(st.sampled_from([1.0, 1.0000001]))]
        if typ == 'PLANE' and not any(params[:3]):
            params[0] = 1.0
        tr = None
        if typ == 'TORUSZ' and draw(st.booleans()):
            ang = draw(st.sampled_from([0.3, 0.3, 0.30000001]))
            c, s = np.cos(ang), np.sin(ang)
            tr = ([0.0, 0.0, 0.0], [1.0, 0.0, 0.0, 0.0, c, -s, 0.0, s, c])
        surfs.append({'type': typ, 'params': params, 'tr': tr})
    # duplicate some entries exactly, others almost
    for _ in range(draw(st.integers(1, 4))):
        src = draw(st.sampled_from(surfs))
        cp = {'type': src['type'], 'params': list(src['params']),
              'tr': src['tr']}
        how = draw(st.sampled_from(['exact', 'exact', 'param', 'transform']))
        if how == 'param':
            q = draw(st.integers(0, len(cp['params']) - 1))
            cp['params'][q] = float(np.nextafter(cp['params'][q], 10.0)) \
                if draw(st.booleans()) else cp['params'][q] + 1e-7
        elif how == 'transform' and cp['type'] == 'TORUSZ':
            ang = draw(st.sampled_from([0.3, 0.30000001, 1.2]))
            c, sn = np.cos(ang), np.sin(ang)
            newtr = ([0.0, 0.0, 0.0], [1.0, 0.0, 0.0, 0.0, c, -sn, 0.0, sn, c])
            cp['tr'] = None if (cp['tr'] is not None and draw(st.booleans())) \
                else newtr
        surfs.append(cp)
    ids = draw(st.permutations(list(range(1, len(surfs) + 1))))
    return {'unit': True, 'surfs': surfs, 'ids': list(ids),
            'labels': ['dedup-unit'],
            'pseed': draw(st.integers(0, 2 ** 31 - 1))}


def strategy(tier):
    return opt_case(tier)


def budget(tier):
    if tier == 'quick':
        return {'max_examples': 800, 'shards': 16, 'time_budget': 110}
    return {'max_examples': 9600, 'shards': 16, 'time_budget': 1800}


def render_case(case):
    if case.get('unit'):
        return repr(case['surfs'])
    if case.get('corpus'):
        return 'shipped deck %s' % case['deck_file']
    return mr.render(case['deck']) + '\nc lattice options: ' + \
        ' '.join(mr.argv_of(case['deck']))


def sample_repr(case, out):
    if case.get('corpus'):
        return {'deck_file': case['deck_file'], 'labels': out.labels}
    if case.get('unit'):
        return {'surfaces': case['surfs'][:4], 'labels': out.labels}
    return {'deck': mr.render(case['deck']), 'labels': out.labels}


def signatures(t4, P):
    ev = t4eval.Evaluator(t4, P)
    ids, mat = ev.membership()
    comp_of = t4.comp_of_volume()
    per_vol = []
    for v in ids:
        vol = t4.volus[v]
        key = repr(tuple(vol.prov)) if vol.prov else 'id:%d' % v
        per_vol.append((key, tuple(comp_of.get(v, ()))))
    sigs = []
    for i in range(len(P)):
        sigs.append(tuple(sorted(per_vol[k] for k in np.nonzero(mat[:, i])[0])))
    return sigs, ev.decided_all()


def check_unit(case):
    conv.load_repo()
    from t4_geom_convert.Kernel.Surface.SurfaceT4 import SurfaceT4
    from t4_geom_convert.Kernel.Surface.ESurfaceTypeT4 import ESurfaceTypeT4
    from t4_geom_convert.Kernel.Surface.CollectionDict import CollectionDict
    from t4_geom_convert.Kernel.Surface.Duplicates import \
        remove_duplicate_surfaces
    dic = CollectionDict()
    mine = {}
    for sid, s in zip(case['ids'], case['surfs']):
        tr = None
        if s['tr'] is not None:
            tr = (np.array(s['tr'][0]), np.array(s['tr'][1]).reshape(3, 3))
        dic[sid] = SurfaceT4(getattr(ESurfaceTypeT4, s['type']),
                             list(s['params']), transform=tr)
        mine[sid] = s
    import contextlib
    import io
    with contextlib.redirect_stdout(io.StringIO()):
        new, renum = remove_duplicate_surfaces(dic)
    labels = ['dedup-unit']
    rng = np.random.Generator(np.random.PCG64(case['pseed']))
    P = rng.uniform(-5, 5, (200, 3))

    def as_surf(sid, s):
        return t4read.Surf(sid, s['type'], list(s['params']),
                           None if s['tr'] is None else
                           (list(s['tr'][0]), list(s['tr'][1])), '', '')
    merged = 0
    for a, b in renum.items():
        if a == b:
            continue
        merged += 1
        sa, sb = mine[a], mine[b]
        same = (sa['type'] == sb['type']
                and all(x == y for x, y in zip(sa['params'], sb['params']))
                and ((sa['tr'] is None) == (sb['tr'] is None))
                and (sa['tr'] is None or
                     (list(sa['tr'][0]) == list(sb['tr'][0])
                      and list(sa['tr'][1]) == list(sb['tr'][1]))))
        ga, _ = t4eval.surf_value(as_surf(a, sa), P)
        gb, _ = t4eval.surf_value(as_surf(b, sb), P)
        agree = bool(np.all((ga > 0) == (gb > 0)))
        if not same or not agree:
            return violation('dedup:merged-different-surfaces',
                             {'a': sa, 'b': sb, 'ids': [a, b],
                              'sign_agreement': agree}, labels)
        if b not in new:
            return violation('dedup:renumbered-to-removed-surface',
                             {'ids': [a, b]}, labels)
    for sid in mine:
        if renum.get(sid) is None:
            return violation('dedup:surface-lost', {'id': sid}, labels)
    return ok(labels, merged > 0, sig=case_sig(case['surfs']),
              counts={'unit_merged': merged})


def t4_scale(t4):
    """Half-width of a box that contains the interesting part of a written
    geometry, from the numbers on its SURF lines."""
    vals = [1.0]
    for srf in t4.surfs.values():
        for v in (srf.params or []):
            if isinstance(v, (int, float)) and abs(v) < 5e3:
                vals.append(abs(float(v)))
    vals.sort()
    return min(max(vals[int(0.9 * (len(vals) - 1))] * 1.5, 2.0), 2e3)


def check_corpus(case):
    """Shipped deck under all flag combinations: same provenance and
    composition at every decided point (points drawn in boxes sized from the
    written surfaces; no model involved)."""
    from . import c08
    from ..runner import skip
    entry = [e for e in c08.shipped_decks() if e[0] == case['deck_file']]
    if not entry:
        return skip('corpus-deck-missing')
    name, text, flags, _enc = entry[0]
    labels = ['corpus:' + name]
    flags = [f for f in flags if f not in FLAGS]
    while '--max-inline-score' in flags:
        k = flags.index('--max-inline-score')
        del flags[k:k + 2]
    ref = conv.convert(text, flags + ['--skip-deduplication'])
    if not ref.ok:
        return skip('corpus-deck-not-converted', labels)
    t4ref = t4read.parse(ref.t4_text)
    if len(t4ref.volus) > case.get('max_volumes', 400):
        return skip('corpus-deck-too-large', labels)
    B = t4_scale(t4ref)
    rng = np.random.Generator(np.random.PCG64(case.get('pseed', 1)))
    n = case.get('points', 240)
    P = np.vstack([rng.uniform(-B, B, (n // 2, 3)),
                   rng.uniform(-B / 4, B / 4, (n // 4, 3)),
                   rng.uniform(-B / 16, B / 16, (n - n // 2 - n // 4, 3))])
    ref_sigs, ref_dec = signatures(t4ref, P)
    scores = [None, '-1', '0', '1e9', '0.5', None, '2', '-1']
    n_diff = 0
    for combo, score in zip(itertools.product([False, True], repeat=3),
                            scores):
        argv = list(flags) + [f for f, on in zip(FLAGS, combo) if on]
        if score is not None:
            argv += ['--max-inline-score', score]
        res = conv.convert(text, argv)
        tag = '+'.join(f[2:] for f, on in zip(FLAGS, combo) if on) or 'default'
        if not res.ok:
            return violation('corpus-crash:%s' % res.crash_key(),
                             {'error': res.brief(), 'deck_file': name,
                              'argv': argv}, labels)
        t4 = t4read.parse(res.t4_text)
        if res.t4_text != ref.t4_text:
            n_diff += 1
        sigs, dec = signatures(t4, P)
        both = ref_dec & dec
        for i in np.nonzero(both)[0]:
            if sigs[i] != ref_sigs[i]:
                return violation('options-change-geometry:corpus:%s' % tag,
                                 {'point': [float(v) for v in P[i]],
                                  'reference': repr(ref_sigs[i]),
                                  'with_options': repr(sigs[i]),
                                  'argv': argv, 'deck_file': name}, labels)
    inside = sum(1 for sg in ref_sigs if sg)
    return ok(labels, n_diff >= 1 and inside >= 10, sig=case_sig(name),
              counts={'corpus_conversions': 9, 'corpus_points': len(P),
                      'corpus_points_in_a_volume': inside})


def _corpus_worker(case):
    try:
        out = check_corpus(case)
    except Exception as exc:       # reader / evaluator limits on real decks
        from ..runner import skip
        out = skip('corpus-harness-limit:%s' % type(exc).__name__,
                   ['corpus:' + case['deck_file']])
    conv.cleanup()
    return case, out


def extra(tier, seed, stats):
    import multiprocessing
    import os
    from . import c08
    names = [e[0] for e in c08.shipped_decks() if e[3] == 'utf-8']
    if tier == 'quick':
        names = names[seed % 4::4]
    cases = [{'corpus': True, 'deck_file': nm, 'pseed': seed,
              'points': 240 if tier == 'quick' else 800,
              'max_volumes': 400 if tier == 'quick' else 3000}
             for nm in names]
    from ..runner import pmap
    results = pmap(_corpus_worker, cases, 16)
    found = {}
    for case, out in results:
        stats.counts['extra_evaluations'] += 1
        stats.labels.update(['corpus-deck'])
        stats.counts.update(out.counts)
        if out.kind == 'skip':
            stats.skipped[out.bucket] += 1
        elif out.kind == 'violation':
            found.setdefault(out.bucket, (case, out.detail))
        elif out.nontrivial:
            stats.counts['extra_nontrivial'] += 1
    return found


def check(case):
    if case.get('unit'):
        return check_unit(case)
    if case.get('corpus'):
        return check_corpus(case)
    deck = case['deck']
    text = mr.render(deck)
    labels = list(case['labels'])
    locator = md.Locator(deck)
    n_pts = 240 if case.get('tier') == 'quick' else 900
    P = semcheck.make_points(locator, case['pseed'], n_pts, case['box'])
    base_argv = mr.argv_of(deck)
    ref = conv.convert(text, base_argv + ['--skip-deduplication'])
    if not ref.ok:
        if ref.exc_type == 'ValueError' and 'empty' in (ref.exc_msg or ''):
            from ..runner import skip
            return skip('degenerate:nothing-to-convert', labels)
        return violation('crash:%s' % ref.crash_key(),
                         {'error': ref.brief(), 'deck': text,
                          'argv': base_argv}, labels)
    t4ref = t4read.parse(ref.t4_text)
    if t4read.validate(t4ref):
        return violation('structural:%s' % t4read.validate(t4ref)[0][0],
                         {'deck': text}, labels)
    ref_sigs, ref_dec = signatures(t4ref, P)
    texts = set([ref.t4_text])
    n_runs = 0
    for combo, score in zip(itertools.product([False, True], repeat=3),
                            case['scores']):
        argv = list(base_argv) + [f for f, on in zip(FLAGS, combo) if on]
        if score is not None:
            argv += ['--max-inline-score', score]
        res = conv.convert(text, argv)
        n_runs += 1
        tag = '+'.join(f[2:] for f, on in zip(FLAGS, combo) if on) or 'default'
        if not res.ok:
            return violation('crash:%s' % res.crash_key(),
                             {'error': res.brief(), 'deck': text,
                              'argv': argv}, labels)
        t4 = t4read.parse(res.t4_text)
        iss = t4read.validate(t4)
        if iss:
            return violation('structural:%s' % iss[0][0],
                             {'issues': iss[:4], 'deck': text, 'argv': argv},
                             labels)
        sigs, dec = signatures(t4, P)
        texts.add(res.t4_text)
        both = ref_dec & dec
        for i in np.nonzero(both)[0]:
            if sigs[i] != ref_sigs[i]:
                return violation('options-change-geometry:%s' % tag,
                                 {'point': [float(v) for v in P[i]],
                                  'reference': repr(ref_sigs[i]),
                                  'with_options': repr(sigs[i]),
                                  'argv': argv, 'deck': text}, labels)
    has_fill = any(c.get('fill') for c in deck['cells'])
    has_dup = any(l.startswith('dup-surface') for l in labels)
    return ok(labels, has_fill and has_dup and len(texts) >= 2,
              sig=case_sig(text),
              counts={'conversions': n_runs + 1, 'points': len(P)})
