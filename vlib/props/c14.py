"""C14 - output does not depend on MCNP-insignificant formatting."""
import copy

from hypothesis import strategies as st

from .. import conv, gen, gen_hier, layouts, mdeck as md, mrender as mr, \
    semcheck, t4read
from ..runner import ok, violation, skip, case_sig
from . import c01

PID = 'C14'
LEVEL = 'exploration'
RULE = ('A base deck from the mixed generators (level-0 Boolean decks, '
        'universe trees, lattices with FILL arrays, LIKE-BUT cells, TR cards '
        'incl. abbreviated matrices, IMP data cards) is rendered canonically '
        'and again under a Hypothesis-drawn set of rewrites applied by the '
        'renderer: letter case of mnemonics / keywords; width and kind '
        '(blank, tab) of existing blank runs and card indentation (0-4 '
        'columns); continuation lines at any existing blank by >= 5 leading '
        'blanks (or a tab) or a trailing ampersand; full-line c comments '
        'between and inside cards and in-line $ comments; a leading message '
        'block; integers (cell, surface, material, universe, TR numbers) '
        'with leading zeros; blanks around the equals sign of keyword=value on cell and '
        'material cards; blanks / tabs after the last entry of a line, blank-only '
        'delimiter lines and CRLF line ends; number spellings (Python-compatible: 1.50, +1.5, 15e-1, .5 / '
        'Fortran-only: 1.5+0, 1.5d0, labelled separately); data-card '
        'shorthand (nR in IMP cards and FILL arrays, nJ vs J J in TR cards) '
        'versus its expansion. Oracle: the two written files have identical '
        'GEOMETRY and BOUNDARY_CONDITION text and every volume is attached '
        'to a composition with the same kind, density, NB_ATOM flag and '
        'nuclide amounts (numerically). Non-trivial: >= 3 rewrite kinds '
        'actually applied and >= 3 lines differ; distinct = variant text.')
ASSUMPTIONS = [
    'only respellings named by the statement are applied; blanks are never '
    'inserted where there were none, except around the equals sign of '
    'keyword=value, which MCNP reads as a blank (the cell-card parser of the '
    'converter accepts it by design)',
    'composition names may differ between the two files; the association '
    'volume -> composition content is what is compared',
]

REWRITES = ['case', 'blanks', 'indent', 'breaks', 'amp', 'dollar',
            'ccomments', 'message', 'shorthand', 'eqblanks', 'intzeros']


@st.composite
def fmt_case(draw, tier='quick'):
    which = draw(st.sampled_from(['level0', 'hier', 'lattice', 'like', 'tr',
                                  'fillprog']))
    if which == 'fillprog':
        case = draw(progression_lattice_case(tier))
    elif which == 'level0':
        case = draw(c01.level0_case(tier))
    elif which == 'hier':
        case = draw(gen_hier.hier_case(tier, {'lattice': True}))
    elif which == 'lattice':
        case = draw(gen_hier.hier_case(tier, {'lattice': 'force',
                                              'max_depth': 2}))
    elif which == 'like':
        case = draw(gen_hier.like_case(tier))
    else:
        from . import c04
        case = draw(c04.tr_case(tier))
    deck = case['deck']
    labels = set(case['labels']) | {'gen:' + which}
    if which != 'level0' and draw(st.booleans()) and \
            all(c.get('like') is None for c in deck['cells']):
        to_data_imp(deck, draw(st.integers(0, 9)))
        labels.add('imp:data')
    spec = {k: draw(st.booleans()) for k in REWRITES}
    spec['num'] = draw(st.sampled_from([None, 'python', 'python', 'fortran']))
    spec['eol'] = draw(st.sampled_from([None, None, 'trailing-blanks', 'crlf',
                                        'both']))
    spec['num_scope'] = draw(st.sampled_from(['all', 'c', 's', 'd']))
    spec['bits'] = draw(st.lists(st.integers(0, 11), min_size=8,
                                 max_size=40))
    return {'deck': deck, 'style': case.get('style'), 'spec': spec,
            'labels': sorted(labels), 'tier': tier}


def to_data_imp(deck, pattern=0):
    """Move the importances to an IMP:N data card; the non-zero values are
    replaced by a progression (their magnitude does not matter to the
    conversion) so that nI / nM shorthand becomes applicable."""
    vals = []
    seqs = [[1.0] * 64, [float(1 + q) for q in range(64)],
            [float(2 ** (q % 5)) for q in range(64)],
            [1.0, 1.0, 2.0, 3.0, 4.0, 4.0, 8.0, 16.0] * 8]
    seq = seqs[pattern % 5 % len(seqs)]
    k = 0
    for c in deck['cells']:
        imp = c.get('imp') or {'n': 1}
        v = float(imp.get('n', 1))
        if v != 0:
            v = seq[k % len(seq)]
            k += 1
        vals.append(v)
        c['imp'] = None
        c.pop('imp_groups', None)
    if pattern % 5 == 4:
        # the non-zero cells before a zero-importance cell descend linearly
        # to that zero (1, 2/3, 1/3, 0): an interpolation whose end point
        # must be exactly zero
        vals = [1.0 if v != 0 else 0.0 for v in vals]
        z = 0
        while z < len(vals):
            if vals[z] == 0.0:
                r = 0
                while z - r - 1 >= 0 and vals[z - r - 1] != 0.0 and r < 9:
                    r += 1
                if r >= 2:
                    for j in range(r):
                        vals[z - r + j] = 1.0 - j / float(r)
            z += 1
    deck['imp_cards'] = {'n': {'values': vals}}


@st.composite
def progression_lattice_case(draw, tier):
    """A 1-D or 2-D lattice whose FILL array lists consecutively numbered
    universes, so that the array can be written with nI shorthand."""
    b = gen_hier.Builder(draw, tier, {'lattice': False})
    world = b.add_surf('so', [5.0])
    nx = draw(st.integers(3, 5))
    ny = draw(st.integers(1, 2))
    u0 = 10
    univs = []
    for q in range(nx):
        u = u0 + q
        sid = b.add_surf('so', [0.15 + 0.05 * q])
        m1, r1 = b.material()
        m2, r2 = b.material()
        b.deck['cells'].append(md.cell(b.new_cid(), m1, r1, md.S(-sid),
                                       imp={'n': 1}, u=u))
        b.deck['cells'].append(md.cell(b.new_cid(), m2, r2, md.S(sid),
                                       imp={'n': 1}, u=u))
        univs.append(u)
    p1 = b.add_surf('px', [0.0])
    p2 = b.add_surf('px', [1.0])
    p3 = b.add_surf('py', [0.0])
    p4 = b.add_surf('py', [1.0])
    arr = []
    for j in range(ny):
        arr += univs if j % 2 == 0 else univs[::-1]
    b.deck['cells'].append(md.cell(
        b.new_cid(), 0, None, md.AND(md.S(-p2), md.S(p1), md.S(-p4), md.S(p3)),
        imp={'n': 1}, u=5, lat=1,
        fill={'u': None, 'ranges': [[0, nx - 1], [0, ny - 1], [0, 0]],
              'univs': arr, 'tr': None}))
    b.deck['cells'].append(md.cell(b.new_cid(), 0, None, md.S(-world),
                                   imp={'n': 1}, fill={'u': 5, 'tr': None}))
    b.deck['cells'].append(md.cell(b.new_cid(), 0, None, md.S(world),
                                   imp={'n': 0}))
    b.labels.add('fill-progression')
    return {'deck': b.deck, 'labels': sorted(b.labels), 'tier': tier}


def strategy(tier):
    return fmt_case(tier)


def budget(tier):
    if tier == 'quick':
        return {'max_examples': 960, 'shards': 16, 'time_budget': 100}
    return {'max_examples': 48000, 'shards': 16, 'time_budget': 1500}


def variant_deck(case):
    """Deck-level part of the rewrites (shorthand vs expansion)."""
    deck = copy.deepcopy(case['deck'])
    spec = case['spec']
    applied = set()
    if spec.get('shorthand'):
        bits = spec['bits']
        k = bits[0]
        upper = bool(bits[1] % 2)
        for p, card in (deck.get('imp_cards') or {}).items():
            new, used = layouts.compress_data(card['values'], bits,
                                              upper=upper)
            if used:
                card['tokens'] = new
                applied.update('shorthand:imp-' + u for u in used)
        for c in deck['cells']:
            f = c.get('fill')
            if f and f.get('univs') is not None:
                new, used = layouts.compress_data(
                    f['univs'], bits[1:] + bits[:1], fmt=lambda v: str(int(v)),
                    upper=upper)
                used.discard('nM')
                if used and 'nM' not in ' '.join(new).lower():
                    f['univs_spelled'] = new
                    applied.update('shorthand:fill-' + u for u in used)
            lk = c.get('like')
            if lk and lk['but'].get('fill') and \
                    lk['but']['fill'].get('univs') is not None:
                pass
        for q, t in enumerate(deck['transforms']):
            if t['spec'].get('mask'):
                t['spec']['j_expanded'] = True
                applied.add('shorthand:nJ-expanded')
            # J for the default value of an entry: a zero displacement entry,
            # m = 1
            if bits[(q + 3) % len(bits)] % 2 == 0 and \
                    any(v == 0 for v in t['spec']['o']) and \
                    any(v != 0 for v in t['spec']['o']):
                t['spec']['disp_j'] = [True, True, True]
                applied.add('shorthand:J-for-zero-displacement')
            if t['spec']['n'] == 13 and t['spec'].get('m') in (None, 1) and \
                    bits[(q + 5) % len(bits)] % 2 == 0:
                t['spec']['m_j'] = True
                applied.add('shorthand:J-for-m')
    return deck, applied


def render_pair(case):
    base = mr.render(case['deck'], expr_style=case.get('style'))
    vdeck, applied = variant_deck(case)
    lay = layouts.VariedLayout(case['spec'])
    var = mr.render(vdeck, layout=lay, expr_style=case.get('style'))
    applied = applied | lay.applied
    eol = case['spec'].get('eol')
    if eol:
        bits = case['spec'].get('bits') or [0]
        lines = var.split('\n')
        if eol in ('trailing-blanks', 'both'):
            # blanks (and tabs) after the last entry of a line, and delimiter
            # lines made of blanks only
            tails = ['', ' ', '   ', ' \t', '']
            lines = [ln + tails[(bits[k % len(bits)] + k) % len(tails)]
                     if len(ln) < 70 else ln for k, ln in enumerate(lines)]
            applied.add('trailing-blanks')
        var = '\n'.join(lines)
        if eol in ('crlf', 'both'):
            var = var.replace('\n', '\r\n')
            applied.add('crlf')
    return base, var, applied


def render_case(case):
    base, var, applied = render_pair(case)
    return var


def sample_repr(case, out):
    base, var, applied = render_pair(case)
    return {'variant_deck': var, 'labels': out.labels}


def content_by_volume(t4):
    blocks = {c.name: c for c in t4.compos}
    out = {}
    for vid, names in t4.comp_of_volume().items():
        cont = []
        for nm in names:
            b = blocks.get(nm)
            if b is None:
                cont.append(('undefined', nm))
                continue
            def real(text):
                try:
                    return semcheck.parse_real(text)
                except ValueError:
                    return ('not-a-number', text)   # compared, never equal
            cont.append((b.kind,
                         None if b.density is None else real(b.density),
                         b.nb_atom,
                         tuple((n, real(a)) for n, a in b.nuclides)))
        out[vid] = tuple(cont)
    return out


def geometry_text(text):
    a = text.find('GEOMETRY')
    b = text.find('ENDG')
    return text[a:b]


def bc_text(text):
    a = text.find('BOUNDARY_CONDITION')
    return '' if a < 0 else text[a:]


def compare_outputs(ta, tb):
    if geometry_text(ta) != geometry_text(tb):
        la = geometry_text(ta).split('\n')
        lb = geometry_text(tb).split('\n')
        diff = [(x, y) for x, y in zip(la, lb) if x != y][:3]
        return 'geometry', {'first_differences': diff,
                            'n_lines': [len(la), len(lb)]}
    if bc_text(ta) != bc_text(tb):
        return 'boundary-conditions', {'a': bc_text(ta), 'b': bc_text(tb)}
    pa, pb = t4read.parse(ta), t4read.parse(tb)
    ca, cb = content_by_volume(pa), content_by_volume(pb)
    if ca != cb:
        bad = [v for v in ca if ca.get(v) != cb.get(v)][:3]
        return 'compositions', {'volumes': bad,
                                'a': [repr(ca.get(v)) for v in bad],
                                'b': [repr(cb.get(v)) for v in bad]}
    return None, None


def check(case):
    base, var, applied = render_pair(case)
    labels = list(case['labels']) + ['rw:' + a for a in sorted(applied)]
    argv = mr.argv_of(case['deck'])
    r0 = conv.convert(base, argv)
    if not r0.ok:
        # the base deck itself is not convertible: not this property's domain
        return skip('base-not-converted:%s' % r0.exc_type, labels)
    r1 = conv.convert(var, argv)
    fam = sorted(a for a in applied)
    tag = 'num:fortran' if 'num:fortran' in fam else ''
    if not r1.ok:
        return violation('variant-rejected:%s:%s' % (r1.crash_key(), tag),
                         {'error': r1.brief(), 'applied': fam,
                          'variant': var, 'base': base, 'argv': argv}, labels)
    what, detail = compare_outputs(r0.t4_text, r1.t4_text)
    if what:
        return violation('output-differs:%s:%s' % (what, tag),
                         {'detail': detail, 'applied': fam, 'variant': var,
                          'base': base, 'argv': argv}, labels)
    n_diff = sum(1 for a, b in zip(base.split('\n'), var.split('\n'))
                 if a != b) + abs(base.count('\n') - var.count('\n'))
    kinds = set(a.split(':')[0] for a in applied)
    return ok(labels, len(kinds) >= 3 and n_diff >= 3, sig=case_sig(var),
              counts={'lines_changed': n_diff})
