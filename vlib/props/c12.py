"""C12 - exactly the zero-importance cells are left out."""
import re

from hypothesis import strategies as st

from .. import conv, mdeck as md, mrender as mr, t4read
from ..runner import ok, violation, case_sig

PID = 'C12'
LEVEL = 'exploration'
RULE = ('Generated decks of 2-10 non-empty level-0 slab cells whose '
        'importances come from cell-card keywords (imp:n=, imp:n,p=, several '
        'imp:x keywords per cell), from IMP:x data cards (1-3 particle types, '
        'with nR, nM and nI shorthand), or from a mix (some cells carry a '
        'keyword, the others rely on the data cards, whose entry for a '
        'keyword cell may say otherwise); zero-importance cells '
        'at any rank; a quarter of the decks have level-0 cells filled with '
        'one or two universe levels of independent importances. Oracle: harness-side shorthand expansion; the set of '
        'non-virtual VOLU numbers must equal the cells whose importance is '
        'non-zero for some particle type, and the NOTE line must list exactly '
        'the level-0 cells whose importance is zero for every particle type; '
        'a converted filled cell yields one volume per leaf cell of the '
        'universes that fill it. '
        'Non-trivial: both kinds of cell present and (shorthand or >= 2 '
        'particle types); distinct = rendered deck.')
ASSUMPTIONS = [
    'importance rule of the statement: cell-card IMP keywords if any, '
    'otherwise the value at the cell\'s rank in each IMP:x data card after '
    'shorthand expansion; zero means zero for every particle type',
    'nR repeats the previous value n times, nM multiplies the previous value, '
    'nI inserts n linearly interpolated values (MCNP manual)',
]

PARTICLES = ['n', 'p', 'e']


def expand(tokens):
    """Independent expansion of nR / nM / nI shorthand."""
    out = []
    i = 0
    toks = [t.lower() for t in tokens]
    while i < len(toks):
        t = toks[i]
        if re.match(r'^\d*r$', t):
            n = int(t[:-1]) if len(t) > 1 else 1
            out.extend([out[-1]] * n)
        elif re.match(r'^[\d.]+m$', t):
            out.append(out[-1] * float(t[:-1]))
        elif re.match(r'^\d*i$', t):
            n = int(t[:-1]) if len(t) > 1 else 1
            hi = float(toks[i + 1])
            lo = out[-1]
            for k in range(1, n + 1):
                out.append(lo + (hi - lo) * k / (n + 1))
            out.append(hi)
            i += 1
        else:
            out.append(float(t))
        i += 1
    return out


@st.composite
def shorthand(draw, values):
    """Re-spell a list of importance values with nR / nM / nI where they
    apply; returns tokens."""
    toks = []
    i = 0
    n = len(values)
    used = False
    while i < n:
        v = values[i]
        # run of equal values -> nR
        j = i
        while j + 1 < n and values[j + 1] == v:
            j += 1
        run = j - i
        if toks and run >= 0 and values[i - 1] == v and draw(st.booleans()):
            # continue previous value with repeats (covers this whole run)
            cnt = run + 1
            toks.append('%dr' % cnt if cnt > 1 or draw(st.booleans())
                        else 'r')
            used = True
            i = j + 1
            continue
        if toks and v != 0 and values[i - 1] != 0 and \
                float(values[i] / values[i - 1]).is_integer() and \
                values[i] / values[i - 1] > 1 and draw(st.booleans()):
            toks.append('%dm' % int(values[i] / values[i - 1]))
            used = True
            i += 1
            continue
        # arithmetic progression v, v+d, ..., -> kI
        if toks and i + 1 < n and draw(st.booleans()):
            prev = values[i - 1]
            k = 0
            step = values[i] - prev
            while step != 0 and i + k + 1 < n and \
                    abs((values[i + k + 1] - values[i + k]) - step) < 1e-12:
                k += 1
            if k >= 1:
                toks.append('%di' % k if k > 1 or draw(st.booleans()) else 'i')
                toks.append(mr.fnum(values[i + k]))
                used = True
                i += k + 1
                continue
        toks.append(str(int(v)) if float(v).is_integer() and draw(st.booleans())
                    else mr.fnum(float(v)))
        i += 1
    return toks, used


@st.composite
def imp_case(draw, tier='quick'):
    n = draw(st.integers(2, 10))
    mode = draw(st.sampled_from(['card', 'data', 'data', 'mix']))
    nparts = draw(st.sampled_from([1, 1, 2, 3]))
    parts = PARTICLES[:nparts]
    labels = {'mode:' + mode, 'particles:%d' % nparts}
    # per cell, per particle values
    vals = []
    for _ in range(n):
        zero_all = draw(st.integers(0, 3)) == 0
        row = {}
        for p in parts:
            if zero_all:
                row[p] = 0.0
            else:
                row[p] = float(draw(st.sampled_from([1, 1, 2, 4, 0, 0.5, 8])))
        vals.append(row)
    # monotone runs make nI / nM applicable
    prog = draw(st.integers(0, 5))
    if prog in (0, 1) and n >= 4:
        start = draw(st.integers(0, n - 3))
        for k, q in enumerate(range(start, min(n, start + 4))):
            vals[q][parts[0]] = float(1 + k)
        labels.add('progression')
    elif prog == 2 and n >= 3:
        # a linear descent that ends in a cell of zero importance, e.g.
        # 1, 2/3, 1/3, 0 (written "1 2i 0"): the end point is exactly zero
        r = draw(st.integers(2, min(n - 1, 9)))
        start = draw(st.integers(0, n - 1 - r))
        for p in parts:
            for j in range(r):
                vals[start + j][p] = 1.0 - j / float(r)
            vals[start + r][p] = 0.0
        labels.add('progression:down-to-zero')
    elif prog == 3 and n >= 3:
        r = draw(st.integers(2, min(n - 1, 9)))
        start = draw(st.integers(0, n - 1 - r))
        for p in parts:
            vals[start][p] = 0.0
            for j in range(1, r + 1):
                vals[start + j][p] = j / float(r)
        labels.add('progression:up-from-zero')
    deck = md.new_deck()
    for q in range(n + 1):
        deck['surfaces'].append(md.surf(q + 1, 'px', [float(q)]))
    cid = 0
    has_kw = []
    for q in range(n):
        cid += draw(st.integers(1, 9))
        c = md.cell(cid, 0, None, md.AND(md.S(q + 1), md.S(-(q + 2))))
        if mode == 'card' or (mode == 'mix' and draw(st.booleans())):
            row = vals[q]
            groups = []
            if nparts >= 2 and row[parts[0]] == row[parts[1]] and \
                    draw(st.booleans()):
                groups.append((','.join(parts[:2]), row[parts[0]]))
                rest = parts[2:]
                labels.add('imp:n,p=')
            else:
                rest = parts
            for p in rest:
                groups.append((p, row[p]))
            c['imp'] = dict(row)
            c['imp_groups'] = groups
            has_kw.append(True)
        else:
            has_kw.append(False)
        deck['cells'].append(c)
    used_short = False
    if mode in ('data', 'mix'):
        deck['imp_cards'] = {}
        for p in parts:
            col = [vals[q][p] for q in range(n)]
            if mode == 'mix':
                # the data card has an entry for every cell; where the cell
                # card carries IMP keywords these win, whatever the entry says
                for q in range(n):
                    if has_kw[q] and draw(st.booleans()):
                        col[q] = float(draw(st.sampled_from([0, 0, 1, 2])))
                        labels.add('mix:data-entry-differs-from-keyword')
            if draw(st.booleans()):
                toks, used = draw(shorthand(col))
                used_short |= used
            else:
                toks = [mr.fnum(v) for v in col]
            deck['imp_cards'][p] = {'values': col, 'tokens': toks}
    if used_short:
        labels.add('shorthand')
    if draw(st.booleans()):
        order = draw(st.permutations(PARTICLES[:nparts]))
        if deck.get('imp_cards'):
            deck['imp_cards'] = {p: deck['imp_cards'][p] for p in order}
    return {'deck': deck, 'labels': sorted(labels), 'tier': tier}


@st.composite
def filled_case(draw, tier='quick'):
    """Level-0 slabs some of which are filled with a two-cell universe whose
    cells have their own (independent) importances: what decides is the
    importance of the level-0 cell."""
    n = draw(st.integers(2, 5))
    deck = md.new_deck()
    for q in range(n + 1):
        deck['surfaces'].append(md.surf(q + 1, 'px', [float(2 * q)]))
    deck['surfaces'].append(md.surf(50, 'cx', [0.5]))
    deck['surfaces'].append(md.surf(51, 'py', [0.0]))
    labels = {'filled-cells'}
    cards = []
    cid = 0
    for q in range(n):
        cid += draw(st.integers(1, 5))
        imp = float(draw(st.sampled_from([0, 1, 1, 2])))
        c = md.cell(cid, 0, None, md.AND(md.S(q + 1), md.S(-(q + 2))),
                    imp={'n': imp})
        if draw(st.booleans()):
            u = 10 + q
            c['fill'] = {'u': u, 'tr': None}
            ia = float(draw(st.sampled_from([0, 1])))
            ib = float(draw(st.sampled_from([0, 1])))
            cards.append(c)
            cid += 1
            inner = md.cell(cid, 0, None, md.S(-50), imp={'n': ia}, u=u)
            cards.append(inner)
            cid += 1
            cards.append(md.cell(cid, 0, None, md.S(50), imp={'n': ib}, u=u))
            labels.add('container:imp=%d,fillers=%d%d' % (imp != 0, ia != 0,
                                                         ib != 0))
            c['n_leaves'] = 2
            if draw(st.booleans()):
                # a second level: the inner filler is itself filled with a
                # universe of two cells; neither its importance nor theirs
                # decides anything about the level-0 cell
                u2 = 30 + q
                inner['fill'] = {'u': u2, 'tr': None}
                for sgn in (-1, 1):
                    cid += 1
                    cards.append(md.cell(
                        cid, 0, None, md.S(sgn * 51),
                        imp={'n': float(draw(st.sampled_from([0, 1])))},
                        u=u2))
                c['n_leaves'] = 3
                labels.add('two-levels:imp=%d,inner-container=%d'
                           % (imp != 0, ia != 0))
        else:
            cards.append(c)
    if draw(st.booleans()):
        order = draw(st.permutations(list(range(len(cards)))))
        cards = [cards[o] for o in order]
    deck['cells'] = cards
    if draw(st.booleans()):
        vals = [c['imp']['n'] for c in cards]
        for c in cards:
            c['imp'] = None
        toks, used = draw(shorthand(vals))
        deck['imp_cards'] = {'n': {'values': vals, 'tokens': toks}}
        labels.add('mode:data')
        if used:
            labels.add('shorthand')
    return {'deck': deck, 'labels': sorted(labels), 'tier': tier,
            'filled': True}


@st.composite
def with_layout(draw, base):
    """One deck in three is written with cards that start in columns 2-5
    and break over continuation lines (a card may start anywhere in the first
    five columns): the importances are the same."""
    case = draw(base)
    if draw(st.integers(0, 2)) == 0:
        case['layout_spec'] = {
            'indent': True, 'breaks': draw(st.booleans()),
            'amp': draw(st.booleans()), 'case': draw(st.booleans()),
            'bits': draw(st.lists(st.integers(0, 11), min_size=6,
                                  max_size=24))}
        case['labels'] = sorted(set(case['labels']) | {'layout:indented'})
    return case


def strategy(tier):
    return with_layout(st.one_of(imp_case(tier), imp_case(tier),
                                 imp_case(tier), filled_case(tier)))


def render_text(case):
    spec = case.get('layout_spec')
    if spec:
        from .. import layouts
        return mr.render(case['deck'], layout=layouts.VariedLayout(spec))
    return mr.render(case['deck'])


def budget(tier):
    if tier == 'quick':
        return {'max_examples': 2400, 'shards': 16, 'time_budget': 90}
    return {'max_examples': 120000, 'shards': 16, 'time_budget': 1200}


def render_case(case):
    return render_text(case)


def sample_repr(case, out):
    return {'deck': render_case(case), 'labels': out.labels}


NOTE_RE = re.compile(r'importance is equal to zero:\s*\[([^\]]*)\]')


def check(case):
    deck = case['deck']
    text = render_text(case)
    labels = list(case['labels'])
    # expected importances (independent expansion of the written tokens)
    cards = {}
    for p, card in (deck.get('imp_cards') or {}).items():
        cards[p] = expand(card['tokens'])
        if len(cards[p]) != len(deck['cells']) or \
                any(abs(a - b) > 1e-12 for a, b in zip(cards[p], card['values'])):
            from ..runner import HarnessError
            raise HarnessError('shorthand generator inconsistent: %r -> %r, '
                               'wanted %r' % (card['tokens'], cards[p],
                                              card['values']))
    zero, live = set(), set()
    containers = set()
    for rank, c in enumerate(deck['cells']):
        if c.get('u'):
            continue        # only level-0 cells are the subject of C12
        if c.get('imp'):
            imp = c['imp']
        else:
            imp = {p: cards[p][rank] for p in cards}
        (zero if all(v == 0 for v in imp.values()) else live).add(c['id'])
        if c.get('fill'):
            containers.add(c['id'])
    level0 = zero | live
    res = conv.convert(text)
    if not res.ok:
        if not live and res.exc_type == 'ValueError':
            from ..runner import skip
            return skip('degenerate:nothing-to-convert', labels)
        return violation('crash:%s' % res.crash_key(),
                         {'error': res.brief(), 'deck': text}, labels)
    t4 = t4read.parse(res.t4_text)
    issues = t4read.validate(t4)
    if issues:
        return violation('structural:%s' % issues[0][0],
                         {'issues': issues[:4], 'deck': text}, labels)
    got = set()
    for v in t4.nonvirtual():
        # a volume developed from a filled cell names its level-0 container in
        # the last pair of its comment
        got.add(v.prov[-1][1] if v.prov else v.id)
    parts = {}
    for v in t4.nonvirtual():
        if v.prov:
            parts[v.prov[-1][1]] = parts.get(v.prov[-1][1], 0) + 1
    if got != live:
        return violation('importance:volumes',
                         {'expected_converted': sorted(live),
                          'converted': sorted(got),
                          'wrongly_omitted': sorted(live - got),
                          'wrongly_converted': sorted(got - live),
                          'deck': text}, labels)
    for c in deck['cells']:
        # "converted" means all of it: one volume per cell at the leaves of
        # the universes that fill it (they all cross the container here)
        if c['id'] in live and c.get('n_leaves') and \
                parts.get(c['id'], 0) != c['n_leaves']:
            return violation('importance:partly-converted',
                             {'cell': c['id'], 'expected_parts': c['n_leaves'],
                              'parts': parts.get(c['id'], 0), 'deck': text},
                             labels)
    m = NOTE_RE.search(res.stdout)
    noted = set()
    if m:
        noted = set(int(x) for x in m.group(1).replace(',', ' ').split())
    if noted & level0 != zero:
        return violation('importance:note',
                         {'expected_note': sorted(zero), 'note': sorted(noted),
                          'deck': text}, labels)
    nontrivial = bool(zero) and bool(live) and \
        ('shorthand' in labels or 'particles:1' not in labels)
    return ok(labels, nontrivial, sig=case_sig(text),
              counts={'cells': len(deck['cells']), 'zero_cells': len(zero)})
