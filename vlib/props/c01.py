"""C01 - cell regions: every point stays in the volume of the cell that owns
it (Boolean structure: intersection, union, parentheses, complements)."""
import numpy as np
from hypothesis import strategies as st

from .. import conv, gen, mdeck as md, mrender as mr, semcheck, t4read
from ..runner import ok, violation, skip, case_sig

PID = 'C01'
LEVEL = 'exploration'
RULE = ('Generated level-0 decks (1-8 surfaces of all elementary kinds plus '
        'macrobodies, 1-6 cells, expressions of depth <= 4 (thorough: 5) with '
        'blank intersection, colon union, parentheses, #(...) and #n; '
        'partition-by-construction (80%) or free overlapping cells (20%); '
        'importances on cell cards or an IMP:N data card). A case is '
        'non-trivial when the deck has >= 1 union and >= 1 complement, >= 2 '
        'cells of non-zero importance, and the decided points hit >= 2 '
        'distinct converted cells and the zero-importance/void part. '
        'Distinct = distinct rendered deck text.')
ASSUMPTIONS = [
    'TRIPOLI-4 keyword semantics of DESIGN.md section 4.1 (harness evaluator)',
    'MCNP sense conventions of DESIGN.md section 4.2 (harness model)',
    'a point is judged only if |f| > 1e-6 * (sum of |terms|) for every '
    'surface function on both sides',
    'SQ surfaces whose function is positive at their centre are not generated '
    'here (ambiguous reference, DESIGN 4.3)',
]

SURF_KINDS = (['px', 'py', 'pz', 'p', 'so', 's', 'c/z', 'cx', 'cy'] * 3
              + ['p3', 'sx', 'c/x', 'c/y', 'cz', 'k/x', 'k/z', 'ky', 'kz',
                 'gq', 'sq', 'tz', 'tx', 'x', 'y', 'z', 'sy', 'sz', 'k/y',
                 'kx', 'ty'])
MACRO_KINDS = ['box', 'rpp', 'sph', 'rcc', 'rhp9', 'rhp15', 'rec10', 'rec12',
               'trc', 'ell-', 'ell+', 'wed', 'arb6', 'arb8', 'arb4', 'arb5']


@st.composite
def surfaces(draw, n_max=8):
    n = draw(st.integers(1, n_max))
    out = []
    sid = 0
    labels = []
    dense = draw(st.booleans())
    for _ in range(n):
        sid += draw(st.integers(1, 2 if dense else 12))
        if draw(st.integers(0, 11)) == 0:
            kind = draw(st.sampled_from(MACRO_KINDS))
            k, p, lab = draw(gen.macro_params(kind))
            labels.append('macro:' + kind)
        else:
            kind = draw(st.sampled_from(SURF_KINDS))
            k, p, lab = draw(gen.elementary_params(kind))
            if 'sq:positive-at-centre' in lab:
                p[6] = -abs(p[6])
                lab = [q for q in lab if q != 'sq:positive-at-centre']
        labels += lab
        out.append(md.surf(sid, k, p))
    return out, labels


@st.composite
def level0_case(draw, tier='quick'):
    depth = 3 if tier == 'quick' else 4
    surfs, labels = draw(surfaces())
    ids = [s['id'] for s in surfs]
    from .. import mgeom
    fc = {s['id']: mgeom.n_facets(s['kind'], s['params'])
          for s in surfs if s['kind'] in mgeom.MACRO_KINDS}
    n_cells = draw(st.sampled_from([1, 2, 2, 3, 3, 4, 4, 5, 6]))
    partition = draw(st.integers(0, 4)) > 0
    labels.append('mode:partition' if partition else 'mode:free')
    cell_ids = []
    cid = 0
    for _ in range(n_cells + 1):
        cid += draw(st.integers(1, 30))
        cell_ids.append(cid)
    if draw(st.booleans()):
        # let MCNP numbers and internally generated numbers interleave
        order = draw(st.permutations(list(range(len(cell_ids)))))
        cell_ids = [cell_ids[o] for o in order]
    # helper cells in a universe that nothing fills: they are never converted
    # but their regions can be used through #n, also inside #( ... )
    helpers = []
    n_help = draw(st.sampled_from([0, 0, 1, 2]))
    hid = max(cell_ids)
    for _ in range(n_help):
        hid += draw(st.integers(1, 9))
        helpers.append((hid, draw(gen.expression(ids, 2, fc))))
    help_ids = [h for h, _e in helpers]
    if helpers:
        labels.append('helper-cells')
    regions = [draw(gen.expression(ids, depth, fc, cell_ids=help_ids))
               for _ in range(n_cells)]
    cells = []
    for i in range(n_cells):
        reg = regions[i]
        if draw(st.integers(0, 6)) == 0:
            # inject a patently empty piece (s -s) as an extra union member
            s0 = draw(st.sampled_from(ids))
            s1 = s0
            if draw(st.booleans()):
                # ... empty only for who knows that two cards describe the
                # same surface: the second sense refers to a duplicate card
                src = [q for q in surfs if q['id'] == s0][0]
                s1 = max(q['id'] for q in surfs) + draw(st.integers(1, 3))
                surfs.append(md.surf(s1, src['kind'], list(src['params'])))
                if s1 != s0 and src['kind'] in mgeom.MACRO_KINDS:
                    fc[s1] = fc[s0]
                labels.append('empty-piece-through-duplicate-card')
            piece = [md.S(s0), md.S(-s1)]
            if draw(st.integers(0, 2)) == 0:
                piece.append(draw(gen.leaf(ids, fc)))
            if draw(st.booleans()):
                piece = piece[::-1]
            reg = md.OR(reg, md.AND(*piece))
            labels.append('patently-empty-piece')
        terms = [reg]
        if partition:
            todo = list(range(i))
            if i >= 2 and draw(st.integers(0, 3)) == 0:
                # exclude two earlier cells with one nested complement:
                # #( #(#a) : #(#b) )  =  not (cell a or cell b)
                a, b = todo[0], todo[1]
                terms.append(md.NOT(md.OR(md.NOT(md.CELLC(cell_ids[a])),
                                          md.NOT(md.CELLC(cell_ids[b])))))
                labels.append('nested-cell-complement')
                todo = todo[2:]
            for j in todo:
                how = draw(st.sampled_from(['cell', 'cell', 'paren', 'demorgan']))
                if how == 'cell':
                    terms.append(md.CELLC(cell_ids[j]))
                elif how == 'paren':
                    terms.append(md.NOT(regions[j]))
                else:
                    terms.append(gen.push_not(regions[j], True))
        else:
            # free mode: occasional forward / backward cell complements
            if n_cells > 1 and draw(st.integers(0, 2)) == 0:
                j = draw(st.integers(0, n_cells - 1))
                if j > i:      # forward reference keeps the graph acyclic
                    terms.append(md.CELLC(cell_ids[j]))
        expr = terms[0] if len(terms) == 1 else md.AND(*terms)
        cells.append(expr)
    if partition:
        rest = []
        for j in range(n_cells):
            how = draw(st.sampled_from(['cell', 'paren', 'demorgan']))
            if how == 'cell':
                rest.append(md.CELLC(cell_ids[j]))
            elif how == 'paren':
                rest.append(md.NOT(regions[j]))
            else:
                rest.append(gen.push_not(regions[j], True))
        cells.append(rest[0] if len(rest) == 1 else md.AND(*rest))
    # importances
    n_all = len(cells)
    imps = [draw(st.sampled_from([1, 1, 1, 1, 1, 0, 2])) for _ in range(n_all)]
    if partition:
        imps[-1] = draw(st.sampled_from([0, 0, 1]))
    if not any(imps):
        imps[0] = 1
    imp_mode = draw(st.sampled_from(['card', 'card', 'data']))
    labels.append('imp:' + imp_mode)
    deck = md.new_deck()
    if draw(st.integers(0, 2)) == 0:
        # the order of the surface cards is free
        surfs = [surfs[o] for o in
                 draw(st.permutations(list(range(len(surfs)))))]
        labels.append('surface-cards-shuffled')
    deck['surfaces'] = surfs
    for i, expr in enumerate(cells):
        matn = draw(st.sampled_from([0, 1, 1, 2]))
        rho = None if matn == 0 else draw(st.sampled_from(['-1.0', '-2.7',
                                                           '0.05']))
        imp = {'n': imps[i]} if imp_mode == 'card' else None
        deck['cells'].append(md.cell(cell_ids[i], matn, rho, expr, imp=imp))
        extra = draw(gen.ignorable_keywords())
        if extra:
            # TMP, VOL, NONU, ...: parameters that do not concern the geometry
            deck['cells'][-1]['extra_kw'] = extra
            labels.append('ignorable-cell-keywords')
    for hid_, hexpr in helpers:
        deck['cells'].append(md.cell(hid_, 0, None, hexpr,
                                     imp={'n': 1} if imp_mode == 'card'
                                     else None, u=77))
        imps.append(1)
    if imp_mode == 'data':
        deck['imp_cards'] = {'n': {'values': [float(v) for v in imps]}}
    deck['materials'] = [{'id': 1, 'entries': [('13027', '1.0')]},
                         {'id': 2, 'entries': [('1001', '2'), ('8016', '1')]}]
    extra_cards = draw(gen.unrelated_data_cards())
    if extra_cards:
        # MODE, SDEF, tallies, MT, KCODE, ...: cards the conversion ignores
        deck['extra_data'] = extra_cards
        labels.append('unrelated-data-cards')
    style = {}
    if draw(st.integers(0, 3)) == 0:
        style['redundant'] = True
    if draw(st.integers(0, 3)) == 0:
        style['colon'] = draw(st.sampled_from([':', ' :', ': ', '  :  ']))
    if draw(st.integers(0, 4)) == 0:
        style['compl_space'] = True
    if draw(st.integers(0, 4)) == 0:
        style['cellc_space'] = True
    seed = draw(st.integers(0, 2 ** 31 - 1))
    return {'deck': deck, 'style': style, 'pseed': seed,
            'labels': sorted(set(labels)), 'tier': tier}


def strategy(tier):
    from .c05 import with_options
    return with_options(level0_case(tier))


def budget(tier):
    if tier == 'quick':
        return {'max_examples': 1600, 'shards': 16, 'time_budget': 100}
    return {'max_examples': 48000, 'shards': 16, 'time_budget': 1500}


def render_case(case):
    return mr.render(case['deck'], expr_style=case.get('style'))


def sample_repr(case, out):
    return {'deck': render_case(case), 'labels': out.labels}


def deck_tags(deck, labels):
    tags = set()
    for lab in labels:
        if lab.startswith('macro:'):
            tags.add('macrobody')
        elif lab == 'one-sheet-cone':
            tags.add(lab)
    return sorted(tags)


def check(case):
    deck = case['deck']
    text = render_case(case)
    labels = list(case['labels'])
    stats = {'&': 0, '|': 0, '~': 0, '#': 0, 's': 0, 'f': 0}
    for c in deck['cells']:
        gen.expr_stats(c['expr'], stats)
    if stats['|']:
        labels.append('union')
    if stats['~']:
        labels.append('compl-expr')
    if stats['#']:
        labels.append('compl-cell')
    if stats['f']:
        labels.append('facet')
    tags = deck_tags(deck, labels)
    n_pts = 200 if case.get('tier', 'quick') == 'quick' else 1000
    locator = md.Locator(deck)
    box = semcheck.deck_box(deck)
    P = semcheck.make_points(locator, case['pseed'], n_pts, box)
    res = conv.convert(text, mr.argv_of(deck, case.get('argv_extra') or []))
    loc = locator.locate(P)
    exp_in = (loc.count == 1) & ~loc.dead & ~loc.undec
    if not res.ok:
        if not exp_in.any() and res.exc_type == 'ValueError' \
                and 'empty' in (res.exc_msg or ''):
            return skip('degenerate:nothing-to-convert', labels)
        return violation('crash:%s' % res.crash_key(),
                         {'error': res.brief(), 'frames': res.frames,
                          'deck': text}, labels)
    t4, issues = semcheck.parse_and_validate(res)
    if issues:
        return violation('structural:%s' % issues[0][0],
                         {'issues': issues[:5], 'deck': text}, labels)
    cmp_ = semcheck.Comparison(deck, t4, P, locator)
    counts = {'points': len(P), 'points_decided': int(cmp_.decided.sum()),
              'points_undecided': int((~cmp_.decided).sum())}
    mism = cmp_.basic_mismatches()
    if mism:
        return violation('semantic:%s:%s' % (mism[0]['kind'], ','.join(tags)),
                         {'mismatches': mism, 'deck': text}, labels,
                         counts=counts)
    # the volume carries the number of the MCNP cell
    dec = cmp_.decided & cmp_.expected_in() & (cmp_.nvol == 1)
    hit_cells = set()
    for i in np.nonzero(dec)[0]:
        vid = cmp_.volumes_at(i)[0]
        if vid != int(cmp_.loc.owner[i]):
            return violation('semantic:wrong-number:%s' % ','.join(tags),
                             {'mismatches': [cmp_.witness('wrong-number', i)],
                              'deck': text}, labels, counts=counts)
        hit_cells.add(vid)
    live = set(c['id'] for r, c in enumerate(deck['cells'])
               if not md.is_zero_importance(
                   md.cell_importance(deck, r, c)))
    stray = [v.id for v in t4.nonvirtual() if v.id not in live]
    if stray:
        return violation('semantic:stray-volume:%s' % ','.join(tags),
                         {'volumes': stray, 'deck': text}, labels,
                         counts=counts)
    hit_out = bool((cmp_.decided & cmp_.expected_out()).any())
    nontrivial = (stats['|'] >= 1 and (stats['~'] + stats['#']) >= 1
                  and len(live) >= 2 and len(hit_cells) >= 2 and hit_out)
    return ok(labels, nontrivial, sig=case_sig(text), counts=counts)
