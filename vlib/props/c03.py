"""C03 - macrobodies: interior, exterior and numbered facets."""
import numpy as np
from hypothesis import strategies as st

from .. import conv, gen, mdeck as md, mgeom, mrender as mr, semcheck, t4eval
from ..runner import ok, violation, case_sig

PID = 'C03'
LEVEL = 'exploration'
RULE = ('One generated macrobody card per case (BOX, RPP, SPH, RCC, RHP/HEX '
        'with 9 and 15 entries, REC with 10 and 12, TRC with r1<r2 and r1>r2, '
        'ELL in both parameterisations, WED, ARB with 4/5/6/8 vertices and '
        'shuffled facet descriptors), oriented by a generated rotation incl. '
        'axis permutations, flips and left-handed vector triples. Probe cells '
        '-b, +b and -b.k, +b.k for every facet k are converted and compared '
        'point-wise with the parametric solid / outward facet half-spaces of '
        'the harness model on uniform points and on points bisected onto '
        'every facet. One case in four places the body two universe levels '
        'down instead (cells -b / +b.k / +b -b.k fill a sphere of a universe '
        'that fills a sphere of the real world, each FILL with its own '
        'transformation) and is judged point-wise like C05. Non-trivial: body not axis-aligned or left-handed, and '
        'every probe has decided points inside and outside; distinct = '
        '(kind, parameter vector).')
ASSUMPTIONS = [
    'MCNP macrobody definitions and facet numbering (DESIGN 4.2)',
    'ELL with positive last entry: the semi-minor axis formula the '
    'repository documents as the observed MCNP behaviour is adopted '
    '(DESIGN 4.3 item 2)',
    'TRC facet 1 (bare conical facet) is judged only on the body side of '
    'the apex, where the one- and two-sheet readings agree',
    'decidability rule |f| > 1e-6 * sum|terms|',
]


@st.composite
def body_case(draw, tier='quick'):
    kind = draw(st.sampled_from(gen.MACROS))
    k, p, labels = draw(gen.macro_params(kind))
    sid = draw(st.sampled_from([1, 5, 30, 999]))
    return {'gen': kind, 'kind': k, 'params': p, 'sid': sid,
            'labels': sorted(labels), 'tier': tier,
            'pseed': draw(st.integers(0, 2 ** 31 - 1))}


@st.composite
def nested_body_case(draw, tier='quick'):
    """The same bodies two universe levels down: universe 2 = {-b, +b.k,
    +b -b.k} fills a sphere of universe 1, which fills a sphere of the real
    world, each FILL with a transformation of its own.  A body is the solid
    MCNP defines wherever the deck puts it."""
    from .. import gen_hier
    kind = draw(st.sampled_from(gen.MACROS))
    k, p, labels = draw(gen.macro_params(kind))
    b = gen_hier.Builder(draw, tier, {'lattice': False})
    b.labels.update(labels)
    b.labels.add('nested-two-levels')
    flat = md.new_deck()
    flat['surfaces'].append(md.surf(1, k, p))
    bx = semcheck.deck_box(flat, floor=3.0)
    r1 = 1.8 * bx + 2.5
    r2 = r1 + 2.0
    bid = b.add_surf(k, p)
    s1 = b.add_surf('so', [r1])
    s2 = b.add_surf('so', [r2])
    u2, u1 = b.new_uid(), b.new_uid()
    nf = mgeom.n_facets(k, p)
    cells = [md.cell(b.new_cid(), 1, '-1.0', md.S(-bid), imp={'n': 1}, u=u2)]
    facet = None
    if nf > 1 and draw(st.booleans()):
        facet = draw(st.integers(2 if k == 'trc' else 1, nf))
        cells.append(md.cell(b.new_cid(), 2, '-2.0', md.F(bid, facet),
                             imp={'n': 1}, u=u2))
        cells.append(md.cell(b.new_cid(), 1, '-3.0',
                             md.AND(md.S(bid), md.F(-bid, facet)),
                             imp={'n': 1}, u=u2))
        b.labels.add('nested-facet')
    else:
        cells.append(md.cell(b.new_cid(), 2, '-2.0', md.S(bid), imp={'n': 1},
                             u=u2))
    rots = ('generic', 'perm', 'flip', 'axis')
    cells.append(md.cell(b.new_cid(), 0, None, md.S(-s1), imp={'n': 1}, u=u1,
                         fill={'u': u2, 'tr': b.transform_ref(
                             4.0, allow_none=False, rot_classes=rots)}))
    cells.append(md.cell(b.new_cid(), 2, '-4.0', md.S(s1), imp={'n': 1},
                         u=u1))
    outer_tr = b.transform_ref(4.0, allow_none=False, rot_classes=rots)
    outer = md.cell(b.new_cid(), 0, None, md.S(-s2), imp={'n': 1},
                    fill={'u': u1, 'tr': outer_tr})
    if draw(st.booleans()):
        # the outer placement written as the TRCL of the container
        outer['fill'] = {'u': u1, 'tr': None}
        outer['trcl'] = outer_tr
        b.labels.add('nested-outer-trcl')
    cells.append(outer)
    cells.append(md.cell(b.new_cid(), 0, None, md.S(s2), imp={'n': 0}))
    if 'trcl' in outer:
        # (the world sphere is centred on the origin: it moves with the TRCL)
        pass
    b.deck['cells'] = cells
    return {'nested': True, 'gen': kind, 'kind': k, 'params': p,
            'deck': b.deck, 'labels': sorted(b.labels), 'tier': tier,
            'box': r2 + 1.5, 'pseed': draw(st.integers(0, 2 ** 31 - 1))}


def strategy(tier):
    return st.one_of(body_case(tier), body_case(tier), body_case(tier),
                     nested_body_case(tier))


def budget(tier):
    if tier == 'quick':
        return {'max_examples': 3840, 'shards': 16, 'time_budget': 100}
    return {'max_examples': 64000, 'shards': 16, 'time_budget': 1500}


def build_deck(case):
    d = md.new_deck()
    sid = case['sid']
    d['surfaces'].append(md.surf(sid, case['kind'], case['params']))
    d['cells'].append(md.cell(1, 0, None, md.S(-sid), imp={'n': 1}))
    d['cells'].append(md.cell(2, 0, None, md.S(sid), imp={'n': 1}))
    nf = mgeom.n_facets(case['kind'], case['params'])
    if nf > 1:
        for k in range(1, nf + 1):
            d['cells'].append(md.cell(10 + 2 * k, 0, None, md.F(-sid, k),
                                      imp={'n': 1}))
            d['cells'].append(md.cell(11 + 2 * k, 0, None, md.F(sid, k),
                                      imp={'n': 1}))
    return d


def render_case(case):
    if case.get('nested'):
        return mr.render(case['deck'])
    return mr.render(build_deck(case))


def sample_repr(case, out):
    if case.get('nested'):
        return {'deck': mr.render(case['deck']), 'labels': out.labels}
    return {'card': '%d %s %s' % (case['sid'], case['kind'],
                                  ' '.join(mr.fnum(v) for v in case['params'])),
            'labels': out.labels}


def trc_agree_mask(params, P):
    """Points on the body's side of the apex of a TRC."""
    v = np.array(params[0:3])
    h = np.array(params[3:6])
    r1, r2 = params[6], params[7]
    t = ((P - v) @ h) / (h @ h)
    tstar = r1 / (r1 - r2)
    return (t - tstar) * (0.5 - tstar) > 0


def check_nested(case):
    from . import c05
    cmp_, viol, counts = c05.run_semantic(case, 'body-nested')
    if viol is not None:
        return viol
    labels = ['kind:' + case['gen']] + list(case['labels'])
    dec = cmp_.decided & cmp_.expected_in()
    owners = set(int(cmp_.loc.owner[i]) for i in np.nonzero(dec)[0]
                 if cmp_.loc.chain[i])
    n_u2 = 3 if 'nested-facet' in case['labels'] else 2
    return ok(labels, len(owners) >= n_u2 + 1,
              sig=case_sig(mr.render(case['deck'])), counts=counts)


def check(case):
    if case.get('nested'):
        return check_nested(case)
    deck = build_deck(case)
    text = mr.render(deck)
    labels = ['kind:' + case['gen']] + list(case['labels'])
    sid = case['sid']
    kind, params = case['kind'], case['params']
    nf = mgeom.n_facets(kind, params)

    def key_fn(Q):
        ins, _ = mgeom.body_inside(kind, params, Q)
        key = ins.astype(np.int64)
        if nf > 1:
            for q, (neg, _d) in enumerate(mgeom.body_facets(kind, params, Q)):
                key |= neg.astype(np.int64) << (q + 1)
        return key

    box = semcheck.deck_box(deck)
    n_pts = 240 if case.get('tier') == 'quick' else 900
    P = semcheck.make_points(None, case['pseed'], n_pts, box, key_fn=key_fn)
    res = conv.convert(text)
    tag = 'kind=%s' % case['gen']
    if 'left-handed' in case['labels']:
        tag += ',left-handed'
    if not res.ok:
        return violation('crash:%s:%s' % (res.crash_key(), tag),
                         {'error': res.brief(), 'deck': text}, labels)
    t4, issues = semcheck.parse_and_validate(res)
    if issues:
        return violation('structural:%s' % issues[0][0],
                         {'issues': issues[:5], 'deck': text}, labels)
    ev = t4eval.Evaluator(t4, P)
    t4dec = ev.decided_all()
    ins, dec = mgeom.body_inside(kind, params, P)
    probes = [(1, ins, dec, 'inside'), (2, ~ins, dec, 'outside')]
    if nf > 1:
        facets = mgeom.body_facets(kind, params, P)
        for k in range(1, nf + 1):
            neg, fdec = facets[k - 1]
            if kind == 'trc' and k == 1:
                fdec = fdec & trc_agree_mask(params, P)
            probes.append((10 + 2 * k, neg, fdec, 'facet-%d-negative' % k))
            probes.append((11 + 2 * k, ~neg, fdec, 'facet-%d-positive' % k))
    counts = {'points': len(P), 'points_decided': int((t4dec & dec).sum()),
              'points_undecided': int((~(t4dec & dec)).sum()),
              'probes': len(probes)}
    all_hit = True
    for cid, model_in, mdec, what in probes:
        got = ev.in_volume(cid) if cid in t4.volus else \
            np.zeros(len(P), dtype=bool)
        ok_mask = t4dec & mdec
        bad = np.nonzero(ok_mask & (got != model_in))[0]
        if len(bad):
            wit = [{'probe': what, 'cell': cid,
                    'point': [float(v) for v in P[i]],
                    'model_in': bool(model_in[i]), 't4_in': bool(got[i])}
                   for i in bad[:4]]
            w0 = what.split('-')[0] if what.startswith('facet') else what
            return violation('body:%s:%s' % (w0, tag),
                             {'mismatches': wit, 'deck': text}, labels,
                             counts=counts)
        if not ((ok_mask & model_in).any() and (ok_mask & ~model_in).any()):
            all_hit = False
    special = ('left-handed' in case['labels']
               or any(l.startswith('rot:') and l not in ('rot:identity',)
                      for l in case['labels']))
    return ok(labels, all_hit and special,
              sig=case_sig([kind, params]), counts=counts)


def tilt_cases(tier='quick'):
    """Deterministic part: every axisymmetric macrobody kind with its axis
    tilted by a small, visible angle from each of the six coordinate
    directions (the converter has "almost aligned" branches for such axes;
    random orientations meet them rarely)."""
    angles = [1e-3, 3e-3, 1e-2, 3e-2] if tier == 'quick' else \
        [1e-4, 3e-4, 1e-3, 3e-3, 1e-2, 2e-2, 3e-2, 4.5e-2]
    v = np.array([0.3, -0.2, 0.1])
    n = 0
    for ax in range(3):
        for sgn in (1.0, -1.0):
            e = np.zeros(3)
            e[ax] = sgn
            others = [q for q in range(3) if q != ax]
            for ang in angles:
                for k_dir in range(3):
                    p_ = np.zeros(3)
                    if k_dir < 2:
                        p_[others[k_dir]] = 1.0
                    else:
                        p_[others[0]], p_[others[1]] = 0.6, -0.8
                    a = e + np.tan(ang) * p_
                    a = a / np.linalg.norm(a)
                    b1 = np.cross(a, p_ if k_dir == 2 else
                                  np.roll(e, 1) * sgn)
                    if np.linalg.norm(b1) < 0.1:
                        b1 = np.cross(a, np.roll(e, 2))
                    b1 = b1 / np.linalg.norm(b1)
                    bodies = [
                        ('rcc', 'rcc', list(v) + list(2.0 * a) + [0.7]),
                        ('trc', 'trc', list(v) + list(2.0 * a) + [0.9, 0.4]),
                        ('ell+', 'ell', list(v + a) + list(v - a) + [1.6]),
                        ('ell-', 'ell', list(v) + list(2.0 * a) + [-0.6]),
                        ('rec10', 'rec', list(v) + list(2.0 * a)
                         + list(1.0 * b1) + [0.5]),
                        ('rhp9', 'rhp', list(v) + list(2.0 * a)
                         + list(0.8 * b1)),
                    ]
                    for gen_kind, k, params in bodies:
                        n += 1
                        yield {'gen': gen_kind, 'kind': k,
                               'params': [float(t) for t in params],
                               'sid': 5, 'tier': tier,
                               'labels': ['rot:small', 'tilt-enumeration',
                                          'tilt:%g' % ang],
                               'pseed': 1000 + n}


def extra(tier, seed, stats):
    found = {}
    n = 0
    for case in tilt_cases(tier):
        out = check(case)
        n += 1
        stats.labels.update(['tilt-enumeration', 'kind:' + case['gen']])
        if out.kind == 'violation':
            found.setdefault(out.bucket + ':tilt-enumeration',
                             (case, out.detail))
        elif out.nontrivial:
            stats.counts['extra_nontrivial'] += 1
    stats.counts['extra_evaluations'] += n
    stats.counts['tilt_enumeration_cases'] = n
    return found
