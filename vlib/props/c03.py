"""C03 - macrobodies: interior, exterior and numbered facets."""
import numpy as np
from hypothesis import strategies as st

from .. import conv, gen, mdeck as md, mgeom, mrender as mr, semcheck, t4eval
from ..runner import ok, violation, case_sig

PID = 'C03'
LEVEL = 'exploration'
RULE = ('One generated macrobody card per case (BOX, RPP, SPH, RCC, RHP/HEX '
        'with 9 and 15 entries, REC with 10 and 12, TRC with r1<r2 and r1>r2, '
        'ELL in both parameterisations, WED, ARB with 4/5/6/8 vertices and '
        'shuffled facet descriptors), oriented by a generated rotation incl. '
        'axis permutations, flips and left-handed vector triples. Probe cells '
        '-b, +b and -b.k, +b.k for every facet k are converted and compared '
        'point-wise with the parametric solid / outward facet half-spaces of '
        'the harness model on uniform points and on points bisected onto '
        'every facet. Non-trivial: body not axis-aligned or left-handed, and '
        'every probe has decided points inside and outside; distinct = '
        '(kind, parameter vector).')
ASSUMPTIONS = [
    'MCNP macrobody definitions and facet numbering (DESIGN 4.2)',
    'ELL with positive last entry: the semi-minor axis formula the '
    'repository documents as the observed MCNP behaviour is adopted '
    '(DESIGN 4.3 item 2)',
    'TRC facet 1 (bare conical facet) is judged only on the body side of '
    'the apex, where the one- and two-sheet readings agree',
    'decidability rule |f| > 1e-6 * sum|terms|',
]


@st.composite
def body_case(draw, tier='quick'):
    kind = draw(st.sampled_from(gen.MACROS))
    k, p, labels = draw(gen.macro_params(kind))
    sid = draw(st.sampled_from([1, 5, 30, 999]))
    return {'gen': kind, 'kind': k, 'params': p, 'sid': sid,
            'labels': sorted(labels), 'tier': tier,
            'pseed': draw(st.integers(0, 2 ** 31 - 1))}


def strategy(tier):
    return body_case(tier)


def budget(tier):
    if tier == 'quick':
        return {'max_examples': 1280, 'shards': 16, 'time_budget': 100}
    return {'max_examples': 64000, 'shards': 16, 'time_budget': 1500}


def build_deck(case):
    d = md.new_deck()
    sid = case['sid']
    d['surfaces'].append(md.surf(sid, case['kind'], case['params']))
    d['cells'].append(md.cell(1, 0, None, md.S(-sid), imp={'n': 1}))
    d['cells'].append(md.cell(2, 0, None, md.S(sid), imp={'n': 1}))
    nf = mgeom.n_facets(case['kind'], case['params'])
    if nf > 1:
        for k in range(1, nf + 1):
            d['cells'].append(md.cell(10 + 2 * k, 0, None, md.F(-sid, k),
                                      imp={'n': 1}))
            d['cells'].append(md.cell(11 + 2 * k, 0, None, md.F(sid, k),
                                      imp={'n': 1}))
    return d


def render_case(case):
    return mr.render(build_deck(case))


def sample_repr(case, out):
    return {'card': '%d %s %s' % (case['sid'], case['kind'],
                                  ' '.join(mr.fnum(v) for v in case['params'])),
            'labels': out.labels}


def trc_agree_mask(params, P):
    """Points on the body's side of the apex of a TRC."""
    v = np.array(params[0:3])
    h = np.array(params[3:6])
    r1, r2 = params[6], params[7]
    t = ((P - v) @ h) / (h @ h)
    tstar = r1 / (r1 - r2)
    return (t - tstar) * (0.5 - tstar) > 0


def check(case):
    deck = build_deck(case)
    text = mr.render(deck)
    labels = ['kind:' + case['gen']] + list(case['labels'])
    sid = case['sid']
    kind, params = case['kind'], case['params']
    nf = mgeom.n_facets(kind, params)

    def key_fn(Q):
        ins, _ = mgeom.body_inside(kind, params, Q)
        key = ins.astype(np.int64)
        if nf > 1:
            for q, (neg, _d) in enumerate(mgeom.body_facets(kind, params, Q)):
                key |= neg.astype(np.int64) << (q + 1)
        return key

    box = semcheck.deck_box(deck)
    n_pts = 240 if case.get('tier') == 'quick' else 900
    P = semcheck.make_points(None, case['pseed'], n_pts, box, key_fn=key_fn)
    res = conv.convert(text)
    tag = 'kind=%s' % case['gen']
    if 'left-handed' in case['labels']:
        tag += ',left-handed'
    if not res.ok:
        return violation('crash:%s:%s' % (res.crash_key(), tag),
                         {'error': res.brief(), 'deck': text}, labels)
    t4, issues = semcheck.parse_and_validate(res)
    if issues:
        return violation('structural:%s' % issues[0][0],
                         {'issues': issues[:5], 'deck': text}, labels)
    ev = t4eval.Evaluator(t4, P)
    t4dec = ev.decided_all()
    ins, dec = mgeom.body_inside(kind, params, P)
    probes = [(1, ins, dec, 'inside'), (2, ~ins, dec, 'outside')]
    if nf > 1:
        facets = mgeom.body_facets(kind, params, P)
        for k in range(1, nf + 1):
            neg, fdec = facets[k - 1]
            if kind == 'trc' and k == 1:
                fdec = fdec & trc_agree_mask(params, P)
            probes.append((10 + 2 * k, neg, fdec, 'facet-%d-negative' % k))
            probes.append((11 + 2 * k, ~neg, fdec, 'facet-%d-positive' % k))
    counts = {'points': len(P), 'points_decided': int((t4dec & dec).sum()),
              'points_undecided': int((~(t4dec & dec)).sum()),
              'probes': len(probes)}
    all_hit = True
    for cid, model_in, mdec, what in probes:
        got = ev.in_volume(cid) if cid in t4.volus else \
            np.zeros(len(P), dtype=bool)
        ok_mask = t4dec & mdec
        bad = np.nonzero(ok_mask & (got != model_in))[0]
        if len(bad):
            wit = [{'probe': what, 'cell': cid,
                    'point': [float(v) for v in P[i]],
                    'model_in': bool(model_in[i]), 't4_in': bool(got[i])}
                   for i in bad[:4]]
            w0 = what.split('-')[0] if what.startswith('facet') else what
            return violation('body:%s:%s' % (w0, tag),
                             {'mismatches': wit, 'deck': text}, labels,
                             counts=counts)
        if not ((ok_mask & model_in).any() and (ok_mask & ~model_in).any()):
            all_hit = False
    special = ('left-handed' in case['labels']
               or any(l.startswith('rot:') and l not in ('rot:identity',)
                      for l in case['labels']))
    return ok(labels, all_hit and special,
              sig=case_sig([kind, params]), counts=counts)
