"""C17 - unsupported or malformed input stops the run instead of yielding
geometry (fault enumeration)."""
import copy
import re

from hypothesis import strategies as st

from .. import conv, gen, gen_hier, mdeck as md, mgeom, mrender as mr
from ..runner import ok, violation, skip, case_sig

PID = 'C17'
LEVEL = 'fault_enumeration'
RULE = ('Valid decks from the generators (each first converted to prove it is '
        'accepted), then one fault of the statement\'s list injected at a '
        'drawn applicable site: m=-1 on a TR card used by a surface / a TRCL '
        '/ a FILL, or in an inline (*)TRCL / (*)FILL (also on fixed decks, '
        'plain and starred, each with its m=1 control); LAT without --lattice, '
        'with too few ranges or a non-trivial supernumerary range; a surface '
        'or macrobody card with a number of entries that the mnemonic does '
        'not admit (one missing / one extra), for every mnemonic '
        '(exhaustively in the deterministic part); an unknown mnemonic; a '
        'facet index = facets + 1; a FILL array one short / one long; IMP '
        'cards of different lengths; one sign flipped in a material card; '
        'each malformed --lattice form. Oracle: the run must not finish '
        'normally, and the error must name the problem: a non-empty message '
        'from an exception that is not an incidental IndexError / KeyError / '
        'TypeError / AttributeError / UnboundLocalError / ZeroDivisionError / '
        'AssertionError escaping from deep code. Every case is non-trivial by '
        'construction (the baseline converts, the fault is injected); '
        'distinct = (fault class, site / mnemonic, deck).')
ASSUMPTIONS = [
    'the fault classes are exactly those listed in the property',
    'admissible entry counts per mnemonic are those of the MCNP manual '
    '(P 4|9, K/X 4|5, KX 2|3, X/Y/Z 2|4 (6 = three pairs, unsupported), '
    'RHP/HEX 9|15, REC 10|12, ...)',
    'an error "names the problem" when it is raised deliberately: its type is '
    'not one of the incidental built-in types listed in the rule',
]

INCIDENTAL = ('IndexError', 'KeyError', 'TypeError', 'AttributeError',
              'UnboundLocalError', 'ZeroDivisionError', 'AssertionError',
              'RecursionError', 'NameError', 'StopIteration')

VALID_COUNTS = {
    'p': (4, 9), 'px': (1,), 'py': (1,), 'pz': (1,), 'so': (1,), 's': (4,),
    'sx': (2,), 'sy': (2,), 'sz': (2,), 'c/x': (3,), 'c/y': (3,), 'c/z': (3,),
    'cx': (1,), 'cy': (1,), 'cz': (1,), 'k/x': (4, 5), 'k/y': (4, 5),
    'k/z': (4, 5), 'kx': (2, 3), 'ky': (2, 3), 'kz': (2, 3), 'sq': (10,),
    'gq': (10,), 'tx': (6,), 'ty': (6,), 'tz': (6,), 'x': (2, 4, 6),
    'y': (2, 4, 6), 'z': (2, 4, 6),
    'box': (12,), 'rpp': (6,), 'sph': (4,), 'rcc': (7,), 'rhp': (9, 15),
    'hex': (9, 15), 'rec': (10, 12), 'trc': (8,), 'ell': (7,), 'wed': (12,),
    'arb': (30,),
}

BAD_LATTICE_ARGS = ['malformed', 'three,-1:5', '{c},', '{c},0:4,0:4,0:4,0:4',
                    '{c},0:6.022e23', '{c},-6.022e23:0', '{c},1:2:3',
                    '{c},a:b', '{c},0-4',
                    # lower bound above the upper bound
                    '{c},1:-1,1:-1', '{c},1:0', '{c},2:-2,0:0,0:0',
                    '{c},0:1,3:2']


@st.composite
def base_deck(draw, tier='quick'):
    which = draw(st.sampled_from(['lattice', 'lattice', 'hier', 'hex']))
    if which == 'lattice':
        case = draw(gen_hier.hier_case(tier, {'lattice': 'force',
                                              'max_depth': 2,
                                              'homogeneous': draw(st.booleans())}))
    elif which == 'hier':
        case = draw(gen_hier.hier_case(tier, {'lattice': True}))
    else:
        case = draw(gen_hier.hex_case(tier))
    deck = case['deck']
    b_sid = max(s['id'] for s in deck['surfaces'])
    b_cid = max(c['id'] for c in deck['cells'])
    trid = max([t['id'] for t in deck['transforms']] + [0]) + 1
    # a TR card used by a surface, one used by a TRCL, a macrobody with a
    # facet reference, IMP data cards for two particle types
    spec, _l = draw(gen.tr_spec(allow_abbrev=False, allow_13=False,
                                translation_only_weight=0))
    deck['transforms'].append({'id': trid, 'spec': spec})
    deck['surfaces'].append(md.surf(b_sid + 1, 'so', [0.3], tr=trid))
    mk = draw(st.sampled_from(['box', 'rcc', 'rpp', 'wed', 'rhp9', 'trc']))
    k, p, _lab = draw(gen.macro_params(mk))
    p = gen_hier._shrink_body(k, p, 1.0)
    deck['surfaces'].append(md.surf(b_sid + 2, k, p))
    nf = mgeom.n_facets(k, p)
    spec2, _l = draw(gen.tr_spec(allow_abbrev=False, allow_13=False,
                                 translation_only_weight=0))
    deck['transforms'].append({'id': trid + 1, 'spec': spec2})
    graveyard = [c for c in deck['cells'] if c.get('imp') == {'n': 0}][0]
    world = graveyard['expr'][1]
    # two probe cells far outside the world (overlaps do not matter here)
    deck['cells'].insert(0, md.cell(
        b_cid + 1, 1, '-1.0', md.AND(md.S(-(b_sid + 1)),
                                     md.F(-(b_sid + 2), draw(st.integers(1, nf)))),
        imp={'n': 1}, trcl={'num': trid + 1}))
    deck['cells'].insert(1, md.cell(b_cid + 2, 0, None, md.S(-(b_sid + 2)),
                                    imp={'n': 1}))
    deck['cells'].insert(2, md.cell(
        b_cid + 3, 0, None, md.F(draw(st.sampled_from([1, -1])) * (b_sid + 2),
                                 draw(st.integers(1, nf))), imp={'n': 1}))
    del world
    if draw(st.booleans()) and all(c.get('like') is None
                                   for c in deck['cells']):
        vals = [float((c.get('imp') or {'n': 1}).get('n', 1))
                for c in deck['cells']]
        for c in deck['cells']:
            c['imp'] = None
        deck['imp_cards'] = {'n': {'values': vals},
                             'p': {'values': [v for v in vals]}}
    return {'deck': deck, 'labels': case['labels'], 'tier': tier}


def fault_sites(deck):
    """All (fault class, site) pairs applicable to the deck."""
    sites = []
    used_tr = {}
    for s in deck['surfaces']:
        if s.get('tr') is not None:
            used_tr.setdefault(s['tr'], set()).add('surface')
    for ci, c in enumerate(deck['cells']):
        ref = c.get('trcl')
        if ref:
            if 'num' in ref:
                used_tr.setdefault(ref['num'], set()).add('trcl')
            elif ref['inline']['full'] is not None:
                sites.append(('m=-1:inline-trcl', ci))
        f = c.get('fill')
        if f and f.get('tr'):
            if 'num' in f['tr']:
                used_tr.setdefault(f['tr']['num'], set()).add('fill')
            elif f['tr']['inline']['full'] is not None:
                sites.append(('m=-1:inline-fill', ci))
        if c.get('lat'):
            if f.get('univs') is None:
                sites.append(('lattice:no-option', ci))
                sites.append(('lattice:too-few-ranges', ci))
                sites.append(('lattice:extra-nontrivial-range', ci))
                sites.append(('lattice:extra-range-with-degenerate-axes', ci))
                for k in range(len(BAD_LATTICE_ARGS)):
                    sites.append(('lattice:malformed-option', (ci, k)))
            else:
                sites.append(('fill-array:one-short', ci))
                sites.append(('fill-array:one-long', ci))
                # the entry too many in other words: through shorthand, with
                # a sign
                sites.append(('fill-array:long-by-repeat', ci))
                sites.append(('fill-array:long-by-multiply', ci))
                sites.append(('fill-array:long-by-interpolate', ci))
                sites.append(('fill-array:long-signed-entry', ci))
                # (a bare R or I stands for 1R, 1I)
                sites.append(('fill-array:long-by-bare-repeat', ci))
                # a repeat that starts inside the array and runs past its end
                sites.append(('fill-array:long-by-overshooting-repeat', ci))
                sites.append(('fill-array:long-by-bare-interpolate', ci))
    for ti, t in enumerate(deck['transforms']):
        if t['id'] in used_tr and t['spec']['full'] is not None:
            for how in sorted(used_tr[t['id']]):
                sites.append(('m=-1:tr-card-used-by-%s' % how, ti))
    for si, s in enumerate(deck['surfaces']):
        sites.append(('surface-params:missing', si))
        sites.append(('surface-params:extra', si))
        sites.append(('surface:unknown-mnemonic', si))
    live_u = reachable_universes(deck)
    for ci, c in enumerate(deck['cells']):
        # only cells the converter has to convert (a cell of a universe that
        # nothing fills is dead input and is never looked at)
        if c.get('like') is None and _facet_leaf(c['expr']) is not None \
                and (c.get('u') or 0) in live_u:
            sites.append(('facet:index-too-large', ci))
    if deck.get('imp_cards') and len(deck['imp_cards']) >= 2:
        sites.append(('imp-cards:unequal-length', 0))
        sites.append(('imp-cards:unequal-length', 1))
        # one entry too many, written with as many words as the other cards
        sites.append(('imp-cards:unequal-length', 2))
    for mi, m in enumerate(deck['materials']):
        pairs = [e for e in m['entries'] if isinstance(e, (list, tuple))]
        if len(pairs) >= 2:
            sites.append(('material:mixed-signs', mi))
    return sites


def reachable_universes(deck):
    """Universe 0 and every universe reached from it through FILL (incl.
    FILL arrays), following only containers of non-zero importance."""
    by_u = {}
    for rank, c in enumerate(deck['cells']):
        by_u.setdefault(c.get('u') or 0, []).append((rank, c))
    seen = set()
    todo = [0]
    while todo:
        u = todo.pop()
        if u in seen:
            continue
        seen.add(u)
        for rank, c in by_u.get(u, []):
            f = c.get('fill')
            if not f:
                continue
            if u == 0 and md.is_zero_importance(
                    md.cell_importance(deck, rank, c)):
                continue
            subs = [f['u']] if f.get('univs') is None else list(f['univs'])
            for s_ in subs:
                if s_ and s_ not in seen:
                    todo.append(s_)
    return seen


def _facet_leaf(expr):
    if expr[0] == 'f':
        return expr
    if expr[0] in ('s', '#'):
        return None
    for k in expr[1:]:
        got = _facet_leaf(k)
        if got is not None:
            return got
    return None


def _replace_facet(expr, new_k):
    if expr[0] == 'f':
        return md.F(expr[1], new_k)
    if expr[0] in ('s', '#'):
        return expr
    return [expr[0]] + [_replace_facet(k, new_k) for k in expr[1:]]


def wrong_count(kind, n, direction):
    valid = VALID_COUNTS[kind.lower()]
    cand = n + (1 if direction == 'extra' else -1)
    while cand in valid:
        cand += (1 if direction == 'extra' else -1)
    return cand if cand >= 0 else None


def inject(deck, fclass, site):
    """Return (deck, argv, what) with the fault applied, or None."""
    deck = copy.deepcopy(deck)
    argv = mr.argv_of(deck)
    surfs = {s['id']: s for s in deck['surfaces']}
    if fclass.startswith('m=-1:tr-card'):
        sp = deck['transforms'][site]['spec']
        sp['n'], sp['m'] = 13, -1
        return deck, argv, 'tr%d with m=-1' % deck['transforms'][site]['id']
    if fclass in ('m=-1:inline-trcl', 'm=-1:inline-fill'):
        c = deck['cells'][site]
        sp = c['trcl']['inline'] if fclass.endswith('trcl') \
            else c['fill']['tr']['inline']
        sp['n'], sp['m'] = 13, -1
        return deck, argv, 'cell %d inline transformation with m=-1' % c['id']
    if fclass.startswith('lattice:'):
        bad_k = None
        if fclass == 'lattice:malformed-option':
            site, bad_k = site
        c = deck['cells'][site]
        cid = c['id']
        opts = [o for o in deck['lattice_opts']
                if not o.startswith('%d,' % cid)]
        mine = [o for o in deck['lattice_opts'] if o.startswith('%d,' % cid)]
        ranges = mine[0].split(',')[1:] if mine else []
        ndim = len(md.Locator(deck)._leaves(c['expr'], True)) // 2 \
            if c['lat'] == 1 else (3 if c['hex'].get('a3') else 2)
        if fclass == 'lattice:no-option':
            new = []
        elif fclass == 'lattice:too-few-ranges':
            if ndim < 2:
                return None
            new = ['%d,%s' % (cid, ','.join(ranges[:ndim - 1]))]
        elif fclass == 'lattice:extra-nontrivial-range':
            if ndim > 2:
                return None
            new = ['%d,%s' % (cid, ','.join(ranges[:ndim] + ['0:2']))]
        elif fclass == 'lattice:extra-range-with-degenerate-axes':
            # the real axes get degenerate ranges, the non-trivial range sits
            # on an axis the lattice does not have
            if ndim > 2:
                return None
            new = ['%d,%s' % (cid, ','.join(['1:1'] * ndim + ['-1:1']))]
        else:
            new = [BAD_LATTICE_ARGS[bad_k].format(c=cid)]
        deck['lattice_opts'] = opts + new
        return deck, mr.argv_of(deck), 'lattice option %r for cell %d' % (
            new, cid)
    if fclass.startswith('fill-array:'):
        c = deck['cells'][site]
        toks = [str(u) for u in c['fill']['univs']]
        if fclass.endswith('short'):
            toks = toks[:-1]
        elif fclass.endswith('by-bare-repeat'):
            toks = toks + ['r']
        elif fclass.endswith('by-overshooting-repeat'):
            toks = [toks[0], '%dr' % len(toks)]
        elif fclass.endswith('by-bare-interpolate'):
            toks = toks + ['i', str(int(toks[-1]) + 2)]
        elif fclass.endswith('by-repeat'):
            toks = toks + ['1r']
        elif fclass.endswith('by-multiply'):
            toks = toks + ['1m']
        elif fclass.endswith('by-interpolate'):
            toks = toks + ['1i', str(int(toks[-1]) + 2)]
        elif fclass.endswith('signed-entry'):
            toks = toks + ['+' + toks[-1]]
        else:
            toks = toks + [toks[-1]]
        c['fill']['univs_spelled'] = toks
        return deck, argv, 'FILL array of cell %d with %d entries' % (
            c['id'], len(toks))
    if fclass.startswith('surface-params:'):
        s = deck['surfaces'][site]
        direction = fclass.split(':')[1]
        n = wrong_count(s['kind'], len(s['params']), direction)
        if n is None or n == 0:
            return None
        if n > len(s['params']):
            s['params'] = s['params'] + [1.0] * (n - len(s['params']))
        else:
            s['params'] = s['params'][:n]
        return deck, argv, '%s card %d with %d entries' % (s['kind'], s['id'],
                                                           n)
    if fclass == 'surface:unknown-mnemonic':
        s = deck['surfaces'][site]
        s['kind'] = ['qx', 'pw', 'cc', 'boxx', 'sphere', 'k/w'][site % 6]
        return deck, argv, 'unknown mnemonic %s on card %d' % (s['kind'],
                                                              s['id'])
    if fclass == 'facet:index-too-large':
        c = deck['cells'][site]
        leaf = _facet_leaf(c['expr'])
        s = surfs[abs(leaf[1])]
        nf = mgeom.n_facets(s['kind'], s['params'])
        if nf >= 9:
            return None
        c['expr'] = _replace_facet(c['expr'], nf + 1)
        return deck, argv, 'facet %d.%d (body has %d facets)' % (
            abs(leaf[1]), nf + 1, nf)
    if fclass == 'imp-cards:unequal-length':
        parts = sorted(deck['imp_cards'])
        card = deck['imp_cards'][parts[0]]
        vals = [mr.fnum(v) for v in card['values']]
        if site == 2:
            card['tokens'] = vals[:-1] + ['2r']
        else:
            card['tokens'] = vals[:-1] if site == 0 else vals + ['1']
        return deck, argv, 'imp:%s card with %d entries, others %d' % (
            parts[0], len(card['tokens']), len(vals))
    if fclass == 'material:mixed-signs':
        m = deck['materials'][site]
        idx = [i for i, e in enumerate(m['entries'])
               if isinstance(e, (list, tuple))]
        i = idx[-1]
        z, f = m['entries'][i]
        f = f[1:] if f.startswith('-') else '-' + f
        m['entries'][i] = (z, f)
        # the material must be used by a converted cell
        if not any(c['mat'] == m['id'] and not c.get('u') and not c.get('fill')
                   for c in deck['cells']):
            for c in deck['cells']:
                if not c.get('u') and not c.get('fill') and c.get('imp') != {'n': 0} \
                        and c.get('like') is None:
                    c['mat'], c['rho'] = m['id'], '-1.0'
                    break
        return deck, argv, 'material m%d with mixed signs' % m['id']
    raise ValueError(fclass)


@st.composite
def fault_case(draw, tier='quick'):
    base = draw(base_deck(tier))
    sites = fault_sites(base['deck'])
    classes = sorted(set(f for f, _s in sites))
    fclass = draw(st.sampled_from(classes))
    cand = [s for f, s in sites if f == fclass]
    site = draw(st.sampled_from(cand))
    return {'deck': base['deck'], 'fault': fclass, 'site': site,
            'labels': base['labels'], 'tier': tier}


def strategy(tier):
    return fault_case(tier)


def budget(tier):
    if tier == 'quick':
        return {'max_examples': 1120, 'shards': 16, 'time_budget': 100}
    return {'max_examples': 56000, 'shards': 16, 'time_budget': 1500}


def render_case(case):
    got = inject(case['deck'], case['fault'], case['site'])
    if got is None:
        return mr.render(case['deck'])
    deck, argv, what = got
    return mr.render(deck) + '\nc options: %s\nc fault: %s' % (' '.join(argv),
                                                              what)


def sample_repr(case, out):
    got = inject(case['deck'], case['fault'], case['site'])
    return {'fault': case['fault'], 'what': got[2] if got else None,
            'labels': out.labels}


STOCK_MESSAGES = re.compile(
    r"index out of range|^'?[-\w./ ]*'?$|positional argument|object is not|"
    r"unsupported operand|not subscriptable|has no attribute|referenced "
    r"before assignment|division by zero|can only concatenate|must be str|"
    r"values to unpack|object cannot be interpreted|not supported between|"
    r"^\(?\d+(, ?\d+)*\)?$")


def is_unnamed(res):
    """An error does not name the problem when it has no message, or when
    it is one of the built-in exception types that escape from code that was
    not expecting the situation, carrying Python's stock message."""
    msg = (res.exc_msg or '').strip()
    if not msg:
        return True
    if res.exc_type in INCIDENTAL and STOCK_MESSAGES.search(msg):
        return True
    return False


def judge_fault(text, argv, fclass, what, labels, group=None):
    res = conv.convert(text, argv)
    group = group or fclass
    if res.ok:
        return violation('fault-accepted:%s' % group,
                         {'fault': what, 'deck': text, 'argv': argv}, labels)
    if is_unnamed(res):
        return violation('unnamed-error:%s:%s' % (group, res.exc_type),
                         {'fault': what, 'error': res.brief(),
                          'frames': res.frames, 'deck': text, 'argv': argv},
                         labels)
    return None


def check(case):
    labels = ['fault:' + case['fault']]
    if case.get('direct'):
        out = judge_fault(mr.render(case['deck']), case.get('argv') or [],
                          case['fault'], case['fault'], labels, case['fault'])
        return out if out is not None else ok(labels, True)
    base_text = mr.render(case['deck'])
    base = conv.convert(base_text, mr.argv_of(case['deck']))
    if not base.ok:
        return skip('base-not-converted:%s' % base.exc_type, labels)
    got = inject(case['deck'], case['fault'], case['site'])
    if got is None:
        return skip('fault-not-applicable', labels)
    deck, argv, what = got
    text = mr.render(deck)
    group = case['fault']
    if case['fault'].startswith('surface-params'):
        s = case['deck']['surfaces'][case['site']]
        macro = s['kind'].lower() in mgeom.MACRO_KINDS
        group = case['fault'] + (':macrobody' if macro else ':surface')
        labels.append('kind:' + s['kind'].lower())
    viol = judge_fault(text, argv, case['fault'], what, labels, group)
    if viol is not None:
        return viol
    return ok(labels, True, sig=case_sig([case['fault'], what, text]))


# -- deterministic part: every mnemonic x {missing, extra} ------------------

def _grab(strat, seed_, n):
    from hypothesis import given, settings, seed as hseed, HealthCheck
    box = []

    @hseed(seed_)
    @settings(max_examples=n, database=None, deadline=None,
              suppress_health_check=list(HealthCheck))
    @given(strat)
    def grab(x):
        box.append(x)
    grab()
    return box


def extra(tier, seed, stats):
    from hypothesis import strategies as hst, given, settings, seed as hseed, \
        HealthCheck
    found = {}
    kinds = []
    for kind in gen.ELEMENTARY:
        kinds.append(('elem', kind))
    for kind in gen.MACROS:
        kinds.append(('macro', kind))
    samples = {}

    for fam, kind in kinds:
        strat = gen.elementary_params(kind) if fam == 'elem' \
            else gen.macro_params(kind)
        samples[(fam, kind)] = _grab(strat, seed * 1000 + len(samples),
                                     3 if tier == 'quick' else 12)
    n = 0
    for (fam, kind), cards in samples.items():
        for k, p, _lab in cards:
            for direction in ('missing', 'extra'):
                cnt = wrong_count(k, len(p), direction)
                if cnt is None or cnt == 0:
                    continue
                params = (p + [1.0] * 30)[:cnt] if cnt > len(p) else p[:cnt]
                d = md.new_deck()
                d['surfaces'].append(md.surf(1, k, params))
                d['cells'].append(md.cell(1, 0, None, md.S(-1), imp={'n': 1}))
                d['cells'].append(md.cell(2, 0, None, md.S(1), imp={'n': 1}))
                text = mr.render(d)
                what = '%s card with %d entries' % (k, cnt)
                group = 'surface-params:%s:%s' % (
                    direction, 'macrobody' if fam == 'macro' else 'surface')
                out = judge_fault(text, [], group, what,
                                  ['mnemonic:' + k], group)
                n += 1
                stats.counts['extra_nontrivial'] += 1
                if out is not None:
                    found.setdefault(out.bucket,
                                     ({'deck': d, 'fault': group, 'site': 0,
                                       'direct': True}, out.detail))
    stats.counts['mnemonic_count_faults'] = n
    # every lattice-option fault on fixed 1-, 2- and 3-dimensional lattices
    m = 0
    for ndim in (1, 2, 3):
        d = lattice_deck(ndim)
        good = ['0:1', '-1:0', '0:0'][:ndim]
        base = conv.convert(mr.render(d), ['--lattice',
                                           '5,' + ','.join(good)])
        if not base.ok:
            from ..runner import HarnessError
            raise HarnessError('fixed lattice deck does not convert: %s'
                               % base.brief())
        variants = [('lattice:no-option', [])]
        if ndim > 1:
            variants.append(('lattice:too-few-ranges',
                             ['--lattice', '5,' + ','.join(good[:-1])]))
        if ndim < 3:
            variants.append(('lattice:extra-nontrivial-range',
                             ['--lattice', '5,' + ','.join(good + ['0:2'])]))
            variants.append(('lattice:extra-range-with-degenerate-axes',
                             ['--lattice', '5,' + ','.join(['0:0'] * ndim
                                                           + ['-1:1'])]))
            if ndim == 1:
                variants.append(('lattice:extra-range-with-degenerate-axes',
                                 ['--lattice', '5,2:2,0:0,0:1']))
        for k, bad in enumerate(BAD_LATTICE_ARGS):
            variants.append(('lattice:malformed-option',
                             ['--lattice', bad.format(c=5)]))
        for group, argv in variants:
            out = judge_fault(mr.render(d), argv, group,
                              '%d-D lattice with %r' % (ndim, argv),
                              ['lattice-fixed:%dd' % ndim], group)
            m += 1
            stats.counts['extra_nontrivial'] += 1
            if out is not None:
                found.setdefault(out.bucket,
                                 ({'deck': d, 'fault': group, 'site': 0,
                                   'direct': True, 'argv': argv}, out.detail))
    stats.counts['lattice_option_faults'] = m
    # m=-1 in every place a 13-entry transformation can be written
    q = 0
    for where in M1_PLACES:
        for star in (False, True):
            good = m_minus_one_deck(where, star, 1)
            base = conv.convert(mr.render(good))
            if not base.ok:
                from ..runner import HarnessError
                raise HarnessError('m=1 control deck (%s) does not convert: %s'
                                   % (where, base.brief()))
            d = m_minus_one_deck(where, star, -1)
            group = 'm=-1:' + where
            out = judge_fault(mr.render(d), [], group,
                              'm=-1 %s%s' % ('starred ' if star else '', where),
                              ['m=-1-fixed:' + where], group)
            q += 1
            stats.counts['extra_nontrivial'] += 1
            if out is not None:
                found.setdefault(out.bucket,
                                 ({'deck': d, 'fault': group, 'site': 0,
                                   'direct': True}, out.detail))
    stats.counts['m_minus_one_faults'] = q
    # a facet index one beyond the body's facets, for every macrobody kind
    # (single-facet SPH / ELL included), in a plain cell and under TRCL
    f_ = 0
    for (fam, kind), cards in samples.items():
        if fam != 'macro':
            continue
        for k, p, _lab in cards[:2]:
            nf = mgeom.n_facets(k, p)
            for with_trcl in (False, True):
                trials = [(nf, True, -1), (nf + 1, False, -1),
                          (nf + 1, False, 1)]
                # further beyond: two too many, and the largest single digit
                trials += [(i_, False, -1) for i_ in sorted({nf + 2, 9})
                           if nf + 1 < i_ <= 9]
                for idx, must_convert, sense in trials:
                    d = md.new_deck()
                    d['surfaces'] = [md.surf(1, k, p), md.surf(2, 'so', [60.0])]
                    inner = md.cell(1, 0, None,
                                    md.AND(md.F(sense, idx), md.S(-2)),
                                    imp={'n': 1})
                    if with_trcl:
                        inner['trcl'] = {'inline': md.trspec(
                            [0.5, -0.25, 1.0], None, n_entries=3)}
                    d['cells'] = [inner,
                                  md.cell(2, 0, None,
                                          md.AND(md.CELLC(1), md.S(-2)),
                                          imp={'n': 1}),
                                  md.cell(3, 0, None, md.S(2), imp={'n': 0})]
                    text = mr.render(d)
                    if must_convert:
                        base = conv.convert(text)
                        if not base.ok:
                            from ..runner import HarnessError
                            raise HarnessError(
                                'control deck with facet %d of %s does not '
                                'convert: %s' % (idx, k, base.brief()))
                        continue
                    group = 'facet:index-too-large'
                    out = judge_fault(text, [], group,
                                      'facet 1.%d of a %s (%d facets)%s'
                                      % (idx, k, nf,
                                         ' under TRCL' if with_trcl else ''),
                                      ['mnemonic:' + k,
                                       'facet-fixed:' + ('trcl' if with_trcl
                                                         else 'plain')], group)
                    f_ += 1
                    stats.counts['extra_nontrivial'] += 1
                    if out is not None:
                        found.setdefault(out.bucket + ':' + k.lower(),
                                         ({'deck': d, 'fault': group,
                                           'site': 0, 'direct': True},
                                          out.detail))
    stats.counts['facet_index_faults'] = f_
    q += f_
    stats.counts['extra_evaluations'] += n + m + q
    return found


# (a TR card that nothing refers to is not "used" by the deck: not asserted)
M1_PLACES = ['tr-card-on-surface', 'tr-card-by-trcl', 'tr-card-by-fill',
             'inline-trcl', 'inline-fill']


def m_minus_one_deck(where, star, m):
    import math
    d = md.new_deck()
    d['surfaces'] = [md.surf(1, 'so', [5.0]), md.surf(2, 'px', [0.4]),
                     md.surf(3, 's', [0.5, 0.0, 0.0, 1.0])]
    c_, s_ = math.cos(0.3), math.sin(0.3)
    B = [c_, s_, 0.0, -s_, c_, 0.0, 0.0, 0.0, 1.0]
    full = [math.degrees(math.acos(v)) for v in B] if star else B
    spec = md.trspec([0.3, -0.2, 0.1], full, star=star, n_entries=13, m=m)
    cont = md.cell(1, 0, None, md.S(-3), imp={'n': 1},
                   fill={'u': 1, 'tr': None})
    if where.startswith('tr-card'):
        d['transforms'].append({'id': 5, 'spec': spec})
    if where == 'tr-card-on-surface':
        d['surfaces'][1]['tr'] = 5
    elif where == 'tr-card-by-trcl':
        cont['trcl'] = {'num': 5}
    elif where == 'tr-card-by-fill':
        cont['fill']['tr'] = {'num': 5}
    elif where == 'inline-trcl':
        cont['trcl'] = {'inline': spec}
    elif where == 'inline-fill':
        cont['fill']['tr'] = {'inline': spec}
    d['cells'] = [cont,
                  md.cell(2, 0, None, md.S(-2), imp={'n': 1}, u=1),
                  md.cell(3, 0, None, md.S(2), imp={'n': 1}, u=1),
                  md.cell(4, 0, None, md.AND(md.S(3), md.S(-1)), imp={'n': 1}),
                  md.cell(5, 0, None, md.S(1), imp={'n': 0})]
    return d


def lattice_deck(ndim):
    d = md.new_deck()
    d['surfaces'] = [md.surf(1, 'so', [5.0]), md.surf(2, 'px', [0.0]),
                     md.surf(3, 'px', [1.0]), md.surf(4, 'py', [0.0]),
                     md.surf(5, 'py', [1.0]), md.surf(6, 'pz', [0.0]),
                     md.surf(7, 'pz', [1.0]), md.surf(8, 'so', [0.3])]
    leaves = [md.S(-3), md.S(2), md.S(-5), md.S(4), md.S(-7), md.S(6)]
    d['cells'] = [
        md.cell(1, 0, None, md.S(-1), imp={'n': 1}, fill={'u': 1, 'tr': None}),
        md.cell(5, 0, None, md.AND(*leaves[:2 * ndim]), imp={'n': 1}, u=1,
                lat=1, fill={'u': 2, 'ranges': [[0, 0]] * ndim,
                             'univs': None, 'tr': None}),
        md.cell(6, 1, '-1.0', md.S(-8), imp={'n': 1}, u=2),
        md.cell(7, 0, None, md.S(8), imp={'n': 1}, u=2),
        md.cell(9, 0, None, md.S(1), imp={'n': 0})]
    d['materials'] = [{'id': 1, 'entries': [('13027', '1.0')]}]
    return d
