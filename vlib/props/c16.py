"""C16 - reflecting and white surfaces become boundary conditions on the
right surfaces."""
import numpy as np
from hypothesis import strategies as st

from .. import conv, gen_hier, mdeck as md, mgeom, mrender as mr, t4eval, \
    t4read
from ..runner import ok, violation, skip, case_sig
from . import c01

PID = 'C16'
LEVEL = 'exploration'
RULE = ('Generated level-0 and hierarchical decks whose surfaces carry * '
        '(reflecting) and + (white) flags at random, with flagged and '
        'unflagged duplicates of flagged surfaces under smaller and larger '
        'numbers (references re-pointed at random), flagged surfaces that no '
        'cell uses, flagged surfaces used only inside universes, and flagged '
        'macrobodies; converted with and without --skip-deduplication. '
        'Oracle: (A) every entry names a SURF of the file whose zero set is '
        'that of a flagged MCNP surface of the corresponding kind '
        '(REFLECTION for *, COSINUS for +); (B) every flagged surface whose '
        'zero set is written has exactly one entry of its kind on a SURF '
        'with that zero set (one per flagged written copy when '
        'de-duplication is skipped); (C) no duplicate entries, count = '
        'lines; (D) a flagged macrobody makes the conversion fail. '
        'Non-trivial: a flagged surface has a duplicate with a smaller '
        'number and de-duplication is on; distinct = (deck, options).')
ASSUMPTIONS = [
    'keyword mapping * -> REFLECTION, + -> COSINUS is the writer\'s (stated, '
    'not verified against TRIPOLI-4)',
    '"bounds a converted cell" is read off the output: a flagged surface '
    'bounds a converted cell when a SURF with its zero set is written (only '
    'used surfaces are written)',
    'zero sets are compared by the randomized identity test g_T4 = c * '
    'f_MCNP on generic points (relative 1e-7)',
    'a flagged but unused surface that duplicates a used unflagged one is '
    'not asserted either way',
]


@st.composite
def bc_case(draw, tier='quick'):
    which = draw(st.sampled_from(['level0', 'level0', 'hier']))
    if which == 'level0':
        case = draw(c01.level0_case(tier))
        case['box'] = 6.0
    else:
        case = draw(gen_hier.hier_case(tier, {'lattice': False,
                                              'max_depth': 2}))
    case = draw(gen_hier.decorate(case, dup=True, unused=True, bc=True))
    deck = case['deck']
    labels = set(case['labels']) | {'gen:' + which}
    # make sure flags exist, and duplicate a flagged surface explicitly
    plain = [s for s in deck['surfaces']
             if s['kind'].lower() not in mgeom.MACRO_KINDS]
    if plain and not any(s['bc'] for s in plain):
        s0 = draw(st.sampled_from(plain))
        s0['bc'] = draw(st.sampled_from(['*', '+']))
    flagged = [s for s in deck['surfaces'] if s['bc']]
    ids = set(s['id'] for s in deck['surfaces'])
    if flagged and draw(st.integers(0, 1)) == 0:
        src = draw(st.sampled_from(flagged))
        free_small = [i for i in range(1, src['id']) if i not in ids]
        if free_small and draw(st.booleans()):
            nid = draw(st.sampled_from(free_small))
            labels.add('flagged-dup:smaller-id')
        else:
            nid = max(ids) + draw(st.integers(1, 5))
            labels.add('flagged-dup:larger-id')
        cp = dict(src)
        cp['id'] = nid
        cp['bc'] = draw(st.sampled_from(['', src['bc'], '*', '+']))
        deck['surfaces'].append(cp)
        deck['surfaces'].sort(key=lambda s: s['id'])
        # use the copy somewhere, in place of the original
        state = {'done': False}
        sid = src['id']

        def fn(n_):
            if abs(n_) == sid and not state['done']:
                state['done'] = True
                return nid if n_ > 0 else -nid
            return n_
        for c in deck['cells']:
            if not c.get('lat') and c.get('like') is None:
                c['expr'] = gen_hier._map_leaves(c['expr'], fn)
                if state['done']:
                    break
    if draw(st.integers(0, 9)) == 0:
        macros = [s for s in deck['surfaces']
                  if s['kind'].lower() in mgeom.MACRO_KINDS]
        if macros:
            draw(st.sampled_from(macros))['bc'] = draw(st.sampled_from('*+'))
            labels.add('flagged-macrobody')
    case['labels'] = sorted(labels)
    case['argv'] = ['--skip-deduplication'] if draw(st.booleans()) else []
    return case


def strategy(tier):
    return bc_case(tier)


def budget(tier):
    if tier == 'quick':
        return {'max_examples': 1280, 'shards': 16, 'time_budget': 100}
    return {'max_examples': 64000, 'shards': 16, 'time_budget': 1500}


def render_case(case):
    return mr.render(case['deck'], expr_style=case.get('style')) + \
        '\nc options: ' + ' '.join(case['argv'])


def sample_repr(case, out):
    surf = [l for l in mr.render(case['deck'],
                                 expr_style=case.get('style')).split('\n')
            if l[:1] in '*+']
    return {'flagged_surface_cards': surf[:6], 'argv': case['argv'],
            'labels': out.labels}


KIND = {'*': 'REFLECTION', '+': 'COSINUS'}


def same_locus(deck_surf, trs, t4surf, Q):
    P = Q
    if deck_surf.get('tr') is not None:
        P = md.rigid_of(trs[deck_surf['tr']]['spec']).to_aux(Q)
    f, s, _cone = mgeom.surface_fs(deck_surf['kind'], deck_surf['params'], P)
    g, gs = t4eval.surf_value(t4surf, Q)
    good = (np.abs(f) > 1e-3 * s) & (np.abs(g) > 1e-3 * gs)
    if good.sum() < 8:
        return False
    ratio = g[good] / f[good]
    r0 = np.median(ratio)
    return r0 != 0 and bool(np.max(np.abs(ratio - r0)) <= 1e-7 * abs(r0))


def used_by_converted_cells(deck):
    """Surface numbers referenced (directly or through #n) by the
    expression of a level-0 cell of non-zero importance."""
    cells = {c['id']: c for c in deck['cells']}
    memo = {}

    def refs(cid, stack=()):
        if cid in memo:
            return memo[cid]
        out = set()

        def walk(e):
            if e[0] in ('s', 'f'):
                out.add(abs(e[1]))
            elif e[0] == '#':
                if e[1] not in stack:
                    out.update(refs(e[1], stack + (cid,)))
            else:
                for k in e[1:]:
                    walk(k)
        walk(cells[cid]['expr'])
        memo[cid] = out
        return out
    used = set()
    for rank, c in enumerate(deck['cells']):
        if c.get('u'):
            continue
        if md.is_zero_importance(md.cell_importance(deck, rank, c)):
            continue
        used |= refs(c['id'])
    return used


def check(case):
    deck = case['deck']
    text = mr.render(deck, expr_style=case.get('style'))
    labels = list(case['labels']) + ['opt:' + a for a in case['argv']]
    argv = mr.argv_of(deck, case['argv'])
    res = conv.convert(text, argv)
    flagged_macro = any(s['bc'] and s['kind'].lower() in mgeom.MACRO_KINDS
                        for s in deck['surfaces'])
    if flagged_macro:
        if res.ok:
            kinds = sorted(set(s['kind'].lower() for s in deck['surfaces']
                               if s['bc'] and s['kind'].lower()
                               in mgeom.MACRO_KINDS))
            single = all(mgeom.n_facets(s['kind'], s['params']) == 1
                         for s in deck['surfaces'] if s['bc']
                         and s['kind'].lower() in mgeom.MACRO_KINDS)
            return violation('flagged-macrobody-accepted:%s:%s'
                             % ('single-facet' if single else 'multi-facet',
                                ','.join(kinds)),
                             {'deck': text, 'argv': argv}, labels)
        return ok(labels, False, sig=case_sig([text, argv]))
    if not res.ok:
        if res.exc_type == 'ValueError' and 'empty' in (res.exc_msg or ''):
            return skip('degenerate:nothing-to-convert', labels)
        return violation('crash:%s' % res.crash_key(),
                         {'error': res.brief(), 'deck': text, 'argv': argv},
                         labels)
    t4 = t4read.parse(res.t4_text)
    issues = t4read.validate(t4)
    if issues:
        return violation('structural:%s' % issues[0][0],
                         {'issues': issues[:4], 'deck': text, 'argv': argv},
                         labels)
    trs = {t['id']: t for t in deck['transforms']}
    flagged = [s for s in deck['surfaces'] if s['bc']]
    rng = np.random.Generator(np.random.PCG64(12345))
    Q = rng.uniform(-7, 7, (80, 3))
    written = {}     # flagged surface id -> set of written SURF ids with locus
    for s in flagged:
        ws = set()
        for sid, ts in t4.surfs.items():
            if ts.params is not None and same_locus(s, trs, ts, Q):
                ws.add(sid)
        written[s['id']] = ws
    entries = list(t4.bcs)
    level0_only = not any(c.get('u') for c in deck['cells'])
    used = used_by_converted_cells(deck)
    if not level0_only:
        # flagged surfaces inside (transformed) universes: only the kinds are
        # checked (their zero sets live in other frames)
        kinds = set(KIND[s['bc']] for s in flagged)
        for kind, sid in entries:
            if kind not in kinds:
                return violation('bc:kind-without-flag',
                                 {'entry': [kind, sid], 'deck': text,
                                  'argv': argv}, labels)
        return ok(labels, False, sig=case_sig([text, argv]),
                  counts={'entries': len(entries), 'flagged': len(flagged)})
    if len(set(entries)) != len(entries):
        return violation('bc:duplicate-entries', {'entries': entries,
                                                  'deck': text, 'argv': argv},
                         labels)
    dedup_on = '--skip-deduplication' not in case['argv']
    # (A)
    for kind, sid in entries:
        okay = any(KIND[s['bc']] == kind and sid in written[s['id']]
                   for s in flagged)
        if not okay:
            return violation('bc:entry-without-flagged-surface',
                             {'entry': [kind, sid], 'entries': entries,
                              'flagged': [(s['bc'], s['id']) for s in flagged],
                              'deck': text, 'argv': argv}, labels)
    # (B)
    for s in flagged:
        ws = written[s['id']]
        if not ws or s['id'] not in used:
            continue
        n = sum(1 for kind, sid in entries
                if kind == KIND[s['bc']] and sid in ws)
        if dedup_on:
            want = 1
        else:
            want = sum(1 for s2 in flagged
                       if s2['bc'] == s['bc'] and s2['id'] in ws)
            if want == 0:
                # the flagged surface itself is not written (only a
                # duplicate is): not asserted
                continue
        if n != want:
            return violation('bc:wrong-number-of-entries',
                             {'surface': [s['bc'], s['id']],
                              'written_as': sorted(ws), 'entries': entries,
                              'expected': want, 'found': n,
                              'deck': text, 'argv': argv}, labels)
    nontrivial = dedup_on and 'flagged-dup:smaller-id' in labels \
        and bool(entries)
    return ok(labels, nontrivial or (bool(entries) and len(flagged) >= 2),
              sig=case_sig([text, argv]),
              counts={'entries': len(entries), 'flagged': len(flagged)})


# -- deterministic part: a flag on every kind of macrobody, written plainly,
#    with a transformation number on the card, and in a cell under TRCL -------

def extra(tier, seed, stats):
    from . import c17
    from .. import gen
    found = {}
    n = 0
    tr_specs = {
        'tr-translation': md.trspec([0.5, -0.25, 1.0], None, n_entries=3),
        'tr-rotation': md.trspec([0.5, -0.25, 1.0],
                                 [0.0, 1.0, 0.0, -1.0, 0.0, 0.0, 0.0, 0.0, 1.0]),
    }
    for kind in gen.MACROS:
        cards = c17._grab(gen.macro_params(kind), seed * 77 + len(kind),
                          1 if tier == 'quick' else 4)
        for k, p, _lab in cards:
            for flag in '*+':
                for variant in ('plain', 'tr-translation', 'tr-rotation',
                                'cell-trcl'):
                    d = md.new_deck()
                    s_ = md.surf(1, k, p)
                    s_['bc'] = flag
                    if variant in tr_specs:
                        d['transforms'].append({'id': 3,
                                                'spec': tr_specs[variant]})
                        s_['tr'] = 3
                    d['surfaces'].append(s_)
                    d['surfaces'].append(md.surf(2, 'so', [60.0]))
                    inner = md.cell(1, 0, None, md.S(-1), imp={'n': 1})
                    if variant == 'cell-trcl':
                        inner['trcl'] = {'inline': tr_specs['tr-translation']}
                    d['cells'] = [inner,
                                  md.cell(2, 0, None,
                                          md.AND(md.CELLC(1), md.S(-2)),
                                          imp={'n': 1}),
                                  md.cell(3, 0, None, md.S(2), imp={'n': 0})]
                    text = mr.render(d)
                    # control: the same deck without the flag converts
                    if flag == '*':
                        s_['bc'] = ''
                        base = conv.convert(mr.render(d))
                        s_['bc'] = flag
                        if not base.ok:
                            from ..runner import HarnessError
                            raise HarnessError(
                                'unflagged control deck does not convert: '
                                '%s\n%s' % (base.brief(), mr.render(d)))
                    res = conv.convert(text, [])
                    n += 1
                    stats.counts['extra_nontrivial'] += 1
                    stats.labels.update(['flagged-macrobody-fixed:' + variant])
                    if res.ok:
                        single = mgeom.n_facets(k, p) == 1
                        bucket = 'flagged-macrobody-accepted:%s:%s:%s' % (
                            'single-facet' if single else 'multi-facet',
                            k.lower(), variant)
                        found.setdefault(bucket, (
                            {'deck': d, 'labels': ['flagged-macrobody'],
                             'argv': [], 'box': 8.0, 'pseed': 1},
                            {'deck': text, 'flag': flag}))
    stats.counts['flagged_macrobody_decks'] = n
    stats.counts['extra_evaluations'] += n
    return found
