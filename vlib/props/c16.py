"""C16 - reflecting and white surfaces become boundary conditions on the
right surfaces."""
import numpy as np
from hypothesis import strategies as st

from .. import conv, gen_hier, mdeck as md, mgeom, mrender as mr, t4eval, \
    t4read
from ..runner import ok, violation, skip, case_sig
from . import c01

PID = 'C16'
LEVEL = 'exploration'
RULE = ('Generated level-0, hierarchical and transformation (surface TR / '
        'cell TRCL, every surface kind) decks whose surfaces carry * '
        '(reflecting) and + (white) flags at random, with flagged and '
        'unflagged duplicates of flagged surfaces under smaller and larger '
        'numbers (references re-pointed at random), flagged surfaces that no '
        'cell uses, flagged surfaces used only inside universes, and flagged '
        'macrobodies; converted with and without --skip-deduplication. '
        'Oracle: (A) every entry names a SURF of the file whose zero set is '
        'that of a flagged MCNP surface of the corresponding kind '
        '(REFLECTION for *, COSINUS for +); (B) every flagged surface whose '
        'zero set is written has exactly one entry of its kind on a SURF '
        'with that zero set (one per flagged written copy when '
        'de-duplication is skipped); (C) no duplicate entries, count = '
        'lines; (D) a flagged macrobody makes the conversion fail (also '
        'deterministically: every macrobody kind x flag x {plain, TR on the '
        'card, cell under TRCL}). Decks with universes: (A) with the zero '
        'set taken in every frame in which the flagged card is used '
        '(placements of the universe through the FILL tree composed with the '
        'TRCL of the cell that lists it); (B) without de-duplication, where '
        'numbering does not depend on values: the written copies of a '
        'flagged card are found by nudging one parameter of the card and '
        'comparing SURF lines, and each copy that a volume uses must carry '
        'exactly one entry of the card\'s kind. '
        'Non-trivial: a flagged surface has a duplicate with a smaller '
        'number and de-duplication is on; distinct = (deck, options).')
ASSUMPTIONS = [
    'keyword mapping * -> REFLECTION, + -> COSINUS is the writer\'s (stated, '
    'not verified against TRIPOLI-4)',
    '"bounds a converted cell" is read off the output: a flagged surface '
    'bounds a converted cell when a SURF with its zero set is written (only '
    'used surfaces are written)',
    'zero sets are compared by the randomized identity test g_T4 = c * '
    'f_MCNP on generic points (relative 1e-7)',
    'a flagged but unused surface that duplicates a used unflagged one is '
    'not asserted either way',
    'a flagged surface of a universe that is placed k times has k written '
    'copies; "exactly one entry" is read per written copy that bounds a '
    'volume',
]


@st.composite
def bc_case(draw, tier='quick'):
    which = draw(st.sampled_from(['level0', 'level0', 'hier', 'tr']))
    if which == 'level0':
        case = draw(c01.level0_case(tier))
        case['box'] = 6.0
    elif which == 'tr':
        # flagged surfaces that carry a TR number or bound a cell under TRCL
        from . import c04
        case = draw(c04.tr_case(tier, focus=draw(st.sampled_from(
            [None, 'special', 'axis']))))
        case['box'] = 8.0
        s0 = case['deck']['surfaces'][0]
        if s0['kind'].lower() not in mgeom.MACRO_KINDS:
            s0['bc'] = draw(st.sampled_from(['*', '+']))
    else:
        case = draw(gen_hier.hier_case(tier, {'lattice': False,
                                              'max_depth': 2}))
    case = draw(gen_hier.decorate(case, dup=True, unused=True, bc=True))
    deck = case['deck']
    labels = set(case['labels']) | {'gen:' + which}
    # make sure flags exist, and duplicate a flagged surface explicitly
    plain = [s for s in deck['surfaces']
             if s['kind'].lower() not in mgeom.MACRO_KINDS]
    if plain and not any(s['bc'] for s in plain):
        s0 = draw(st.sampled_from(plain))
        s0['bc'] = draw(st.sampled_from(['*', '+']))
    flagged = [s for s in deck['surfaces'] if s['bc']]
    ids = set(s['id'] for s in deck['surfaces'])
    if flagged and draw(st.integers(0, 1)) == 0:
        src = draw(st.sampled_from(flagged))
        free_small = [i for i in range(1, src['id']) if i not in ids]
        if free_small and draw(st.booleans()):
            nid = draw(st.sampled_from(free_small))
            labels.add('flagged-dup:smaller-id')
        else:
            nid = max(ids) + draw(st.integers(1, 5))
            labels.add('flagged-dup:larger-id')
        cp = dict(src)
        cp['id'] = nid
        cp['bc'] = draw(st.sampled_from(['', src['bc'], '*', '+']))
        deck['surfaces'].append(cp)
        deck['surfaces'].sort(key=lambda s: s['id'])
        # use the copy somewhere, in place of the original
        state = {'done': False}
        sid = src['id']

        def fn(n_):
            if abs(n_) == sid and not state['done']:
                state['done'] = True
                return nid if n_ > 0 else -nid
            return n_
        for c in deck['cells']:
            if not c.get('lat') and c.get('like') is None:
                c['expr'] = gen_hier._map_leaves(c['expr'], fn)
                if state['done']:
                    break
    # the other sheet of a flagged one-sheet cone, as an unflagged card of its
    # own that some cell uses: the two cards share their cone, not their locus
    cones = [s for s in deck['surfaces'] if s['bc']
             and s['kind'].lower() in ('k/x', 'k/y', 'k/z', 'kx', 'ky', 'kz')
             and len(s['params']) in (3, 5) and s.get('tr') is None]
    if cones and which != 'tr' and draw(st.booleans()):
        src = draw(st.sampled_from(cones))
        nid = max(s_['id'] for s_ in deck['surfaces']) + draw(st.integers(1, 3))
        cp = dict(src)
        cp['id'] = nid
        cp['params'] = list(src['params'][:-1]) + [-src['params'][-1]]
        cp['bc'] = ''
        deck['surfaces'].append(cp)
        # a new level-0 cell inside the other sheet, cut out of nothing: the
        # decks of this check may overlap (only boundary conditions are judged)
        ncid = max(c['id'] for c in deck['cells']) + 1
        deck['cells'].append(md.cell(ncid, 0, None, md.S(-nid), imp={'n': 1}))
        if deck.get('imp_cards'):
            for card in deck['imp_cards'].values():
                card['values'] = list(card['values']) + [1.0]
                card.pop('tokens', None)
        labels.add('other-sheet-of-flagged-cone')
    if draw(st.integers(0, 9)) == 0:
        macros = [s for s in deck['surfaces']
                  if s['kind'].lower() in mgeom.MACRO_KINDS]
        if macros:
            draw(st.sampled_from(macros))['bc'] = draw(st.sampled_from('*+'))
            labels.add('flagged-macrobody')
    case['labels'] = sorted(labels)
    case['argv'] = ['--skip-deduplication'] if draw(st.booleans()) else []
    return case


def strategy(tier):
    return bc_case(tier)


def budget(tier):
    if tier == 'quick':
        return {'max_examples': 1280, 'shards': 16, 'time_budget': 100}
    return {'max_examples': 64000, 'shards': 16, 'time_budget': 1500}


def render_case(case):
    return mr.render(case['deck'], expr_style=case.get('style')) + \
        '\nc options: ' + ' '.join(case['argv'])


def sample_repr(case, out):
    surf = [l for l in mr.render(case['deck'],
                                 expr_style=case.get('style')).split('\n')
            if l[:1] in '*+']
    return {'flagged_surface_cards': surf[:6], 'argv': case['argv'],
            'labels': out.labels}


KIND = {'*': 'REFLECTION', '+': 'COSINUS'}


def same_locus(deck_surf, trs, t4surf, Q, frame=None):
    P = Q if frame is None else frame.to_aux(Q)
    if deck_surf.get('tr') is not None:
        P = md.rigid_of(trs[deck_surf['tr']]['spec']).to_aux(P)
    f, s, _cone = mgeom.surface_fs(deck_surf['kind'], deck_surf['params'], P)
    g, gs = t4eval.surf_value(t4surf, Q)
    good = (np.abs(f) > 1e-3 * s) & (np.abs(g) > 1e-3 * gs)
    if good.sum() < 8:
        return False
    ratio = g[good] / f[good]
    r0 = np.median(ratio)
    return r0 != 0 and bool(np.max(np.abs(ratio - r0)) <= 1e-7 * abs(r0))


def same_surface(s1, s2, trs, Qs):
    """Sheet-aware identity of two surface cards: their negative-sense
    regions agree, or are complementary, on all decided sample points."""
    def neg(s_):
        P = Qs
        if s_.get('tr') is not None:
            P = md.rigid_of(trs[s_['tr']]['spec']).to_aux(Qs)
        return mgeom.surface_neg(s_['kind'], s_['params'], P)
    n1, d1 = neg(s1)
    n2, d2 = neg(s2)
    both = d1 & d2
    if both.sum() < 50:
        return True         # cannot tell: do not raise an alarm
    a, b = n1[both], n2[both]
    return bool(np.array_equal(a, b) or np.array_equal(a, ~b))


def surface_frames(deck):
    """For every surface number: the rigid motions (frame of use -> root
    frame) under which the surface is used: the placements of the universe
    of a cell that refers to it, through the FILL hierarchy (fill
    transformation, else the container's TRCL), composed with the TRCL of
    the cell whose card lists it (for a reference through #n: the TRCL of
    cell n, in the frame of the referring cell's universe).  The identity is
    always included (the card as written).  Lattices are not handled here
    (C16 decks have none)."""
    loc = md.Locator(deck)
    cells = {c['id']: c for c in loc.deck['cells']}
    by_u = {}
    for c in loc.deck['cells']:
        by_u.setdefault(c.get('u') or 0, []).append(c)
    place = {}

    def visit(u, chain, depth):
        if depth > 8:
            raise mgeom.ModelError('universe nesting too deep')
        # the placement through the whole chain, and through every inner
        # part of it: the converter moves a universe outwards level by level
        # and keeps the intermediate copies of its (flagged) surfaces, which
        # de-duplication may merge with a surface that is used
        for k in range(len(chain) + 1):
            P = mgeom.IDENTITY
            for T in chain[k:]:
                P = P.compose_after(T)
            place.setdefault(u, []).append(P)
        for c in by_u.get(u, []):
            f = c.get('fill')
            if not f:
                continue
            if c.get('lat') or f.get('univs') is not None:
                raise mgeom.ModelError('lattice in a C16 deck')
            Tf = loc.tr_rigid(f.get('tr'))
            Tc = loc.cell_trcl(c)
            T = Tf if Tf is not None else (Tc if Tc is not None
                                           else mgeom.IDENTITY)
            visit(f['u'], chain + (T,), depth + 1)
    visit(0, (), 0)
    frames = {}

    def walk(expr, P, owner, stack):
        if expr is None:
            return
        if expr[0] in ('s', 'f'):
            sid = abs(expr[1])
            if sid not in loc.surfs and sid >= 1000 and \
                    sid // 1000 in cells and sid % 1000 in loc.surfs:
                # implicit number 1000*cell+surface: the surface as moved by
                # that cell's TRCL
                owner = cells[sid // 1000]
                sid = sid % 1000
            Tc = loc.cell_trcl(owner) or mgeom.IDENTITY
            frames.setdefault(sid, []).append(P.compose_after(Tc))
        elif expr[0] == '#':
            n = cells.get(expr[1])
            if n is not None and n['id'] not in stack:
                walk(n['expr'], P, n, stack + (n['id'],))
        else:
            for sub in expr[1:]:
                walk(sub, P, owner, stack)
    for u, cs in by_u.items():
        for c in cs:
            for P in place.get(u, []):
                walk(c['expr'], P, c, (c['id'],))
    for s_ in loc.deck['surfaces']:
        frames.setdefault(s_['id'], []).append(mgeom.IDENTITY)
    return frames


# index of a parameter whose change moves the zero set, per mnemonic
PERTURB_INDEX = {'p': 3, 'px': 0, 'py': 0, 'pz': 0, 'so': 0, 's': 3, 'sx': 1,
                 'sy': 1, 'sz': 1, 'c/x': 2, 'c/y': 2, 'c/z': 2, 'cx': 0,
                 'cy': 0, 'cz': 0, 'k/x': 3, 'k/y': 3, 'k/z': 3, 'kx': 1,
                 'ky': 1, 'kz': 1, 'sq': 6, 'gq': 9, 'tx': 5, 'ty': 5, 'tz': 5,
                 'x': 1, 'y': 1, 'z': 1}


def derived_surfaces(deck, s, argv, base_t4, style):
    """Written surfaces that come from surface card ``s``: those whose SURF
    line changes when one parameter of the card is nudged (only meaningful
    without de-duplication, where numbering does not depend on values)."""
    import copy
    k = s['kind'].lower()
    idx = PERTURB_INDEX.get(k)
    if idx is None or (k == 'p' and len(s['params']) != 4):
        return None
    d2 = copy.deepcopy(deck)
    for s2 in d2['surfaces']:
        if s2['id'] == s['id']:
            # (duplicated cards may share their parameter list)
            s2['params'] = list(s2['params'])
            v = s2['params'][idx]
            s2['params'][idx] = v + 1e-3 * (1.0 + abs(v))
    res = conv.convert(mr.render(d2, expr_style=style), argv)
    if not res.ok:
        return None
    t2 = t4read.parse(res.t4_text)
    if set(t2.surfs) != set(base_t4.surfs):
        return None
    out = set()
    for sid, a in base_t4.surfs.items():
        b = t2.surfs[sid]
        if a.type != b.type or a.params != b.params or \
                getattr(a, 'transform', None) != getattr(b, 'transform', None):
            out.add(sid)
    return out


def hierarchical_verdict(deck, t4, entries, flagged, trs, Q, text, argv,
                         labels, case):
    """Decks with universes.  (A) every entry designates a written surface
    with the locus of a flagged surface of that kind in one of its frames of
    use.  (B) without de-duplication: every written surface that derives
    from a flagged card (found by nudging the card) and is used by a volume
    carries exactly one entry of the card's kind."""
    frames = surface_frames(deck)
    kind_of = {s['id']: KIND[s['bc']] for s in flagged}
    for kind, sid in entries:
        ts = t4.surfs.get(sid)
        okay = ts is not None and ts.params is not None and any(
            kind_of[s['id']] == kind and same_locus(s, trs, ts, Q, F)
            for s in flagged for F in frames.get(s['id'], []))
        if not okay:
            return violation('bc:entry-without-flagged-surface:universes',
                             {'entry': [kind, sid], 'entries': entries,
                              'flagged': [(s['bc'], s['id']) for s in flagged],
                              'deck': text, 'argv': argv}, labels)
    n_checked = 0
    if '--skip-deduplication' in case['argv']:
        used_t4 = set()
        for v in t4.volus.values():
            used_t4.update(v.plus)
            used_t4.update(v.minus)
        for s in flagged[:3]:
            der = derived_surfaces(deck, s, argv, t4, case.get('style'))
            if der is None:
                continue
            # (an auxiliary apex plane of a one-sheet cone moves with the
            # card but does not have its locus)
            der = set(sid for sid in der
                      if t4.surfs[sid].params is not None
                      and any(same_locus(s, trs, t4.surfs[sid], Q, F)
                              for F in frames.get(s['id'], [])))
            for sid in sorted(der & used_t4):
                n = sum(1 for kind, e in entries
                        if e == sid and kind == kind_of[s['id']])
                n_checked += 1
                if n != 1:
                    return violation(
                        'bc:wrong-number-of-entries:universes',
                        {'flagged_card': [s['bc'], s['id']],
                         'written_copy': sid, 'found': n, 'entries': entries,
                         'deck': text, 'argv': argv}, labels)
    return ok(labels, n_checked >= 2, sig=case_sig([text, argv]),
              counts={'entries': len(entries), 'flagged': len(flagged),
                      'written_copies_checked': n_checked})


def used_by_converted_cells(deck):
    """Surface numbers referenced (directly or through #n) by the
    expression of a level-0 cell of non-zero importance."""
    cells = {c['id']: c for c in deck['cells']}
    memo = {}

    def refs(cid, stack=()):
        if cid in memo:
            return memo[cid]
        out = set()

        def walk(e):
            if e[0] in ('s', 'f'):
                out.add(abs(e[1]))
            elif e[0] == '#':
                if e[1] not in stack:
                    out.update(refs(e[1], stack + (cid,)))
            else:
                for k in e[1:]:
                    walk(k)
        walk(cells[cid]['expr'])
        memo[cid] = out
        return out
    used = set()
    for rank, c in enumerate(deck['cells']):
        if c.get('u'):
            continue
        if md.is_zero_importance(md.cell_importance(deck, rank, c)):
            continue
        used |= refs(c['id'])
    return used


def check(case):
    deck = case['deck']
    text = mr.render(deck, expr_style=case.get('style'))
    labels = list(case['labels']) + ['opt:' + a for a in case['argv']]
    argv = mr.argv_of(deck, case['argv'])
    res = conv.convert(text, argv)
    flagged_macro = any(s['bc'] and s['kind'].lower() in mgeom.MACRO_KINDS
                        for s in deck['surfaces'])
    if flagged_macro:
        if res.ok:
            kinds = sorted(set(s['kind'].lower() for s in deck['surfaces']
                               if s['bc'] and s['kind'].lower()
                               in mgeom.MACRO_KINDS))
            single = all(mgeom.n_facets(s['kind'], s['params']) == 1
                         for s in deck['surfaces'] if s['bc']
                         and s['kind'].lower() in mgeom.MACRO_KINDS)
            return violation('flagged-macrobody-accepted:%s:%s'
                             % ('single-facet' if single else 'multi-facet',
                                ','.join(kinds)),
                             {'deck': text, 'argv': argv}, labels)
        return ok(labels, False, sig=case_sig([text, argv]))
    if not res.ok:
        if res.exc_type == 'ValueError' and 'empty' in (res.exc_msg or ''):
            return skip('degenerate:nothing-to-convert', labels)
        return violation('crash:%s' % res.crash_key(),
                         {'error': res.brief(), 'deck': text, 'argv': argv},
                         labels)
    t4 = t4read.parse(res.t4_text)
    issues = t4read.validate(t4)
    if issues:
        return violation('structural:%s' % issues[0][0],
                         {'issues': issues[:4], 'deck': text, 'argv': argv},
                         labels)
    trs = {t['id']: t for t in deck['transforms']}
    flagged = [s for s in deck['surfaces'] if s['bc']]
    rng = np.random.Generator(np.random.PCG64(12345))
    Q = rng.uniform(-7, 7, (80, 3))
    written = {}     # flagged surface id -> set of written SURF ids with locus
    for s in flagged:
        ws = set()
        for sid, ts in t4.surfs.items():
            if ts.params is not None and same_locus(s, trs, ts, Q):
                ws.add(sid)
        written[s['id']] = ws
    entries = list(t4.bcs)
    level0_only = not any(c.get('u') or c.get('trcl') for c in deck['cells'])
    used = used_by_converted_cells(deck)
    if not level0_only:
        return hierarchical_verdict(deck, t4, entries, flagged, trs, Q, text,
                                    argv, labels, case)
    if len(set(entries)) != len(entries):
        return violation('bc:duplicate-entries', {'entries': entries,
                                                  'deck': text, 'argv': argv},
                         labels)
    dedup_on = '--skip-deduplication' not in case['argv']
    # (A)
    for kind, sid in entries:
        okay = any(KIND[s['bc']] == kind and sid in written[s['id']]
                   for s in flagged)
        if not okay:
            return violation('bc:entry-without-flagged-surface',
                             {'entry': [kind, sid], 'entries': entries,
                              'flagged': [(s['bc'], s['id']) for s in flagged],
                              'deck': text, 'argv': argv}, labels)
    # (A') an entry must not sit on a written surface that also stands for a
    # used, unflagged card which is a different surface (the sheets of a cone
    # share their polynomial, not their locus)
    if dedup_on:
        Qs = np.random.Generator(np.random.PCG64(777)).uniform(-7, 7, (400, 3))
        for kind, sid in entries:
            for s2 in deck['surfaces']:
                if s2['bc'] or s2['id'] not in used or \
                        s2['kind'].lower() in mgeom.MACRO_KINDS:
                    continue
                if not same_locus(s2, trs, t4.surfs[sid], Q):
                    continue
                if not any(KIND[s1['bc']] == kind and
                           same_surface(s1, s2, trs, Qs) for s1 in flagged):
                    cone = s2['kind'].lower() in ('k/x', 'k/y', 'k/z', 'kx',
                                                  'ky', 'kz', 'x', 'y', 'z')
                    return violation(
                        'bc:entry-on-surface-of-unflagged-card:%s'
                        % ('other-sheet-of-a-cone' if cone else 'other'),
                        {'entry': [kind, sid], 'unflagged_card': s2['id'],
                         'entries': entries, 'deck': text, 'argv': argv},
                        labels)
    # (B)
    unflagged_written = set()
    for s2 in deck['surfaces']:
        if s2['bc'] or s2['kind'].lower() in mgeom.MACRO_KINDS:
            continue
        for sid, ts in t4.surfs.items():
            if ts.params is not None and same_locus(s2, trs, ts, Q):
                unflagged_written.add(sid)
    for s in flagged:
        ws = written[s['id']]
        if not ws or s['id'] not in used:
            continue
        exact_dup = any(s2 is not s and s2['kind'] == s['kind']
                        and list(s2['params']) == list(s['params'])
                        and s2.get('tr') == s.get('tr')
                        # ... which is the card the surface is written under
                        # (de-duplication renumbers the flagged card to it)
                        and s2['id'] in ws
                        for s2 in deck['surfaces'])
        if s['id'] not in ws and ws <= unflagged_written and not exact_dup:
            # the flagged card itself is not written (its piece was pruned)
            # and what is written may stem from an unflagged card with the
            # same zero set up to the last bits: not asserted (assumptions)
            continue
        n = sum(1 for kind, sid in entries
                if kind == KIND[s['bc']] and sid in ws)
        if dedup_on:
            # one entry; when several flagged cards have this zero set up to
            # the last bits (e.g. one rotation spelled in cosines and in
            # degrees) they need not be merged, and each keeps its entry
            twins = sum(1 for s2 in flagged if s2['bc'] == s['bc']
                        and written[s2['id']] == ws)
            if 1 <= n <= max(1, twins):
                continue
            want = 1
        else:
            want = sum(1 for s2 in flagged
                       if s2['bc'] == s['bc'] and s2['id'] in ws)
            if want == 0:
                # the flagged surface itself is not written (only a
                # duplicate is): not asserted
                continue
        if n != want:
            return violation('bc:wrong-number-of-entries',
                             {'surface': [s['bc'], s['id']],
                              'written_as': sorted(ws), 'entries': entries,
                              'expected': want, 'found': n,
                              'deck': text, 'argv': argv}, labels)
    nontrivial = dedup_on and 'flagged-dup:smaller-id' in labels \
        and bool(entries)
    return ok(labels, nontrivial or (bool(entries) and len(flagged) >= 2),
              sig=case_sig([text, argv]),
              counts={'entries': len(entries), 'flagged': len(flagged)})


# -- deterministic part: a flag on every kind of macrobody, written plainly,
#    with a transformation number on the card, and in a cell under TRCL -------

def extra(tier, seed, stats):
    from . import c17
    from .. import gen
    found = {}
    n = 0
    tr_specs = {
        'tr-translation': md.trspec([0.5, -0.25, 1.0], None, n_entries=3),
        'tr-rotation': md.trspec([0.5, -0.25, 1.0],
                                 [0.0, 1.0, 0.0, -1.0, 0.0, 0.0, 0.0, 0.0, 1.0]),
    }
    for kind in gen.MACROS:
        cards = c17._grab(gen.macro_params(kind), seed * 77 + len(kind),
                          1 if tier == 'quick' else 4)
        for k, p, _lab in cards:
            for flag in '*+':
                for variant in ('plain', 'tr-translation', 'tr-rotation',
                                'cell-trcl'):
                    d = md.new_deck()
                    s_ = md.surf(1, k, p)
                    s_['bc'] = flag
                    if variant in tr_specs:
                        d['transforms'].append({'id': 3,
                                                'spec': tr_specs[variant]})
                        s_['tr'] = 3
                    d['surfaces'].append(s_)
                    d['surfaces'].append(md.surf(2, 'so', [60.0]))
                    inner = md.cell(1, 0, None, md.S(-1), imp={'n': 1})
                    if variant == 'cell-trcl':
                        inner['trcl'] = {'inline': tr_specs['tr-translation']}
                    d['cells'] = [inner,
                                  md.cell(2, 0, None,
                                          md.AND(md.CELLC(1), md.S(-2)),
                                          imp={'n': 1}),
                                  md.cell(3, 0, None, md.S(2), imp={'n': 0})]
                    text = mr.render(d)
                    # control: the same deck without the flag converts
                    if flag == '*':
                        s_['bc'] = ''
                        base = conv.convert(mr.render(d))
                        s_['bc'] = flag
                        if not base.ok:
                            from ..runner import HarnessError
                            raise HarnessError(
                                'unflagged control deck does not convert: '
                                '%s\n%s' % (base.brief(), mr.render(d)))
                    res = conv.convert(text, [])
                    n += 1
                    stats.counts['extra_nontrivial'] += 1
                    stats.labels.update(['flagged-macrobody-fixed:' + variant])
                    if res.ok:
                        single = mgeom.n_facets(k, p) == 1
                        bucket = 'flagged-macrobody-accepted:%s:%s:%s' % (
                            'single-facet' if single else 'multi-facet',
                            k.lower(), variant)
                        found.setdefault(bucket, (
                            {'deck': d, 'labels': ['flagged-macrobody'],
                             'argv': [], 'box': 8.0, 'pseed': 1},
                            {'deck': text, 'flag': flag}))
    stats.counts['flagged_macrobody_decks'] = n
    stats.counts['extra_evaluations'] += n
    return found
