"""C15 - LIKE n BUT equals the explicit cell card it abbreviates."""
import copy

from hypothesis import strategies as st

from .. import conv, gen, gen_hier, mdeck as md, mrender as mr
from ..runner import ok, violation, skip, case_sig
from .c14 import compare_outputs

PID = 'C15'
LEVEL = 'exploration'
RULE = ('Generated decks with 1-3 base cells carrying every option family '
        '(material/density or void, IMP for one or two particle types, U, '
        'FILL with and without transformation in every spelling, TRCL by '
        'number / inline / starred) and 1-4 LIKE n BUT cells overriding any '
        'subset of {mat, rho, u, fill (+transformation), trcl/*trcl, imp}, in '
        'chains of length 1-3 (LIKE of LIKE), referring to earlier or later '
        'cells; in a third of the cases the importances are on an IMP:N data '
        'card with an entry of its own for every LIKE cell. The expanded deck is produced from the model (copy of the '
        'base + overrides), never by text substitution. Metamorphic oracle: '
        'the written files of the LIKE deck and of the expanded deck have '
        'identical GEOMETRY / BOUNDARY_CONDITION text and numerically '
        'identical volume-composition associations. Non-trivial: >= 2 '
        'overridden parameters or a chain of length >= 2; distinct = LIKE '
        'deck text.')
ASSUMPTIONS = [
    'semantics of LIKE n BUT as stated in the property: copy cell n, then '
    'override the listed parameters (later value wins)',
    'LIKE n BUT MAT=0 makes the copy void whatever density the chain carries',
]


def imp_groups(d, imp):
    """Spell a two-particle importance either keyword by keyword or, when
    the values agree, with one grouped keyword (imp:n,p= / imp:p,n=)."""
    if imp['n'] == imp['p'] and d(st.booleans()):
        return [(d(st.sampled_from(['n,p', 'p,n'])), imp['n'])]
    if d(st.booleans()):
        return [('p', imp['p']), ('n', imp['n'])]
    return [('n', imp['n']), ('p', imp['p'])]


@st.composite
def like_free_case(draw, tier='quick'):
    b = gen_hier.Builder(draw, tier, {'lattice': False})
    d = draw
    W = 9.0
    world = b.add_surf('so', [W])
    u1 = b.universe(0, 1.5, allow_lattice=False)
    u2 = b.universe(0, 1.5, allow_lattice=False)
    uc = b.new_uid()          # a universe populated by base / LIKE cells
    labels = b.labels

    def options(allow_u=True):
        opt = {}
        k = d(st.integers(0, 7))
        if k & 1:
            opt['fill'] = {'u': d(st.sampled_from([u1, u2])),
                           'tr': b.transform_ref(2.0)}
        if k & 2:
            opt['trcl'] = b.transform_ref(2.0, allow_none=False)
        if k & 4 and allow_u:
            opt['u'] = uc
        return opt

    cells = []
    n_base = d(st.integers(1, 3))
    for _ in range(n_base):
        expr = b.region(2.5)
        mat, rho = b.material()
        opt = options()
        imp = {'n': d(st.sampled_from([1, 1, 2]))}
        groups = None
        if d(st.integers(0, 2)) == 0:
            imp['p'] = d(st.sampled_from([1, 0, imp['n']]))
            groups = imp_groups(d, imp)
        c = md.cell(b.new_cid(), mat, rho, expr, imp=imp, u=opt.get('u'),
                    fill=opt.get('fill'), trcl=opt.get('trcl'))
        if groups:
            c['imp_groups'] = groups
        cells.append(c)
    n_like = d(st.integers(1, 4))
    depth = {c['id']: 0 for c in cells}
    max_chain = 0
    n_over = 0
    for _ in range(n_like):
        ref = d(st.sampled_from(cells))
        eff = md.expand_like({'cells': cells + [dict(md.cell(0, 0, None, None),
                                                     like={'base': ref['id'],
                                                           'but': {}})]}
                             )['cells'][-1]
        but = {}
        ks = d(st.integers(1, 63))
        if ks & 1:
            m, rho = b.material()
            if m != 0:
                but['mat'], but['rho'] = m, rho
        elif ks & 2 and eff['mat'] != 0:
            _m, rho = b.material()
            if rho is not None and not (eff['mat'] == 3
                                        and not rho.startswith('-')):
                but['rho'] = rho
        if ks & 4:
            but['u'] = d(st.sampled_from([uc, uc, b.uid + 5]))
        if ks & 8:
            but['fill'] = {'u': d(st.sampled_from([u1, u2])),
                           'tr': b.transform_ref(2.0)}
        if ks & 16:
            but['trcl'] = b.transform_ref(2.0, allow_none=False)
        if ks & 32:
            but['imp'] = {'n': d(st.sampled_from([0, 0, 1, 3]))}
            if d(st.integers(0, 1)) == 0:
                but['imp']['p'] = d(st.sampled_from([0, 1, but['imp']['n']]))
                but['imp_groups'] = imp_groups(d, but['imp'])
                labels.add('like:imp-two-particles')
        if not but:
            but['trcl'] = b.transform_ref(2.0, allow_none=False)
        lc = md.cell(b.new_cid(), 0, None, None,
                     like={'base': ref['id'], 'but': but})
        depth[lc['id']] = depth[ref['id']] + 1
        max_chain = max(max_chain, depth[lc['id']])
        n_over = max(n_over, len([k for k in but if k != 'imp_groups']))
        cells.append(lc)
    # container for the universe populated by the cells above, background,
    # graveyard
    extra = [md.cell(b.new_cid(), 0, None, md.S(-b.add_surf('so', [1.0])),
                     imp={'n': 1}, fill={'u': uc, 'tr': None}),
             md.cell(b.new_cid(), 1, '-1.0', md.S(-world), imp={'n': 1}),
             md.cell(b.new_cid(), 0, None, md.S(world), imp={'n': 0})]
    allc = cells + extra
    if d(st.booleans()):
        order = d(st.permutations(list(range(len(allc)))))
        allc = [allc[o] for o in order]
        labels.add('like:forward-reference')
    b.deck['cells'] = b.deck['cells'] + allc
    labels.add('like:chain=%d' % max_chain)
    labels.add('like:overrides=%d' % n_over)
    return {'deck': b.deck, 'labels': sorted(labels), 'tier': tier,
            'chain': max_chain, 'n_over': n_over}


@st.composite
def like_lattice_case(draw, tier='quick'):
    """LIKE n BUT where cell n is a LAT=1 cell filled with one universe:
    the copy is a lattice of its own, developed over the --lattice ranges
    given for ITS number, which differ from those of cell n."""
    b = gen_hier.Builder(draw, tier, {'lattice': False})
    d = draw
    world = b.add_surf('so', [7.0])
    s_hi = b.add_surf('px', [0.5])
    s_lo = b.add_surf('px', [-0.5])
    c1 = b.add_surf('rpp', [-3.2, 3.2, -2.5, -0.5, -1.0, 1.0])
    c2 = b.add_surf('rpp', [-3.2, 3.2, 0.5, 2.5, -1.0, 1.0])
    pin = b.add_surf('so', [d(st.sampled_from([0.3, 0.4]))])
    uf, ul1, ul2 = b.new_uid(), b.new_uid(), b.new_uid()
    m1, m2, m3 = b.material(), b.material(), b.material()
    n_id, l_id = b.new_cid(), b.new_cid()

    def rng():
        lo = d(st.integers(-2, 0))
        return (lo, lo + d(st.integers(0, 3)))
    r1 = rng()
    r2 = rng()
    if r2 == r1:
        r2 = (r1[0], r1[1] + 1)
    base = md.cell(n_id, 0, None, md.AND(md.S(-s_hi), md.S(s_lo)),
                   imp={'n': 1}, u=ul1,
                   fill={'u': uf, 'ranges': [list(r1)], 'univs': None,
                         'tr': None})
    base['lat'] = 1
    but = {'u': ul2}
    how = d(st.sampled_from(['u', 'u+fill', 'u+trcl']))
    if how == 'u+fill':
        but['fill'] = {'u': uf, 'ranges': [list(r2)], 'univs': None,
                       'tr': None}
    elif how == 'u+trcl':
        but['trcl'] = {'inline': md.trspec(
            [d(st.sampled_from([0.0, 0.25])), 0.0, 0.0], None, n_entries=3)}
    like = md.cell(l_id, 0, None, None, like={'base': n_id, 'but': but})
    cells = [md.cell(b.new_cid(), m1[0], m1[1], md.S(-pin), imp={'n': 1},
                     u=uf),
             md.cell(b.new_cid(), m2[0], m2[1], md.S(pin), imp={'n': 1},
                     u=uf),
             base, like]
    k1 = md.cell(b.new_cid(), 0, None, md.S(-c1), imp={'n': 1},
                 fill={'u': ul1, 'tr': None})
    k2 = md.cell(b.new_cid(), 0, None, md.S(-c2), imp={'n': 1},
                 fill={'u': ul2, 'tr': None})
    rest = md.cell(b.new_cid(), m3[0], m3[1],
                   md.AND(md.S(-world), md.S(c1), md.S(c2)), imp={'n': 1})
    gy = md.cell(b.new_cid(), 0, None, md.S(world), imp={'n': 0})
    cells += [k1, k2, rest, gy]
    if d(st.booleans()):
        cells = [cells[o] for o in d(st.permutations(list(range(len(cells)))))]
    b.deck['cells'] = cells
    opts = ['%d,%d:%d' % ((n_id,) + r1), '%d,%d:%d' % ((l_id,) + r2)]
    if d(st.booleans()):
        opts = opts[::-1]
    b.deck['lattice_opts'] = opts
    b.labels.update({'like', 'like:lattice-base', 'like:lattice:' + how})
    return {'deck': b.deck, 'labels': sorted(b.labels), 'tier': tier,
            'chain': 1, 'n_over': 2}


@st.composite
def with_imp_data_card(draw, base):
    """In one case out of three the importances move to an IMP:N data card
    (one entry per cell card, by position).  A LIKE cell has an entry of its
    own there, which need not be the entry of the cell it copies: the copied
    card has no IMP keyword to inherit."""
    case = draw(base)
    if draw(st.integers(0, 2)) != 0:
        return case
    deck = case['deck']
    cells = deck['cells']
    exp = {c['id']: c for c in md.expand_like(deck)['cells']}
    for c in cells:
        if set((exp[c['id']].get('imp') or {'n': 1}).keys()) != {'n'}:
            return case
        if c.get('like') and not [k for k in c['like']['but']
                                  if k not in ('imp', 'imp_groups')]:
            return case         # the BUT list would become empty
    vals = []
    for c in cells:
        v = float((exp[c['id']].get('imp') or {'n': 1})['n'])
        if c.get('like'):
            but = c['like']['but']
            if 'imp' in but:
                but.pop('imp')
                but.pop('imp_groups', None)
            else:
                v = float(draw(st.sampled_from([0, 1, 1, 2])))
        c['imp'] = None
        c.pop('imp_groups', None)
        vals.append(v)
    deck['imp_cards'] = {'n': {'values': vals}}
    case['labels'] = sorted(set(case['labels']) | {'imp:data-card'})
    return case


def strategy(tier):
    return with_imp_data_card(st.one_of(like_free_case(tier),
                                        like_free_case(tier),
                                        like_free_case(tier),
                                        like_free_case(tier),
                                        gen_hier.like_case(tier),
                                        gen_hier.like_case(tier),
                                        like_lattice_case(tier)))


def budget(tier):
    if tier == 'quick':
        return {'max_examples': 960, 'shards': 16, 'time_budget': 100}
    return {'max_examples': 48000, 'shards': 16, 'time_budget': 1500}


def render_case(case):
    return mr.render(case['deck'])


def sample_repr(case, out):
    like_cards = [l for l in mr.render(case['deck']).split('\n')
                  if ' like ' in l]
    return {'like_cards': like_cards[:6], 'labels': out.labels}


def check(case):
    deck = case['deck']
    labels = list(case['labels'])
    text_like = mr.render(deck)
    expanded = md.expand_like(deck)
    text_exp = mr.render(expanded)
    argv = mr.argv_of(deck)
    r_exp = conv.convert(text_exp, argv)
    r_like = conv.convert(text_like, argv)
    if not r_exp.ok:
        if r_like.ok:
            return violation('like-accepted-explicit-rejected',
                             {'error': r_exp.brief(), 'like_deck': text_like,
                              'expanded_deck': text_exp}, labels)
        return skip('explicit-deck-not-converted:%s' % r_exp.exc_type, labels)
    if not r_like.ok:
        return violation('like-rejected:%s' % r_like.crash_key(),
                         {'error': r_like.brief(), 'like_deck': text_like,
                          'expanded_deck': text_exp}, labels)
    what, detail = compare_outputs(r_exp.t4_text, r_like.t4_text)
    if what:
        return violation('like-differs:%s' % what,
                         {'detail': detail, 'like_deck': text_like,
                          'expanded_deck': text_exp}, labels)
    n_over = case.get('n_over')
    chain = case.get('chain')
    if n_over is None:
        likes = [c for c in deck['cells'] if c.get('like')]
        n_over = max(len(c['like']['but']) for c in likes)
        chain = 2 if 'like:chain' in labels else 1
    return ok(labels, n_over >= 2 or chain >= 2, sig=case_sig(text_like))
