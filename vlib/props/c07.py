"""C07 - hexagonal lattices follow MCNP's hexagonal index convention."""
import numpy as np
from hypothesis import strategies as st

from .. import gen_hier, mdeck as md, mrender as mr
from ..runner import ok, violation, case_sig
from .c05 import run_semantic, with_options
from .c06 import periodicity_mismatches

PID = 'C07'
LEVEL = 'exploration'
RULE = ('Generated LAT=2 unit prisms: centrally symmetric hexagons (regular '
        'or irregular) in a plane of any orientation, six or eight planes, '
        'first and third listed planes adjacent or next-adjacent, both '
        'orders of the fifth/sixth plane, plane normals of either sign, '
        'prism axis orthogonal or oblique to the hexagon plane, axial planes '
        'orthogonal or oblique to the axis; fills as for rectangular '
        'lattices (arrays over {0, own universe, others}, homogeneous fill '
        'with --lattice, fill transformations); lattice placed in a level-0 '
        'container with optional fill transformation / TRCL. Oracle: '
        'translations implied by the hexagon construction (a1 across the '
        'first-listed side, a2 across the third, a3 from the eighth to the '
        'seventh plane along the axis), element found by unit-prism '
        'membership; plus the reference-free periodicity relation for '
        'homogeneous fills. Non-trivial: irregular or tilted hexagon and >= '
        '3 elements hit; distinct = rendered deck + options.')
ASSUMPTIONS = [
    'hexagonal index convention of the MCNP manual as restated in the '
    'property (a1 across the first-listed plane, a2 across the third, a3 '
    'across the seventh)',
    'the neighbour of a centrally symmetric hexagon across the side with '
    'vertices va, vb is its translate by va + vb',
    'decidability rule |f| > 1e-6 * sum|terms|',
]


def strategy(tier):
    return with_options(st.one_of(gen_hier.hex_case(tier),
                                  gen_hier.hex_case(tier),
                                  gen_hier.hex_case(tier, periodic=True)))


def budget(tier):
    if tier == 'quick':
        return {'max_examples': 800, 'shards': 16, 'time_budget': 110}
    return {'max_examples': 24000, 'shards': 16, 'time_budget': 1800}


def render_case(case):
    return mr.render(case['deck']) + '\nc options: ' + \
        ' '.join(mr.argv_of(case['deck']))


def sample_repr(case, out):
    return {'deck': mr.render(case['deck']),
            'argv': mr.argv_of(case['deck']), 'labels': out.labels}


def check(case):
    labels = list(case['labels'])
    n_pairs = 0
    if 'periodic-setting' in labels:
        pm, n_pairs = periodicity_mismatches(case)
        if pm:
            return violation('hex:not-periodic',
                             {'mismatches': pm, 'deck': mr.render(case['deck']),
                              'argv': mr.argv_of(case['deck'])}, labels)
    cmp_, viol, counts = run_semantic(case, 'hex', check_comp=True)
    if viol is not None:
        return viol
    counts['periodicity_pairs'] = n_pairs or 0
    dec = cmp_.decided & cmp_.expected_in()
    elements = set()
    for i in np.nonzero(dec)[0]:
        for ent in cmp_.loc.chain[i] or ():
            if ent[0] == 'l':
                elements.add((ent[1], ent[2]))
    counts['lattice_elements_hit'] = len(elements)
    special = 'hex:irregular' in labels or 'hex:tilted' in labels
    deck = case['deck']
    return ok(labels, special and len(elements) >= 3,
              sig=case_sig([mr.render(deck), mr.argv_of(deck)]), counts=counts)
