"""C10 - material cards become compositions with the same nuclides and
amounts."""
from hypothesis import strategies as st

from .. import conv, mdeck as md, mrender as mr, semcheck, t4read
from ..runner import ok, violation, case_sig

PID = 'C10'
LEVEL = 'exploration'
RULE = ('Generated material cards (1-12 entries, Z in 1..118, A in {000, '
        '1..299}, ZAIDs with and without library suffix, keyword entries such '
        'as nlib=70c / gas=1 interleaved, fractions all positive or all '
        'negative in assorted spellings, plus mixed-sign cards) used by slab '
        'cells with mass (negative) or atom (positive) densities, up to three '
        'cells per card, some repeating a density in another spelling of the '
        'same number. Oracle: an '
        'independent periodic table; expected block = nuclides in order as '
        'SYMBOL+A or SYMBOL-NAT; mass density -> DENSITY |rho| with |fraction| '
        'as written and NB_ATOM iff the card is positive; atom density -> '
        'POINT_WISE concentrations proportional to the fractions and summing '
        'to rho (relative 1e-12); mixed signs -> the conversion must raise. '
        'Non-trivial: >= 2 nuclides and a suffix or keyword entry; distinct = '
        '(card text, density).')
ASSUMPTIONS = [
    'TRIPOLI-4 nuclide naming SYMBOL+A / SYMBOL-NAT and the DENSITY / '
    'POINT_WISE block layout are those the writer targets',
    'atom densities are only combined with atom-fraction cards (the converter '
    'documents mass fractions + atom density as unsupported and warns)',
    'amounts are compared numerically (Fortran spellings parsed by the '
    'harness), tolerance 1e-12 relative',
]

SYMBOLS = ('H HE LI BE B C N O F NE NA MG AL SI P S CL AR K CA SC TI V CR MN '
           'FE CO NI CU ZN GA GE AS SE BR KR RB SR Y ZR NB MO TC RU RH PD AG CD '
           'IN SN SB TE I XE CS BA LA CE PR ND PM SM EU GD TB DY HO ER TM YB LU '
           'HF TA W RE OS IR PT AU HG TL PB BI PO AT RN FR RA AC TH PA U NP PU '
           'AM CM BK CF ES FM MD NO LR RF DB SG BH HS MT DS RG CN NH FL MC LV '
           'TS OG').split()
assert len(SYMBOLS) == 118

FRACTIONS = ['1.0', '1', '0.5', '.5', '2', '0.25', '1e-3', '1E-3', '3.5e-2',
             '0.0786', '6.02e-1', '1.234567', '10', '0.7000', '2.50', '1.5-2',
             '4.d-1', '1.0e+0', '9-1', '5-2', '1+0', '25-2', '3E-1', '7d-1']
SUFFIXES = ['', '', '.70c', '.80c', '.31c', '.00c', '.50d']
KEYWORDS = ['nlib=70c', 'gas=1', 'estep=10', 'plib=04p', 'cond=1', 'hlib=24h',
            # the equals sign is a blank to MCNP
            'nlib = 70c', 'gas =1', 'estep= 10',
            # MCNP6 optical keywords: one, four and six values
            'refi=1.33', 'refc=1.32 0.0031 0 0', 'refs=0.7 0.4 0.9 0.0046 0.014 97.9']


@st.composite
def zaid(draw):
    z = draw(st.one_of(st.integers(1, 118), st.sampled_from([1, 6, 8, 13, 26,
                                                             92, 94, 100, 118])))
    a = draw(st.one_of(st.just(0), st.integers(1, 299),
                       st.sampled_from([1, 2, 12, 16, 27, 56, 235, 238])))
    return z, a, '%d%03d' % (z, a) + draw(st.sampled_from(SUFFIXES))


@st.composite
def material(draw, mid):
    n = draw(st.integers(1, 12))
    sign_mode = draw(st.sampled_from(['pos', 'pos', 'neg', 'neg', 'mixed']))
    entries = []
    nuclides = []
    labels = set()
    mixed_signs = None
    if sign_mode == 'mixed' and n >= 2:
        # any pattern with at least one entry of each sign (negative first,
        # positive first, a single odd one out anywhere, ...)
        mixed_signs = [draw(st.booleans()) for _ in range(n)]
        k = draw(st.integers(0, n - 1))
        mixed_signs[k] = not mixed_signs[(k + 1) % n]
    for q in range(n):
        if draw(st.integers(0, 7)) == 0:
            entries.append(draw(st.sampled_from(KEYWORDS)))
            labels.add('keyword-entry')
        z, a, text = draw(zaid())
        frac = draw(st.sampled_from(FRACTIONS))
        neg = sign_mode == 'neg' or (mixed_signs is not None
                                     and mixed_signs[q])
        spelled = ('-' + frac) if neg else frac
        entries.append((text, spelled))
        nuclides.append((z, a, frac, neg))
        if '.' in text:
            labels.add('zaid-suffix')
        if a == 0:
            labels.add('A=000')
        if z >= 100:
            labels.add('Z>=100')
        if a < 10 and a > 0:
            labels.add('A-leading-zeros')
        if any(ch in frac for ch in 'dD') or \
                (frac[-2:-1] in '+-' and frac[-1:].isdigit()):
            labels.add('fortran-fraction')
    if draw(st.integers(0, 5)) == 0:
        entries.append(draw(st.sampled_from(KEYWORDS)))
        labels.add('keyword-entry')
    signs = set(neg for _z, _a, _f, neg in nuclides)
    mixed = len(signs) == 2
    if mixed:
        labels.add('mixed-signs')
    elif True in signs:
        labels.add('mass-fractions')
    else:
        labels.add('atom-fractions')
    return {'id': mid, 'entries': entries, 'nuclides': nuclides,
            'mixed': mixed, 'negative': (True in signs and not mixed),
            'labels': sorted(labels)}


# other spellings of the same density value
SAME_VALUE = {
    '1.0': ['1', '1.', '1.00', '1e0', '1.0+0', '10-1', '0.1e1'],
    '2.7': ['2.70', '2.7e0', '27-1', '.27+1', '2.7d0'],
    '0.0602': ['6.02e-2', '.0602', '6.02-2', '0.06020'],
    '6.4e-2': ['0.064', '.064', '6.4-2', '64e-3', '6.40E-02'],
    '10.5': ['1.05e1', '10.50', '105-1', '1.05+1'],
    '1.2-3': ['1.2e-3', '0.0012', '.0012', '1.20-3'],
    '.5': ['0.5', '5-1', '5.0e-1', '0.50'],
}


@st.composite
def mat_case(draw, tier='quick'):
    n_mat = draw(st.integers(1, 3))
    mats = []
    mid = 0
    for _ in range(n_mat):
        mid += draw(st.integers(1, 40))
        mats.append(draw(material(mid)))
    # at most one mixed-sign card per deck and it comes alone (the run stops)
    cells = []
    x = -3.0
    cid = 0
    for m in mats:
        prev = None
        for _ in range(draw(st.integers(1, 3))):
            dens = draw(st.sampled_from(['1.0', '2.7', '0.0602', '6.4e-2',
                                         '10.5', '1.2-3', '.5']))
            atom = (not m['negative']) and (not m['mixed']) and \
                draw(st.booleans())
            if prev is not None and draw(st.booleans()):
                # the density of the previous cell with this material in
                # another spelling of the same number: one composition serves
                # both cells or each gets its own, but each gets one
                dens = draw(st.sampled_from(SAME_VALUE[prev[0]]))
                atom = prev[1]
                m['labels'] = sorted(set(m['labels'])
                                     | {'same-density-other-spelling'})
            else:
                prev = (dens, atom)
            spelled = dens if atom else '-' + dens
            cid += draw(st.integers(1, 9))
            cells.append({'id': cid, 'mat': m['id'], 'rho': spelled})
    return {'mats': mats, 'cells': cells, 'tier': tier}


def strategy(tier):
    return mat_case(tier)


def budget(tier):
    if tier == 'quick':
        return {'max_examples': 2400, 'shards': 16, 'time_budget': 100}
    return {'max_examples': 120000, 'shards': 16, 'time_budget': 1500}


def build_deck(case):
    d = md.new_deck()
    n = len(case['cells'])
    for q in range(n + 1):
        d['surfaces'].append(md.surf(q + 1, 'px', [float(q)]))
    for q, c in enumerate(case['cells']):
        d['cells'].append(md.cell(c['id'], c['mat'], c['rho'],
                                  md.AND(md.S(q + 1), md.S(-(q + 2))),
                                  imp={'n': 1}))
    gid = max(c['id'] for c in case['cells']) + 1
    d['cells'].append(md.cell(gid, 0, None, md.OR(md.S(-1), md.S(n + 1)),
                              imp={'n': 0}))
    d['materials'] = [{'id': m['id'], 'entries': m['entries']}
                      for m in case['mats']]
    return d


def render_case(case):
    return mr.render(build_deck(case))


def sample_repr(case, out):
    txt = render_case(case)
    return {'data_cards': txt.split('\n\n')[-1].strip(),
            'cells': [(c['id'], c['mat'], c['rho']) for c in case['cells']],
            'labels': out.labels}


def expected_nuclide(z, a):
    return SYMBOLS[z - 1] + ('-NAT' if a == 0 else str(a))


def check(case):
    text = render_case(case)
    labels = sorted(set(l for m in case['mats'] for l in m['labels']))
    any_mixed = any(m['mixed'] for m in case['mats'])
    res = conv.convert(text)
    if any_mixed:
        if res.ok:
            return violation('mixed-signs-accepted', {'deck': text}, labels)
        return ok(labels + ['rejected-mixed'], True, sig=case_sig(text))
    if not res.ok:
        return violation('crash:%s' % res.crash_key(),
                         {'error': res.brief(), 'deck': text}, labels)
    t4 = t4read.parse(res.t4_text)
    issues = t4read.validate(t4)
    if issues:
        return violation('structural:%s' % issues[0][0],
                         {'issues': issues[:5], 'deck': text}, labels)
    comp_of = t4.comp_of_volume()
    blocks = {c.name: c for c in t4.compos}
    mats = {m['id']: m for m in case['mats']}
    for c in case['cells']:
        names = comp_of.get(c['id'], [])
        if len(names) != 1 or names[0] not in blocks:
            return violation('no-composition-for-cell',
                             {'cell': c, 'names': names, 'deck': text}, labels)
        blk = blocks[names[0]]
        m = mats[c['mat']]
        rho = semcheck.parse_real(c['rho'])
        prob = compare_block(blk, m, rho)
        if prob:
            return violation('composition:%s' % prob[0],
                             {'problem': prob[1], 'cell': c,
                              'block': {'kind': blk.kind, 'name': blk.name,
                                        'density': blk.density,
                                        'nb_atom': blk.nb_atom,
                                        'nuclides': blk.nuclides},
                              'deck': text}, labels)
    nontrivial = any(len(m['nuclides']) >= 2
                     and ('zaid-suffix' in m['labels']
                          or 'keyword-entry' in m['labels'])
                     for m in case['mats'])
    return ok(labels, nontrivial, sig=case_sig(text),
              counts={'cards': len(case['mats']),
                      'blocks_checked': len(case['cells'])})


def compare_block(blk, m, rho):
    want_names = [expected_nuclide(z, a) for z, a, _f, _n in m['nuclides']]
    got_names = [n for n, _a in blk.nuclides]
    if got_names != want_names:
        return ('nuclides', 'expected %r, got %r' % (want_names, got_names))
    fr = [semcheck.parse_real(f) for _z, _a, f, _n in m['nuclides']]
    try:
        got = [semcheck.parse_real(a) for _n, a in blk.nuclides]
    except ValueError as err:
        return ('amount-spelling', str(err))
    if rho < 0:
        if blk.kind != 'DENSITY':
            return ('kind', 'mass density must give a DENSITY block')
        if abs(semcheck.parse_real(blk.density) - abs(rho)) > 1e-12 * abs(rho):
            return ('density', 'expected %r got %r' % (abs(rho), blk.density))
        for w, g in zip(fr, got):
            if abs(w - g) > 1e-12 * max(abs(w), 1e-300):
                return ('fractions', 'expected %r got %r' % (fr, got))
        if blk.nb_atom != (not m['negative']):
            return ('nb_atom', 'NB_ATOM %r for a card with %s fractions'
                    % (blk.nb_atom, 'negative' if m['negative'] else 'positive'))
        return None
    if blk.kind != 'POINT_WISE':
        return ('kind', 'atom density must give a POINT_WISE block')
    tot = sum(fr)
    if tot == 0:
        return None
    for w, g in zip(fr, got):
        want = w / tot * rho
        if abs(want - g) > 1e-12 * max(abs(want), 1e-300) + 1e-300:
            return ('concentrations', 'expected %r got %r'
                    % ([f / tot * rho for f in fr], got))
    if abs(sum(got) - rho) > 1e-12 * abs(rho):
        return ('sum', 'concentrations sum to %r, density %r' % (sum(got), rho))
    return None
