"""C02 - elementary surfaces keep their locus and their sense."""
import numpy as np
from hypothesis import strategies as st

from .. import (conv, gen, layouts, mdeck as md, mgeom, mrender as mr,
                semcheck, t4eval)
from ..runner import ok, violation, case_sig

PID = 'C02'
LEVEL = 'exploration'
RULE = ('One generated surface card per case (every mnemonic of the '
        'statement: P with 4 and 9 entries incl. the D=0/C=0/B=0 tie-break '
        'cases, PX/PY/PZ, SO/S/SX/SY/SZ, C/X.. and CX.., K/X.. and KX.. with '
        'sheet -1/+1/absent, SQ, GQ, TX/TY/TZ circular and elliptic, X/Y/Z '
        'with one pair and with two pairs in the plane/cylinder/cone '
        'outcomes) in a deck with the probe cells -s and +s. Oracles: (a) '
        'sense on uniform and bisected near-surface points, (b) the two '
        'probes are disjoint and cover space, (c) randomized polynomial '
        'identity g_T4 = c * f_MCNP (c of the sign required by the probe '
        'lists) on >= 40 generic points. Non-trivial: both probes received '
        'decided points and the card has an offset or non-unit coefficient; '
        'distinct = (mnemonic, parameter vector).')
ASSUMPTIONS = [
    'MCNP surface equations as printed in the manual (DESIGN 4.2)',
    'TRIPOLI-4 surface keyword meanings (DESIGN 4.1)',
    'SQ cards whose function is positive at their centre: only the locus is '
    'checked (either orientation accepted), counted as ambiguous_reference',
    'decidability rule |f| > 1e-6 * sum|terms|; identity tolerance 1e-7 '
    'relative',
]

KINDS = gen.ELEMENTARY


@st.composite
def card_case(draw, tier='quick'):
    kind = draw(st.sampled_from(KINDS))
    wide = tier != 'quick' and draw(st.booleans())
    k, p, labels = draw(gen.elementary_params(kind, wide))
    sid = draw(st.sampled_from([1, 7, 42, 999]))
    # optionally a second, unrelated surface card with the next number,
    # written before or after the card under test (card order and numbering
    # are free in MCNP)
    crowd = draw(st.sampled_from([None, None, 'before', 'after']))
    if crowd:
        labels = list(labels) + ['crowded:' + crowd]
    # the numbers of the card in one of the spellings MCNP reads (Fortran
    # reals: 2.5+1, -2.5d0, .5, 5., 1E+00): the surface is the same
    spell = draw(st.sampled_from([None, None, None] + list(range(1, 40))))
    if spell is not None:
        labels = list(labels) + ['spelled-numbers']
    return {'kind': k, 'params': p, 'sid': sid, 'labels': sorted(labels),
            'spell': spell,
            'pseed': draw(st.integers(0, 2 ** 31 - 1)), 'gen': kind,
            'tier': tier, 'crowd': crowd}


def strategy(tier):
    return card_case(tier)


def budget(tier):
    if tier == 'quick':
        return {'max_examples': 3200, 'shards': 16, 'time_budget': 100}
    return {'max_examples': 160000, 'shards': 16, 'time_budget': 1500}


def spell_params(params, k):
    """Other spellings of the same numbers (checked to denote exactly the
    same value by the harness' own reader of MCNP reals)."""
    out = []
    for q, v in enumerate(params):
        text = mr.fnum(v)
        kk = k + q
        style = kk % 4
        new = text
        if style == 1:
            new = layouts.respell_fortran(text, kk // 4)
        elif style == 2:
            new = layouts.respell_python(text, kk // 4)
        elif style == 3 and v != 0:
            mant, _, exp = ('%.16e' % float(v)).partition('e')
            mant = mant.rstrip('0')
            if mant.endswith('.') and (kk // 4) % 2:
                mant += '0'
            new = mant + '%+d' % int(exp)
        try:
            if layouts.parse_real(new) != float(v):
                new = text
        except ValueError:
            new = text
        out.append(new)
    return out


def build_deck(case):
    d = md.new_deck()
    sid = case['sid']
    d['surfaces'].append(md.surf(sid, case['kind'], case['params']))
    if case.get('spell') is not None:
        d['surfaces'][0]['spelled'] = spell_params(case['params'],
                                                   case['spell'])
    crowd = case.get('crowd')
    if crowd:
        # a far-away sphere: cell 2 excludes it, cell 3 is its inside
        other = md.surf(sid + 1, 's', [60.0, 60.0, 60.0, 1.0])
        if crowd == 'before':
            d['surfaces'].insert(0, other)
        else:
            d['surfaces'].append(other)
        d['cells'].append(md.cell(1, 0, None, md.AND(md.S(-sid),
                                                     md.S(sid + 1)),
                                  imp={'n': 1}))
        d['cells'].append(md.cell(2, 0, None, md.AND(md.S(sid),
                                                     md.S(sid + 1)),
                                  imp={'n': 1}))
        d['cells'].append(md.cell(3, 0, None, md.S(-(sid + 1)),
                                  imp={'n': 1}))
        return d
    d['cells'].append(md.cell(1, 0, None, md.S(-sid), imp={'n': 1}))
    d['cells'].append(md.cell(2, 0, None, md.S(sid), imp={'n': 1}))
    return d


def render_case(case):
    return mr.render(build_deck(case))


def sample_repr(case, out):
    s = build_deck(case)['surfaces'][0]
    return {'card': ' '.join(str(x) for x in [s['id'], s['kind']] + s['params']),
            'labels': out.labels}


def check(case):
    deck = build_deck(case)
    text = mr.render(deck)
    labels = ['kind:' + case['gen']] + list(case['labels'])
    ambiguous = 'sq:positive-at-centre' in case['labels']
    locator = md.Locator(deck)
    box = semcheck.deck_box(deck)
    n_pts = 160 if case.get('tier') == 'quick' else 600
    P = semcheck.make_points(locator, case['pseed'], n_pts, box)
    res = conv.convert(text)
    if not res.ok:
        return violation('crash:%s:kind=%s' % (res.crash_key(), case['gen']),
                         {'error': res.brief(), 'deck': text}, labels)
    t4, issues = semcheck.parse_and_validate(res)
    if issues:
        return violation('structural:%s' % issues[0][0],
                         {'issues': issues[:5], 'deck': text}, labels)
    cmp_ = semcheck.Comparison(deck, t4, P, locator)
    counts = {'points': len(P), 'points_decided': int(cmp_.decided.sum()),
              'points_undecided': int((~cmp_.decided).sum())}
    dec = cmp_.decided
    in1 = cmp_.ev.in_volume(1) if 1 in t4.volus else np.zeros(len(P), bool)
    in2 = cmp_.ev.in_volume(2) if 2 in t4.volus else np.zeros(len(P), bool)
    neg = cmp_.loc.owner == 1
    if case.get('crowd'):
        # points inside the far-away extra sphere belong to cell 3
        dec = dec & (cmp_.loc.owner != 3)
    tag = 'kind=%s' % case['gen']
    if 'one-sheet-cone' in case['labels']:
        tag += ',one-sheet'
    if ambiguous:
        counts['ambiguous_reference'] = 1
        same = np.array_equal(in1[dec], neg[dec]) and \
            np.array_equal(in2[dec], ~neg[dec])
        swapped = np.array_equal(in1[dec], ~neg[dec]) and \
            np.array_equal(in2[dec], neg[dec])
        if not (same or swapped):
            return violation('locus:%s' % tag, {'deck': text}, labels,
                             counts=counts)
        return ok(labels, False, counts=counts)
    bad = np.nonzero(dec & ((in1 != neg) | (in2 != ~neg)))[0]
    if len(bad):
        wit = []
        for i in bad[:4]:
            w = cmp_.witness('sense', i)
            w['in_minus_probe'] = bool(in1[i])
            w['in_plus_probe'] = bool(in2[i])
            wit.append(w)
        return violation('sense:%s' % tag, {'mismatches': wit, 'deck': text},
                         labels, counts=counts)
    # (c) polynomial identity
    ident = identity_check(case, deck, t4, box)
    if ident is not None:
        return violation('identity:%s' % tag, dict(ident, deck=text), labels,
                         counts=counts)
    both = bool((dec & neg).any()) and bool((dec & ~neg).any())
    plain = all(v in (0.0, 1.0, -1.0) for v in case['params'])
    sig = case_sig([case['kind'], case['params']])
    return ok(labels, both and not plain, sig=sig, counts=counts)


def identity_check(case, deck, t4, box):
    """g_T4 / f_MCNP must be one constant over generic points, with the sign
    the probe volume requires."""
    sid = case['sid']
    rng = np.random.Generator(np.random.PCG64(case['pseed'] + 1))
    Q = rng.uniform(-box, box, (60, 3))
    f, s, cone = mgeom.surface_fs(case['kind'], case['params'], Q)
    if sid not in t4.surfs:
        return {'problem': 'surface %d not written' % sid}
    g, gs = t4eval.surf_value(t4.surfs[sid], Q)
    good = (np.abs(f) > 1e-3 * s) & (np.abs(g) > 1e-3 * gs)
    if good.sum() < 10:
        return None
    ratio = g[good] / f[good]
    r0 = np.median(ratio)
    if r0 == 0 or np.max(np.abs(ratio - r0)) > 1e-7 * abs(r0):
        return {'problem': 'T4 surface function is not a constant multiple '
                'of the MCNP function', 'ratios': [float(v) for v in ratio[:6]]}
    if cone is not None and cone[3]:
        # one-sheet cone: the auxiliary plane must be the plane through the
        # apex orthogonal to the axis
        apex, u = cone[0], cone[1]
        aux = [ts for ts in t4.surfs.values()
               if 'aux plane for cone' in ts.comment and ts.params is not None]
        if len(aux) != 1:
            return {'problem': 'expected exactly one auxiliary apex plane, '
                    'found %d' % len(aux)}
        ga, gas = t4eval.surf_value(aux[0], Q)
        fa = (Q - apex) @ u
        fas = np.abs(Q) @ np.abs(u) + abs(apex @ u) + 1e-300
        good_a = (np.abs(fa) > 1e-3 * fas) & (np.abs(ga) > 1e-3 * gas)
        if good_a.sum() >= 10:
            ra = ga[good_a] / fa[good_a]
            ra0 = np.median(ra)
            if ra0 == 0 or np.max(np.abs(ra - ra0)) > 1e-7 * abs(ra0):
                return {'problem': 'the auxiliary plane of the one-sheet cone '
                        'is not the plane through the apex orthogonal to the '
                        'axis', 'ratios': [float(v) for v in ra[:6]]}
    vol = t4.volus.get(1)
    if vol is not None:
        if sid in vol.minus and r0 < 0:
            return {'problem': 'negative probe lists the surface under MINUS '
                    'but the T4 function has the opposite sign'}
        if sid in vol.plus and r0 > 0:
            return {'problem': 'negative probe lists the surface under PLUS '
                    'but the T4 function has the same sign'}
    return None
