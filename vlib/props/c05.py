"""C05 - universes and FILL: points are located through the hierarchy."""
import numpy as np
from hypothesis import strategies as st

from .. import conv, gen_hier, mdeck as md, mrender as mr, semcheck
from ..runner import ok, violation, case_sig

PID = 'C05'
LEVEL = 'exploration'
RULE = ('Generated universe trees (depth 1-3, thorough 4; every universe a '
        'partition by construction with its own materials; containers at '
        'every level; universes reused by several containers; fill '
        'transformation spellings fill=u, fill=u (n), inline 3 and 12 '
        'entries, *fill with degrees; containers with and without TRCL). '
        'Every decided point must lie in exactly one volume whose comment '
        'lists (owning filler cell, container) pairs from the innermost '
        'container outwards, or in no volume when no non-zero-importance '
        'filler cell covers it. Non-trivial: depth >= 2 or a reused '
        'universe, decided points hit >= 2 filler cells in >= 2 containers; '
        'distinct = rendered deck.')
ASSUMPTIONS = [
    'FILL frame rule of the statement: fill transformation if written, else '
    'the container TRCL, else identity (DESIGN 4.2)',
    'cell complements #n are not moved by the TRCL of the referencing cell '
    '(behaviour validated upstream on trcl_complement*.imcnp)',
    'lattices are excluded here (C06/C07)',
    'a fill transformation whose matrix is a reflection (twin-fill decks '
    'only) is read as written, a = B (p - o): the universe appears mirrored',
    'decidability rule |f| > 1e-6 * sum|terms|',
]


@st.composite
def with_options(draw, base):
    """The hierarchy semantics must hold under every conversion option: half
    of the cases run with defaults, the others with a drawn option set."""
    case = draw(base)
    argv = []
    if draw(st.booleans()):
        for flag in ('--skip-deduplication', '--always-inline-filling',
                     '--always-inline-filled'):
            if draw(st.booleans()):
                argv.append(flag)
        score = draw(st.sampled_from([None, '-1', '0', '0.5', '2', '1e9']))
        if score is not None:
            argv += ['--max-inline-score', score]
    case['argv_extra'] = argv
    case['labels'] = sorted(set(case['labels'])
                            | set('opt:' + a for a in argv
                                  if a.startswith('--')))
    return case


def u_fill_as_data_cards(case):
    """Rewrite the U= and FILL= cell parameters as the data cards U and FILL
    (one entry per cell, in the order of the cell cards; 0 = none), the other
    form MCNP accepts for cell parameters.  Only for decks whose fills have no
    transformation and no array."""
    deck = case['deck']
    cells = deck['cells']
    if any(c.get('lat') or c.get('like') is not None for c in cells):
        return case
    if any(c.get('fill') and (c['fill'].get('tr') is not None
                              or c['fill'].get('univs') is not None)
           for c in cells):
        return case
    if not any(c.get('u') for c in cells):
        return case
    for c in cells:
        c['params_in_data'] = True
    deck['extra_data'] = list(deck.get('extra_data') or []) + [
        'u ' + ' '.join(str(c.get('u') or 0) for c in cells),
        'fill ' + ' '.join(str(c['fill']['u']) if c.get('fill') else '0'
                           for c in cells)]
    case['labels'] = sorted(set(case['labels']) | {'u-fill-data-cards'})
    return case


def strategy(tier):
    from hypothesis import strategies as st
    hier = gen_hier.hier_case(tier, {'lattice': False, 'surface_tr': True})
    # one universe placed in several containers under related
    # transformations (equal, turned, mirrored): every copy is located
    # through its own frame
    plain = gen_hier.hier_case(tier, {'lattice': False, 'no_fill_tr': True})
    return with_options(st.one_of(hier, hier, hier, hier, hier, hier, hier,
                                  hier, hier, hier, hier, hier, hier, hier,
                                  plain.map(u_fill_as_data_cards),
                                  gen_hier.twin_fill_case(tier, mirrors=True),
                                  gen_hier.twin_fill_case(tier, mirrors=True),
                                  gen_hier.twin_fill_case(tier, mirrors=True),
                                  gen_hier.neg_universe_case(tier),
                                  gen_hier.facet_fill_case(tier)))


def budget(tier):
    if tier == 'quick':
        return {'max_examples': 800, 'shards': 16, 'time_budget': 110}
    return {'max_examples': 32000, 'shards': 16, 'time_budget': 1800}


def render_case(case):
    return mr.render(case['deck'])


def sample_repr(case, out):
    return {'deck': render_case(case), 'labels': out.labels}


def run_semantic(case, prefix, check_prov=True, check_comp=False, argv=()):
    """Shared by C05/C06/C09: convert, compare, return (outcome-ish tuple)."""
    deck = case['deck']
    text = mr.render(deck)
    labels = list(case['labels'])
    locator = md.Locator(deck)
    n_pts = 260 if case.get('tier') == 'quick' else 1200
    P = semcheck.make_points(locator, case['pseed'], n_pts, case['box'])
    argv = list(argv) + list(case.get('argv_extra') or [])
    res = conv.convert(text, mr.argv_of(deck, argv))
    if not res.ok:
        loc = locator.locate(P)
        if res.exc_type == 'ValueError' and 'empty' in (res.exc_msg or '') \
                and not ((loc.count == 1) & ~loc.dead & ~loc.undec).any():
            from ..runner import skip
            return None, skip('degenerate:nothing-to-convert', labels), None
        if 'u-fill-data-cards' in labels and \
                res.exc_type == 'NotImplementedError' and \
                'data cards are not supported' in (res.exc_msg or ''):
            # the data-card form of U / FILL is refused with an error that
            # names it: unsupported input stops the run (what must not happen
            # is a conversion that silently ignores the cards)
            from ..runner import skip
            return None, skip('refused:cell-parameter-data-cards', labels), None
        return None, violation('crash:%s' % res.crash_key(),
                               {'error': res.brief(), 'frames': res.frames,
                                'deck': text, 'argv': mr.argv_of(deck, argv)},
                               labels), None
    t4, issues = semcheck.parse_and_validate(res)
    if issues:
        return None, violation('structural:%s' % issues[0][0],
                               {'issues': issues[:5], 'deck': text}, labels), None
    cmp_ = semcheck.Comparison(deck, t4, P, locator)
    counts = {'points': len(P), 'points_decided': int(cmp_.decided.sum()),
              'points_undecided': int((~cmp_.decided).sum())}
    if counts['points_decided'] < 0.9 * len(P):
        from ..runner import HarnessError
        raise HarnessError('only %d of %d points decided: the model or the '
                           'generator is at fault, not the converter\n%s'
                           % (counts['points_decided'], len(P), text))
    tags = sorted(l for l in labels if l in ('lat+rotfill', 'lat+trcl'))
    mism = cmp_.basic_mismatches()
    if mism:
        return cmp_, violation('%s:%s:%s' % (prefix, mism[0]['kind'],
                                             ','.join(tags)),
                               {'mismatches': mism, 'deck': text,
                                'argv': mr.argv_of(deck, argv)},
                               labels, counts=counts), counts
    hm = semcheck.hierarchy_mismatches(cmp_, deck, check_prov, check_comp)
    if hm:
        return cmp_, violation('%s:provenance:%s' % (prefix, ','.join(tags)),
                               {'mismatches': hm, 'deck': text,
                                'argv': mr.argv_of(deck, argv)},
                               labels, counts=counts), counts
    return cmp_, None, counts


def check(case):
    cmp_, viol, counts = run_semantic(case, 'fill')
    if viol is not None:
        return viol
    labels = list(case['labels'])
    deck = case['deck']
    dec = cmp_.decided & cmp_.expected_in()
    fillers = set()
    containers = set()
    for i in np.nonzero(dec)[0]:
        ch = cmp_.loc.chain[i]
        if ch:
            fillers.add(int(cmp_.loc.owner[i]))
            containers.add(ch)
    depth = max((len(ch) for ch in containers), default=0)
    nontrivial = (depth >= 2 or 'universe-reused' in labels) and \
        len(fillers) >= 2 and len(containers) >= 2
    return ok(labels, nontrivial, sig=case_sig(mr.render(deck)),
              counts=counts)
