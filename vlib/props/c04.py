"""C04 - coordinate transformations move surfaces and cells by the MCNP rigid
motion."""
import numpy as np
from hypothesis import strategies as st

from .. import conv, gen, mdeck as md, mgeom, mrender as mr, semcheck
from ..runner import ok, violation, case_sig

PID = 'C04'
LEVEL = 'exploration'
RULE = ('Base object (any elementary surface incl. one-sheet cones and tori, '
        'any macrobody incl. single facets n.k, or a 1-3 surface cell) x '
        'rigid motion (generic, axis '
        'permutation, axis flip, rotation about one axis, small angle, '
        'translation only) x spelling: surface-card transformation number '
        'with TRn / *TRn of 3, 12 or 13 (m=1) entries and abbreviated '
        'matrices (two rows, two columns, one row + one column, J '
        'placeholders); TRCL=n; inline TRCL=( ) and *TRCL=( ) with 3, 12 or '
        '13 entries; implicit surface numbers 1000*cell+surface used by '
        'another cell; one card written twice under two transformation numbers '
        '(same displacement, same rotation, unrelated). Oracle: a point '
        'belongs to the converted object iff '
        'its image under the inverse motion belongs to the base object '
        '(DESIGN 4.2), on uniform + bisected near-boundary points. '
        'Non-trivial: rotation not the identity and displacement not zero, '
        'both sides of the object hit; distinct = rendered deck.')
ASSUMPTIONS = [
    'TR semantics of the MCNP manual: displacement = auxiliary origin in the '
    'main frame, B1..B3 = cosines of x\' with x, y, z (DESIGN 4.2)',
    'abbreviated matrices are generated on TR cards only, by blanking entries '
    'of a proper rotation: the expected completion is that rotation',
    'SQ positive at its centre is not generated (ambiguous reference)',
    'decidability rule |f| > 1e-6 * sum|terms|',
]

MODES = ['surf-tr', 'surf-tr', 'trcl-num', 'trcl-inline', 'trcl-inline',
         'implicit', 'surf-tr+trcl', 'twins']
SURF_KINDS = gen.ELEMENTARY
ROT_ALL = ('generic', 'perm', 'flip', 'small', 'identity', 'axis')


AXIAL_KINDS = ['tx', 'ty', 'tz', 'k/x', 'k/y', 'k/z', 'kx', 'ky', 'kz',
               'c/x', 'c/y', 'c/z', 'cx', 'cy', 'cz', 'x', 'y', 'z']


@st.composite
def base_surface(draw, sid, allow_macro=True, focus=None):
    if focus == 'axis':
        kind = draw(st.sampled_from(AXIAL_KINDS))
        k, p, lab = draw(gen.elementary_params(kind))
        return md.surf(sid, k, p), ['kind:' + kind] + lab
    if focus == 'special':
        # kinds with a code path of their own under a transformation
        kind = draw(st.sampled_from(['sq', 'sq', 'gq', 'kx', 'k/y', 'tz', 'x',
                                     'p3']))
        k, p, lab = draw(gen.elementary_params(kind))
        if 'sq:positive-at-centre' in lab:
            p[6] = -abs(p[6])
            lab = [q for q in lab if q != 'sq:positive-at-centre']
        return md.surf(sid, k, p), ['kind:' + kind] + lab
    if allow_macro and draw(st.integers(0, 3)) == 0:
        kind = draw(st.sampled_from(gen.MACROS))
        k, p, lab = draw(gen.macro_params(kind))
        lab = ['macro:' + kind] + [q for q in lab if not q.startswith('rot:')]
    else:
        kind = draw(st.sampled_from(SURF_KINDS))
        k, p, lab = draw(gen.elementary_params(kind))
        if 'sq:positive-at-centre' in lab:
            p[6] = -abs(p[6])
            lab = [q for q in lab if q != 'sq:positive-at-centre']
        lab = ['kind:' + kind] + lab
    return md.surf(sid, k, p), lab


@st.composite
def tr_case(draw, tier='quick', focus=None):
    """focus='axis': axisymmetric surfaces under motions that keep them
    axis-aligned (permutations, flips, rotations about one axis) - the
    converter re-classifies those frames with special cases."""
    if focus is None and draw(st.integers(0, 5)) == 0:
        focus = 'axis'
    mode = draw(st.sampled_from(MODES))
    labels = ['mode:' + mode]
    rot_cls = ('perm', 'flip', 'flip', 'axis') if focus == 'axis' else None
    if focus:
        labels.append('focus:' + focus)
    deck = md.new_deck()
    if mode == 'surf-tr':
        spec, lab = draw(gen.tr_spec(rot_classes=rot_cls))
        labels += lab
        trn = draw(st.sampled_from([1, 3, 17, 148]))
        deck['transforms'].append({'id': trn, 'spec': spec})
        s, lab = draw(base_surface(draw(st.sampled_from([1, 8, 77])),
                                   focus=focus))
        labels += lab
        s['tr'] = trn
        deck['surfaces'].append(s)
        sid = s['id']
        deck['cells'].append(md.cell(1, 0, None, md.S(-sid), imp={'n': 1}))
        deck['cells'].append(md.cell(2, 0, None, md.S(sid), imp={'n': 1}))
    elif mode == 'twins':
        # one card written twice under two transformation numbers (an object
        # replicated at two places): each copy is moved by its own card, also
        # when the two motions share their displacement or their rotation
        spec1, lab1 = draw(gen.tr_spec(rot_classes=rot_cls,
                                       translation_only_weight=0))
        spec2, lab2 = draw(gen.tr_spec(rot_classes=rot_cls,
                                       translation_only_weight=0))
        rel = draw(st.sampled_from(['same-disp', 'zero-disp', 'same-rot',
                                    'free']))
        if rel == 'same-disp':
            spec2['o'] = list(spec1['o'])
        elif rel == 'zero-disp':
            spec1['o'] = [0.0, 0.0, 0.0]
            spec2['o'] = [0.0, 0.0, 0.0]
        elif rel == 'same-rot':
            spec2 = dict(spec1, o=spec2['o'])
        labels += lab1 + ['twins:' + rel]
        t1, t2 = draw(st.sampled_from([(1, 2), (7, 3), (20, 148)]))
        deck['transforms'].append({'id': t1, 'spec': spec1})
        deck['transforms'].append({'id': t2, 'spec': spec2})
        if draw(st.integers(0, 2)) == 0:
            # tori are the one kind written with a TRANSFORM block
            kind = draw(st.sampled_from(['tx', 'ty', 'tz']))
            k, p, lab = draw(gen.elementary_params(kind))
            sa = md.surf(draw(st.sampled_from([1, 8, 77])), k, p)
            lab = ['kind:' + kind] + lab
            if draw(st.booleans()):
                # centred on the origin of its own frame and turned about it:
                # the two copies differ by their orientation only
                sa['params'][0:3] = [0.0, 0.0, 0.0]
                spec1['o'] = [0.0, 0.0, 0.0]
                spec2['o'] = [0.0, 0.0, 0.0]
                labels.append('twins:centred-torus')
        else:
            sa, lab = draw(base_surface(draw(st.sampled_from([1, 8, 77])),
                                        focus=focus))
        labels += lab
        sb = md.surf(sa['id'] + draw(st.sampled_from([1, 5])), sa['kind'],
                     list(sa['params']))
        sa['tr'] = t1
        sb['tr'] = t2
        deck['surfaces'] += [sa, sb]
        a, b = sa['id'], sb['id']
        deck['cells'].append(md.cell(1, 0, None, md.S(-a), imp={'n': 1}))
        deck['cells'].append(md.cell(2, 0, None, md.AND(md.S(a), md.S(-b)),
                                     imp={'n': 1}))
        deck['cells'].append(md.cell(3, 0, None, md.AND(md.S(a), md.S(b)),
                                     imp={'n': 1}))
        if draw(st.booleans()):
            deck['surfaces'].reverse()
    else:
        n_s = draw(st.sampled_from([1, 1, 2, 3]))
        sids = []
        sid = 0
        for _ in range(n_s):
            sid += draw(st.integers(1, 9))
            s, lab = draw(base_surface(sid, focus=focus))
            labels += lab
            deck['surfaces'].append(s)
            sids.append(sid)
        # facets of the macrobodies may be referenced individually (n.k),
        # except in the implicit-number mode (1000*cell+surface.k is not a
        # form the statement names)
        fcounts = None
        if mode != 'implicit':
            fcounts = {s_['id']: mgeom.n_facets(s_['kind'], s_['params'])
                       for s_ in deck['surfaces']
                       if s_['kind'].lower() in mgeom.MACRO_KINDS}
        if n_s == 1:
            expr = draw(gen.leaf(sids, fcounts))
        else:
            expr = draw(gen.expression(sids, 2, fcounts, compl_ok=False))
        if "'f'" in repr(expr):
            labels.append('facet-reference')
        cid = draw(st.sampled_from([1, 4, 30, 999]))
        if mode == 'trcl-num' or (mode == 'surf-tr+trcl'
                                  and draw(st.booleans())):
            spec, lab = draw(gen.tr_spec(rot_classes=rot_cls))
            trn = draw(st.sampled_from([1, 2, 25]))
            deck['transforms'].append({'id': trn, 'spec': spec})
            ref = {'num': trn}
        else:
            spec, lab = draw(gen.tr_spec(allow_abbrev=False,
                                         rot_classes=rot_cls))
            ref = {'inline': spec}
            if mode == 'implicit' and draw(st.booleans()):
                trn = draw(st.sampled_from([1, 2, 25]))
                deck['transforms'].append({'id': trn, 'spec': spec})
                ref = {'num': trn}
        labels += lab
        if mode == 'surf-tr+trcl':
            # one of the surfaces also carries its own transformation: the
            # two motions compose (surface moved first, then the cell)
            if 'num' in ref and draw(st.booleans()):
                # the surface card and the cell use the same TR card (the
                # surface is moved twice by the same motion)
                deck['surfaces'][0]['tr'] = ref['num']
                labels.append('same-tr-for-surface-and-cell')
            else:
                spec_s, lab_s = draw(gen.tr_spec())
                trn_s = 40 + draw(st.integers(1, 9))
                deck['transforms'].append({'id': trn_s, 'spec': spec_s})
                deck['surfaces'][0]['tr'] = trn_s
                labels += ['surf:' + l for l in lab_s]
        deck['cells'].append(md.cell(cid, 0, None, expr, imp={'n': 1},
                                     trcl=ref))
        other = cid + draw(st.sampled_from([1, 7]))
        if mode == 'implicit':
            neg = gen.push_not(expr, True)
            neg = _renumber(neg, cid)
            if draw(st.booleans()):
                # a user surface numbered just below the implicit numbers
                # 1000*cell+surface (numbers the converter generates for
                # transformed surfaces must not land on them)
                big = 1000 * cid + min(sids) - draw(st.integers(1, 3))
                if big > max(sids) and all(s_['id'] != big
                                           for s_ in deck['surfaces']):
                    deck['surfaces'].append(md.surf(big, 'px', [-60.0]))
                    neg = md.AND(neg, md.S(big)) if neg[0] != '&' \
                        else neg + [md.S(big)]
                    labels.append('explicit-id-below-implicit')
            deck['cells'].append(md.cell(other, 0, None, neg, imp={'n': 1}))
        else:
            deck['cells'].append(md.cell(other, 0, None, md.CELLC(cid),
                                         imp={'n': 1}))
        if draw(st.booleans()):
            deck['cells'].reverse()
    return {'deck': deck, 'labels': sorted(set(labels)), 'tier': tier,
            'pseed': draw(st.integers(0, 2 ** 31 - 1))}


def _renumber(expr, cid):
    op = expr[0]
    if op == 's':
        n = expr[1]
        return md.S((1 if n > 0 else -1) * (1000 * cid + abs(n)))
    if op == 'f':
        n = expr[1]
        return md.F((1 if n > 0 else -1) * (1000 * cid + abs(n)), expr[2])
    return [op] + [_renumber(k, cid) for k in expr[1:]]


def strategy(tier):
    return tr_case(tier)


def budget(tier):
    if tier == 'quick':
        return {'max_examples': 1920, 'shards': 16, 'time_budget': 100}
    return {'max_examples': 96000, 'shards': 16, 'time_budget': 1500}


def render_case(case):
    return mr.render(case['deck'])


def sample_repr(case, out):
    return {'deck': render_case(case), 'labels': out.labels}


def the_spec(deck):
    for c in deck['cells']:
        if c.get('trcl'):
            ref = c['trcl']
            if 'inline' in ref:
                return ref['inline']
            return [t for t in deck['transforms']
                    if t['id'] == ref['num']][0]['spec']
    return deck['transforms'][0]['spec']


def identity_check(case, deck, t4, box):
    """For a single elementary surface carrying a TR number: the written T4
    surface function must be a constant multiple of the MCNP function
    evaluated at the inverse image (randomized polynomial identity, 1e-8):
    point sampling alone would not see a displacement error of 1e-5."""
    if 'mode:surf-tr' not in case['labels'] and \
            'mode:twins' not in case['labels']:
        return None
    for s_ in deck['surfaces']:
        if s_.get('tr') is None:
            continue
        spec = [t for t in deck['transforms'] if t['id'] == s_['tr']][0]['spec']
        prob = _identity_one(case, s_, spec, t4, box)
        if prob is not None:
            return prob
    return None


def _identity_one(case, s_, spec, t4, box):
    if s_['kind'].lower() in mgeom.MACRO_KINDS or s_['id'] not in t4.surfs:
        return None
    from .. import t4eval
    T = md.rigid_of(spec)
    rng = np.random.Generator(np.random.PCG64(case['pseed'] + 3))
    Q = rng.uniform(-box, box, (60, 3))
    f, fs, _cone = mgeom.surface_fs(s_['kind'], s_['params'], T.to_aux(Q))
    g, gs = t4eval.surf_value(t4.surfs[s_['id']], Q)
    good = (np.abs(f) > 1e-3 * fs) & (np.abs(g) > 1e-3 * gs)
    if good.sum() < 10:
        return None
    ratio = g[good] / f[good]
    r0 = np.median(ratio)
    if r0 == 0 or np.max(np.abs(ratio - r0)) > 1e-8 * abs(r0):
        return {'problem': 'transformed T4 surface function is not a constant '
                'multiple of the MCNP function at the inverse image',
                'spread': float(np.max(np.abs(ratio - r0)) / abs(r0))}
    return None


def check(case):
    deck = case['deck']
    text = mr.render(deck)
    labels = list(case['labels'])
    spec = the_spec(deck)
    T = md.rigid_of(spec)
    rot_id = np.allclose(T.B, np.eye(3))
    no_disp = not T.o.any()
    locator = md.Locator(deck)
    box = semcheck.deck_box(deck) + float(np.abs(T.o).max())
    for t in deck['transforms']:
        box = max(box, semcheck.deck_box(deck)
                  + float(np.abs(T.o).max())
                  + float(np.abs(np.array(t['spec']['o'])).max()))
    n_pts = 200 if case.get('tier') == 'quick' else 800
    P = semcheck.make_points(locator, case['pseed'], n_pts, box)
    res = conv.convert(text)
    tags = [l for l in labels if l.startswith('mode:')
            or l == 'one-sheet-cone' or l.startswith('tr:abbrev')]
    tag = ','.join(tags)
    if not res.ok:
        return violation('crash:%s:%s' % (res.crash_key(), tag),
                         {'error': res.brief(), 'deck': text}, labels)
    t4, issues = semcheck.parse_and_validate(res)
    if issues:
        return violation('structural:%s' % issues[0][0],
                         {'issues': issues[:5], 'deck': text}, labels)
    cmp_ = semcheck.Comparison(deck, t4, P, locator)
    counts = {'points': len(P), 'points_decided': int(cmp_.decided.sum()),
              'points_undecided': int((~cmp_.decided).sum())}
    mism = cmp_.basic_mismatches()
    if not mism:
        dec = cmp_.decided & cmp_.expected_in() & (cmp_.nvol == 1)
        for i in np.nonzero(dec)[0]:
            if cmp_.volumes_at(i)[0] != int(cmp_.loc.owner[i]):
                mism = [cmp_.witness('wrong-volume', i)]
                break
    if mism:
        kinds = [l for l in labels if l.startswith('kind:')
                 or l.startswith('macro:')]
        return violation('motion:%s:%s' % (mism[0]['kind'], tag),
                         {'mismatches': mism, 'deck': text, 'objects': kinds},
                         labels, counts=counts)
    ident = identity_check(case, deck, t4, box)
    if ident is not None:
        return violation('motion:identity:%s' % tag, dict(ident, deck=text),
                         labels, counts=counts)
    owners = set(int(o) for o in cmp_.loc.owner[cmp_.decided])
    nontrivial = (not rot_id) and (not no_disp) and len(owners) >= 2
    if 'mode:twins' in labels:
        # both copies and the outside were hit
        nontrivial = (not rot_id) and len(owners) >= 3
    return ok(labels, nontrivial, sig=case_sig(text), counts=counts)


# -- deterministic part: every axisymmetric kind x the 24 axis-permuting
#    proper rotations (the frames the converter re-classifies with special
#    cases), as a surface-card transformation ---------------------------------

AXIAL_CARDS = {
    'tx': [0.5, -0.3, 0.2, 2.0, 0.6, 0.4], 'ty': [0.5, -0.3, 0.2, 2.0, 0.6, 0.4],
    'tz': [0.5, -0.3, 0.2, 2.0, 0.6, 0.4],
    'k/x': [0.4, 0.2, -0.3, 0.5, 1.0], 'k/y': [0.4, 0.2, -0.3, 0.5, -1.0],
    'k/z': [0.4, 0.2, -0.3, 0.5], 'kx': [0.7, 2.0, -1.0], 'ky': [0.7, 2.0],
    'kz': [-0.7, 0.25, 1.0],
    'c/x': [0.3, -0.6, 1.2], 'c/y': [0.3, -0.6, 1.2], 'c/z': [0.3, -0.6, 1.2],
    'cx': [1.1], 'cy': [1.1], 'cz': [1.1],
    'x': [0.5, 1.0, 2.0, 2.5], 'y': [-1.0, 0.5, 1.0, 1.5], 'z': [0.0, 2.0, 1.5, 0.5],
    'px': [0.7], 'pz': [-0.4], 'sq': [1.0, 0.5, 2.0, 0.0, 0.0, 0.0, -1.0, 0.3, -0.2, 0.1],
}


def axis_rotation_cases():
    for kind, params in sorted(AXIAL_CARDS.items()):
        for ri, R in enumerate(gen._PERMS):
            deck = md.new_deck()
            spec = md.trspec([0.6, -0.4, 0.9], [float(v) for v in R.reshape(9)])
            deck['transforms'].append({'id': 3, 'spec': spec})
            deck['surfaces'].append(md.surf(8, kind, params, tr=3))
            deck['cells'].append(md.cell(1, 0, None, md.S(-8), imp={'n': 1}))
            deck['cells'].append(md.cell(2, 0, None, md.S(8), imp={'n': 1}))
            yield {'deck': deck, 'labels': ['mode:surf-tr', 'kind:' + kind,
                                            'axis-enumeration'],
                   'tier': 'quick', 'pseed': 1000 + ri}


def extra(tier, seed, stats):
    found = {}
    n = 0
    for case in axis_rotation_cases():
        out = check(case)
        n += 1
        if out.kind == 'violation':
            found.setdefault(out.bucket + ':axis-enumeration',
                             (case, out.detail))
        elif out.nontrivial:
            stats.counts['extra_nontrivial'] += 1
    stats.counts['extra_evaluations'] += n
    stats.counts['axis_enumeration_cases'] = n
    return found
