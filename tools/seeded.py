#!/usr/bin/env python3
"""Evaluate a seeded breaking change produced by an independent sub-agent.

usage: tools/seeded.py <seed-id> <dir with patch.diff demo.py meta.json>
                       [--props C01,C08] [--tier quick|thorough] [--keep]

Steps (all in scratch copies of /repo's committed HEAD, outside /repo and
/verif, removed afterwards):
  1. the patch applies cleanly;
  2. demo.py exits 0 on the unchanged copy and 1 on the changed copy;
  3. the pinned baseline (49 tests, guard off, no shim) still passes on the
     changed copy;
  4. the listed checks (default: the property named in meta.json) are run with
     T4GC_REPO=<changed copy>; exit 1 + VIOLATION = caught.
Results are written to /verif/seeded/<seed-id>/ (patch.diff, demo.py,
meta.json with the verification record).
"""
import json
import os
import shutil
import subprocess
import sys
import tempfile
import time

HERE = os.path.dirname(os.path.dirname(os.path.abspath(__file__)))
REPO = '/repo'
SHIM = os.path.join(HERE, 'vlib', 'shim')


def sh(cmd, **kw):
    return subprocess.run(cmd, capture_output=True, text=True, **kw)


def export_head(dst):
    os.makedirs(dst, exist_ok=True)
    p = subprocess.Popen(['git', '-C', REPO, 'archive', 'HEAD'],
                         stdout=subprocess.PIPE)
    subprocess.run(['tar', '-x', '-C', dst], stdin=p.stdout, check=True)
    p.wait()


def run_demo(tree, demo):
    env = dict(os.environ, PYTHONPATH='%s:%s' % (SHIM, tree),
               PYTHONDONTWRITEBYTECODE='1')
    r = sh(['/venv/bin/python', demo], cwd=tree, env=env, timeout=600)
    return r.returncode, (r.stdout + r.stderr)[-600:]


def main():
    args = sys.argv[1:]
    if len(args) < 2:
        print(__doc__)
        return 2
    seed_id, src = args[0], args[1]
    props = None
    tier = 'quick'
    keep = False
    rest = args[2:]
    while rest:
        a = rest.pop(0)
        if a == '--props':
            props = rest.pop(0).split(',')
        elif a == '--tier':
            tier = rest.pop(0)
        elif a == '--keep':
            keep = True
    meta = json.load(open(os.path.join(src, 'meta.json')))
    props = props or [meta['property']]
    patch = os.path.abspath(os.path.join(src, 'patch.diff'))
    demo_src = os.path.join(src, 'demo.py')
    work = tempfile.mkdtemp(prefix='t4gc_seed_')
    rec = {'seed': seed_id, 'checked_at_repo_commit':
           sh(['git', '-C', REPO, 'rev-parse', '--short', 'HEAD']).stdout.strip()}
    try:
        clean = os.path.join(work, 'clean')
        changed = os.path.join(work, 'changed')
        export_head(clean)
        export_head(changed)
        r = sh(['git', 'apply', '--whitespace=nowarn', patch], cwd=changed)
        if r.returncode != 0:
            r = sh(['patch', '-p1', '-i', patch], cwd=changed)
        rec['patch_applies'] = r.returncode == 0
        if r.returncode != 0:
            rec['patch_error'] = (r.stdout + r.stderr)[-400:]
            print(json.dumps(rec, indent=1))
            return 1
        for tree in (clean, changed):
            shutil.copy(demo_src, os.path.join(tree, 'demo.py'))
        rc0, out0 = run_demo(clean, 'demo.py')
        rc1, out1 = run_demo(changed, 'demo.py')
        rec['demo_unchanged_exit'] = rc0
        rec['demo_changed_exit'] = rc1
        rec['demo_changed_output'] = out1[-300:]
        env = dict(os.environ, T4GC_REPO=changed)
        b = sh([os.path.join(HERE, 'tools', 'baseline.py')], env=env)
        for _retry in range(2):
            if b.returncode == 0:
                break
            # retries: the suite contains unseeded Hypothesis tests that
            # occasionally fail on the unchanged tree too
            rec.setdefault('baseline_failed_attempts', []).append(
                b.stdout.strip()[-300:])
            b = sh([os.path.join(HERE, 'tools', 'baseline.py')], env=env)
        rec['baseline_on_changed'] = b.stdout.strip()[-300:]
        rec['baseline_ok'] = b.returncode == 0
        rec['checks'] = {}
        for pid in props:
            env = dict(os.environ, T4GC_REPO=changed,
                       T4GC_EVIDENCE_DIR=os.path.join(work, 'ev'),
                       T4GC_REPLAY_DIR=os.path.join(work, 'rp'))
            t0 = time.time()
            c = sh([os.path.join(HERE, 'check'), pid, tier], env=env)
            buckets = [l[8:] for l in c.stdout.split('\n')
                       if l.startswith('bucket: ')]
            rec['checks'][pid] = {
                'exit': c.returncode, 'tier': tier,
                'caught': c.returncode == 1 and 'VIOLATION' in c.stdout,
                'buckets': buckets[:6], 'seconds': round(time.time() - t0, 1)}
            if c.returncode == 2:
                rec['checks'][pid]['output_tail'] = c.stdout[-500:]
        print(json.dumps(rec, indent=1))
        valid = (rec['patch_applies'] and rc0 == 0 and rc1 == 1
                 and rec['baseline_ok'])
        rec['valid_seed'] = valid
        if (valid or keep) and not os.environ.get('T4GC_SEEDED_NOWRITE'):
            dst = os.path.join(HERE, 'seeded', seed_id)
            os.makedirs(dst, exist_ok=True)
            if os.path.abspath(dst) != os.path.abspath(src):
                shutil.copy(patch, os.path.join(dst, 'patch.diff'))
                shutil.copy(demo_src, os.path.join(dst, 'demo.py'))
            else:
                # re-evaluation in place: keep the record of the checks that
                # were not run again
                old = (meta.get('verification') or {}).get('checks') or {}
                for pid_, c_ in old.items():
                    rec['checks'].setdefault(pid_, c_)
            out_meta = dict(meta)
            out_meta['verification'] = rec
            with open(os.path.join(dst, 'meta.json'), 'w') as f:
                json.dump(out_meta, f, indent=1)
        return 0
    finally:
        shutil.rmtree(work, ignore_errors=True)


if __name__ == '__main__':
    sys.exit(main())
