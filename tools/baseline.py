#!/usr/bin/env python3
"""Run the repository's pinned baseline (guard OFF) and compare with
/root/.vp/BASELINE.json: every stable_pass test must still pass."""
import json, os, subprocess, sys, tempfile
import xml.etree.ElementTree as ET

base = json.load(open('/root/.vp/BASELINE.json'))
repo = os.environ.get('T4GC_REPO', '/repo')
fd, path = tempfile.mkstemp(suffix='.xml')
os.close(fd)
env = dict(os.environ)
env.pop('T4GC_VERIF', None)
# the suite contains unseeded Hypothesis tests (test_normalized,
# test_adjust_matrix) that very occasionally fail on denormal floats; keep
# their example database out of the tree so that such a failure is not
# replayed for ever
hypdir = tempfile.mkdtemp(prefix='t4gc_hyp_')
env['HYPOTHESIS_STORAGE_DIRECTORY'] = hypdir
cmd = ['/venv/bin/python', '-m', 'pytest', '-ra', '-q', '-p', 'no:cacheprovider',
       '--timeout=900', '--continue-on-collection-errors', '--junitxml=' + path]
proc = subprocess.run(cmd, cwd=repo, env=env, capture_output=True, text=True)
passed = set()
for tc in ET.parse(path).getroot().iter('testcase'):
    bad = any(ch.tag in ('failure', 'error', 'skipped') for ch in tc)
    name = '%s::%s' % (tc.get('classname'), tc.get('name'))
    if not bad:
        passed.add(name)
os.unlink(path)
import shutil
shutil.rmtree(hypdir, ignore_errors=True)
missing = [t for t in base['stable_pass'] if t not in passed]
print('passed %d, baseline %d, missing %d' % (len(passed), len(base['stable_pass']), len(missing)))
for m in missing:
    print('  MISSING', m)
sys.exit(1 if missing else 0)
