#!/usr/bin/env python3
"""Merge the dumps written under T4GC_COVERAGE and list what no check reached.

usage: T4GC_COVERAGE=/path ./check Cxx quick ... ; tools/coverage_report.py /path [--missing]
"""
import glob
import json
import os
import sys


def executable_lines(path):
    with open(path, encoding='utf-8') as f:
        src = f.read()
    code = compile(src, path, 'exec')
    lines = set()
    stack = [code]
    while stack:
        c = stack.pop()
        for _s, _e, ln in c.co_lines():
            if ln is not None and ln > 0:
                lines.add(ln)
        for k in c.co_consts:
            if hasattr(k, 'co_lines'):
                stack.append(k)
    return lines


def main():
    d = sys.argv[1]
    show = '--missing' in sys.argv
    hit = {}
    for p in glob.glob(os.path.join(d, '*.json')):
        with open(p) as f:
            for fn, ls in json.load(f).items():
                hit.setdefault(fn, set()).update(ls)
    roots = set(fn.split('/t4_geom_convert/')[0] for fn in hit)
    root = sorted(roots)[0]
    pkg = os.path.join(root, 't4_geom_convert')
    tot_e = tot_h = 0
    rows = []
    for dp, _dn, fns in os.walk(pkg):
        if 'IntegrationTests' in dp or 'UnitTests' in dp:
            continue
        for fn in fns:
            if not fn.endswith('.py'):
                continue
            path = os.path.join(dp, fn)
            ex = executable_lines(path)
            h = hit.get(path, set()) & ex
            tot_e += len(ex)
            tot_h += len(h)
            rows.append((path[len(pkg) + 1:], len(h), len(ex), sorted(ex - h)))
    for name, h, e, miss in sorted(rows):
        print('%-50s %4d/%4d %5.1f%%' % (name, h, e, 100.0 * h / max(e, 1)))
        if show and miss:
            # compress into ranges
            out = []
            a = b = miss[0]
            for m in miss[1:]:
                if m == b + 1:
                    b = m
                else:
                    out.append((a, b))
                    a = b = m
            out.append((a, b))
            print('      missing: ' + ' '.join('%d' % x if x == y else '%d-%d' % (x, y)
                                               for x, y in out))
    print('TOTAL %d/%d %.1f%%' % (tot_h, tot_e, 100.0 * tot_h / max(tot_e, 1)))


if __name__ == '__main__':
    main()
