#!/usr/bin/env python3
"""Generate MANIFEST.json from the table below (kept in one place so that the
manifest stays valid while checks are added)."""
import json, os
HERE = os.path.dirname(os.path.dirname(os.path.abspath(__file__)))

CHECKS = {
 'C01': dict(cat='exploration', ref='5/C01',
   tech='property-based differential testing (Hypothesis deck generator; abstract MCNP model vs independent TRIPOLI-4 point evaluator)',
   text='Generated level-0 decks are converted and every decided sample point (uniform + bisected near-boundary points) must lie in exactly the volume numbered like its owning MCNP cell, or in none when the owner has zero importance. Holds on the explored decks only; no absence claim.',
   note='Trusted: harness MCNP model (DESIGN 4.2) and TRIPOLI-4 evaluator (DESIGN 4.1), float64 sign decisions under the stated decidability rule.'),
 'C02': dict(cat='exploration', ref='5/C02',
   tech='property-based testing: generated surface cards, sense/locus differential oracle plus randomized polynomial-identity test',
   text='Every generated elementary surface card (all mnemonics of the statement) is converted in a two-probe deck; sense and locus are compared with the MCNP equation on uniform and near-surface points, and the T4 surface function must be a constant multiple (of the right sign) of the MCNP function on generic points.',
   note='Trusted: MCNP surface equations and T4 keyword meanings as written in DESIGN 4.1/4.2; SQ positive at centre judged on locus only.'),
 'C03': dict(cat='exploration', ref='5/C03',
   tech='property-based testing: generated macrobody cards, parametric-solid and facet half-space differential oracle',
   text='Every generated macrobody (all kinds/parameterisations, any orientation and handedness) is probed through the cells -b, +b, -b.k, +b.k; membership of uniform and facet-bisected points is compared with the parametric solid and the outward facet half-spaces.',
   note='Trusted: macrobody definitions and facet numbering of DESIGN 4.2; ELL(+) formula adopted from the repository as documented MCNP behaviour; TRC facet 1 judged on the body side of the apex. One case in four places the probe cells two universe levels down (each FILL with its own transformation) and is judged like C05.'),
 'C04': dict(cat='exploration', ref='5/C04',
   tech='property-based testing: generated rigid motions x spellings x base objects, inverse-image differential oracle',
   text='Surfaces with a TR number, cells with TRCL/*TRCL (numbered or inline) and implicit 1000*cell+surf surfaces are converted and compared point-wise with the base object evaluated at the inverse image of the point; TR cards in 3/12/13-entry, degree and abbreviated forms.',
   note='Trusted: MCNP TR conventions of DESIGN 4.2; abbreviated matrices only on TR cards and only where the completion is unique.'),
 'C05': dict(cat='exploration', ref='5/C05',
   tech='property-based differential testing: generated universe trees, recursive point location in the abstract model vs T4 evaluator + provenance comments',
   text='Generated universe trees (depth up to 3, quick; 4 thorough) with reuse, fill transformations in every spelling and container TRCL; every decided point must be in exactly the volume whose comment lists (filler, container) pairs matching the model chain, or in none.',
   note='Trusted: FILL frame rule as stated in the property; harness model and evaluator.'),
 'C06': dict(cat='exploration', ref='5/C06',
   tech='property-based differential testing of generated LAT=1 lattices + reference-free metamorphic periodicity relation',
   text='Generated rectangular lattices (1-3 D, orthogonal/skew, any surface order, arrays/homogeneous fills, padded/negative/degenerate ranges, fill transformations and TRCL) are located with the pair-coordinate rule; for homogeneous fills the output must be translation-periodic.',
   note='Trusted: MCNP lattice index convention as restated in the property; element = translated copy.'),
 'C07': dict(cat='exploration', ref='5/C07',
   tech='property-based differential testing of generated LAT=2 lattices + metamorphic periodicity relation',
   text='Generated hexagonal prisms (regular/irregular, tilted, 6 or 8 planes, oblique axes, any listing order allowed by the convention) are located by unit-prism membership in the basis implied by the construction; homogeneous fills must be periodic in the output.',
   note='Trusted: hexagonal index convention as restated in the property; with six planes the axis is kept orthogonal (conventional component otherwise).'),
 'C08': dict(cat='exploration', ref='5/C08',
   tech='property-based testing: generated decks x option combinations, strict-reader validity predicate over the written file; fixed corpus replay of the shipped decks',
   text='Decks from all generators (biased toward pruning interactions: empty fillers, unions of empties, duplicate / unused / flagged surfaces) are converted under every option combination; the written file is parsed by a strict reader of the emitted dialect and must satisfy one validity clause per sentence of the statement.',
   note='Trusted: the harness reader encodes the dialect the writer emits; a crash on a generated (valid) deck is reported in a separate bucket.'),
 'C09': dict(cat='exploration', ref='5/C09',
   tech='property-based differential testing: generated hierarchies with material/density palettes and spelling families; GEOMCOMP joined with the geometry evaluator',
   text='For every decided point the composition assigned to its volume must name the material and (numerically) the density of the owning lowest-level cell, m0 for void owners; spellings of one family share a composition, numerically different densities never do; includes lattices filled with their own universe and LIKE-BUT overrides.',
   note='Trusted: owner = filler at the lowest level; only the two spelling families named by the statement are asserted.'),
 'C10': dict(cat='exploration', ref='5/C10',
   tech='property-based testing: generated material cards and densities against an independent periodic table and composition formulae',
   text='Generated material cards (any Z 1-118, A 000-299, suffixes, keyword entries, fraction spellings, both signs, mixed signs) with mass and atom densities; the written COMPOSITION block is compared nuclide by nuclide and amount by amount with the expected block; mixed signs must raise.',
   note='Trusted: harness periodic table and T4 block layout; numeric comparison at 1e-12 relative.'),
 'C11': dict(cat='exploration', ref='5/C11',
   tech='exhaustive enumeration of small expression trees x spellings plus Hypothesis random trees; truth-table oracle over all 2^n sense assignments',
   text='Every expression tree with <= 3 leaves (quick) / <= 4 leaves (thorough) over a small leaf alphabet is enumerated in several spellings, and larger random trees are generated; the truth table of the generator tree must equal that of the AST returned by get_ast on the geometry extracted by cellcard.split, and that of the tree after pot_complement (which must be complement-free).',
   note='Trusted: MCNP operator semantics; the sub-domain <= N leaves is enumerated completely, the rest is sampled.'),
 'C12': dict(cat='exploration', ref='5/C12',
   tech='property-based testing: generated importance specifications (cell cards, data cards with shorthand, mixes) against an independent shorthand expander',
   text='Decks of 2-10 slab cells with importances from cell-card keywords, IMP:x data cards with nR/nM/nI shorthand, or a mix; the converted VOLU set must equal the non-zero-importance cells and the NOTE line must list exactly the zero-importance cells.',
   note='Trusted: importance rule as restated in the property; harness-side shorthand expansion. A quarter of the decks have level-0 cells filled with one or two universe levels of independent importances; a converted filled cell must yield one volume per leaf cell of the universes that fill it.'),
 'C13': dict(cat='exploration', ref='5/C13',
   tech='metamorphic property-based testing across all flag combinations (generated decks and the shipped example decks as a fixed corpus) + unit-level property on remove_duplicate_surfaces',
   text='Each generated deck (with duplicated surfaces) is converted under all 8 flag combinations with drawn inline scores; every decided point must read the same (provenance, composition) as in the reference output. Generated SurfaceT4 dictionaries check that de-duplication merges only identical surfaces.',
   note='Trusted: T4 evaluator; the verdict compares converter outputs with each other only.'),
 'C14': dict(cat='exploration', ref='5/C14',
   tech='metamorphic property-based testing: renderer-applied meaning-preserving rewrites (case, blanks/tabs, continuations, comments, message block, number spellings, shorthand) vs canonical rendering',
   text='A base deck is rendered canonically and under a drawn set of rewrites that MCNP treats as equivalent; both are converted and the outputs must have identical geometry and boundary conditions and numerically identical volume-composition associations.',
   note='Trusted: the renderer applies only rewrites named by the statement; composition names may differ, contents may not.'),
 'C15': dict(cat='exploration', ref='5/C15',
   tech='metamorphic property-based testing: LIKE n BUT deck vs model-expanded explicit deck',
   text='Generated base cells with every option family and LIKE n BUT cells overriding any subset of {mat, rho, u, fill, trcl, imp}, in chains and with forward references; the LIKE deck and the deck expanded by the harness model must convert to identical geometry / boundary conditions and numerically identical compositions.',
   note='Trusted: copy-and-override semantics as stated in the property (importances override per particle type).'),
 'C16': dict(cat='exploration', ref='5/C16',
   tech='property-based testing: generated flag placements with duplicates, transformations and universes; randomized zero-set identity test (in every frame of use) between flagged MCNP surfaces and the SURFs named by the boundary-condition entries; written copies of a flagged card found metamorphically by nudging the card; deterministic flagged-macrobody decks',
   text='Decks with reflecting / white flags, flagged and unflagged duplicates under smaller and larger numbers, unused flagged surfaces and flagged macrobodies, with and without de-duplication; every entry must name a written SURF with the zero set of a flagged surface of the right kind, every flagged written surface gets exactly one entry, flagged macrobodies are rejected.',
   note='Trusted: keyword mapping * -> REFLECTION, + -> COSINUS taken from the writer; one known finding K02 (cone sheets merged by de-duplication).'),
 'C17': dict(cat='fault_enumeration', ref='5/C17',
   tech='fault injection: every fault class of the statement injected at drawn applicable sites of generated valid decks, plus exhaustive per-mnemonic and per-lattice-option enumeration',
   text='Each fault class listed in the property is injected into decks that are first shown to convert; the run must stop with an error that names the problem (not an incidental IndexError/KeyError/TypeError... with a stock message). Entry-count faults are enumerated for every mnemonic, lattice-option faults on fixed 1/2/3-D lattices.',
   note='Trusted: admissible entry counts per mnemonic from the MCNP manual; heuristic for "names the problem" stated in DESIGN.'),
 'C18': dict(cat='exploration', ref='5/C18',
   tech='Hypothesis stateful testing (RuleBasedStateMachine): histories of conversions in one interpreter, differential against fresh processes under several hash seeds, file-system invariants',
   text='Rule-based machine over a pool of generated decks and option sets: convert / convert_failing / reconvert / fresh_hashseed; after every step the in-process output must equal the memoised fresh-process output, hash seeds must not matter, the input file must be untouched and no stray file may appear.',
   note='Trusted: fresh process = CLI entry under /venv/bin/python with the TatSu shim; quick tier runs without Hypothesis shrinking (own greedy step removal).'),
}

PENDING = {}

def main():
    props = [json.loads(l) for l in open(os.path.join(HERE, 'properties.jsonl'))]
    checks = []
    na = []
    for p in props:
        pid = p['id']
        if pid in CHECKS:
            c = CHECKS[pid]
            checks.append({
                'property_id': pid,
                'quick_cmd': './check %s quick' % pid,
                'thorough_cmd': './check %s thorough' % pid,
                'evidence_file': 'evidence/%s.json' % pid,
                'replay_cmd_template': './check %s --replay {path}' % pid,
                'engine': 'vlib',
                'level_claimed': {'category': c['cat'], 'text': c['text'],
                                  'design_ref': 'DESIGN.md section ' + c['ref']},
                'level_note': c['note'],
                'technique': c['tech'],
            })
        else:
            na.append({'property_id': pid,
                       'reason': PENDING.get(pid, 'check not built yet in this revision of /verif (planned: DESIGN.md section 5/%s)' % pid)})
    man = {
        'version': 1,
        'setup_cmd': './setup.sh',
        'hooks': {
            'guard': 'T4GC_VERIF',
            'enable': 'no instrumentation of /repo is needed: checks import the working tree at $T4GC_REPO (default /repo) in a fresh interpreter; the guard variable is unused',
            'baseline_off_cmd': './tools/baseline.py',
            'source_commits': [],
            'add_only': True,
        },
        'engines': [{'name': 'vlib', 'path': 'vlib',
                     'serves_properties': [c['property_id'] for c in checks],
                     'kind_free_text': 'Hypothesis-driven generated search with explicit oracles: abstract MCNP deck model + independent TRIPOLI-4 reader/evaluator, exclude-and-continue bucketing, JSON replays'}],
        'checks': checks,
        'notes': 'All checks: exit 0 held / exit 1 with VIOLATION lines / exit 2 harness error. VERIF_SEED selects the Hypothesis seed; T4GC_REPO selects the tree under test. known_findings.json lists fixed and known findings.',
        'not_applicable': na,
    }
    with open(os.path.join(HERE, 'MANIFEST.json'), 'w') as f:
        json.dump(man, f, indent=1)
    print('wrote MANIFEST.json: %d checks, %d not_applicable' % (len(checks), len(na)))

if __name__ == '__main__':
    main()
