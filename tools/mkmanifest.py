#!/usr/bin/env python3
"""Generate MANIFEST.json from the table below (kept in one place so that the
manifest stays valid while checks are added)."""
import json, os
HERE = os.path.dirname(os.path.dirname(os.path.abspath(__file__)))

CHECKS = {
 'C01': dict(cat='exploration', ref='5/C01',
   tech='property-based differential testing (Hypothesis deck generator; abstract MCNP model vs independent TRIPOLI-4 point evaluator)',
   text='Generated level-0 decks are converted and every decided sample point (uniform + bisected near-boundary points) must lie in exactly the volume numbered like its owning MCNP cell, or in none when the owner has zero importance. Holds on the explored decks only; no absence claim.',
   note='Trusted: harness MCNP model (DESIGN 4.2) and TRIPOLI-4 evaluator (DESIGN 4.1), float64 sign decisions under the stated decidability rule.'),
}

PENDING = {}

def main():
    props = [json.loads(l) for l in open(os.path.join(HERE, 'properties.jsonl'))]
    checks = []
    na = []
    for p in props:
        pid = p['id']
        if pid in CHECKS:
            c = CHECKS[pid]
            checks.append({
                'property_id': pid,
                'quick_cmd': './check %s quick' % pid,
                'thorough_cmd': './check %s thorough' % pid,
                'evidence_file': 'evidence/%s.json' % pid,
                'replay_cmd_template': './check %s --replay {path}' % pid,
                'engine': 'vlib',
                'level_claimed': {'category': c['cat'], 'text': c['text'],
                                  'design_ref': 'DESIGN.md section ' + c['ref']},
                'level_note': c['note'],
                'technique': c['tech'],
            })
        else:
            na.append({'property_id': pid,
                       'reason': PENDING.get(pid, 'check not built yet in this revision of /verif (planned: DESIGN.md section 5/%s)' % pid)})
    man = {
        'version': 1,
        'setup_cmd': './setup.sh',
        'hooks': {
            'guard': 'T4GC_VERIF',
            'enable': 'no instrumentation of /repo is needed: checks import the working tree at $T4GC_REPO (default /repo) in a fresh interpreter; the guard variable is unused',
            'baseline_off_cmd': './tools/baseline.py',
            'source_commits': [],
            'add_only': True,
        },
        'engines': [{'name': 'vlib', 'path': 'vlib',
                     'serves_properties': [c['property_id'] for c in checks],
                     'kind_free_text': 'Hypothesis-driven generated search with explicit oracles: abstract MCNP deck model + independent TRIPOLI-4 reader/evaluator, exclude-and-continue bucketing, JSON replays'}],
        'checks': checks,
        'notes': 'All checks: exit 0 held / exit 1 with VIOLATION lines / exit 2 harness error. VERIF_SEED selects the Hypothesis seed; T4GC_REPO selects the tree under test. known_findings.json lists fixed and known findings.',
        'not_applicable': na,
    }
    with open(os.path.join(HERE, 'MANIFEST.json'), 'w') as f:
        json.dump(man, f, indent=1)
    print('wrote MANIFEST.json: %d checks, %d not_applicable' % (len(checks), len(na)))

if __name__ == '__main__':
    main()
