#!/usr/bin/env python3
"""Sensitivity self-test (DESIGN section 7).

Each mutant is a single textual replacement in a scratch copy of the
repository's working tree (outside /repo and /verif).  The property's quick
check is run with T4GC_REPO pointing at the copy; a mutant is *detected* when
the check exits 1 with a VIOLATION line.  The copy is removed afterwards.

usage: tools/mutants.py [ID-or-mutant-name ...] [--tier quick|thorough]
                        [--jobs N] [--write-patches]
"""
import json
import os
import shutil
import subprocess
import sys
import tempfile
import time
from concurrent.futures import ThreadPoolExecutor

HERE = os.path.dirname(os.path.dirname(os.path.abspath(__file__)))
REPO = os.environ.get('T4GC_REPO', '/repo')
K = 't4_geom_convert/Kernel/'

# (name, property, file, old, new, [other properties expected to detect it])
MUTANTS = [
 # ---- C01
 ('C01-1', 'C01', K + 'Volume/CellConversion.py',
  "            return ('UNION', ids)\n        return None\n\n    @staticmethod\n    def conv_union_helpers",
  "            return ('INTE', ids)\n        return None\n\n    @staticmethod\n    def conv_union_helpers"),
 ('C01-2', 'C01', 'MIP/geom/semantics.py',
  "        if self[0] == '*':\n            return GeomExpression((':', self[1].inverse(), self[2].inverse()))",
  "        if self[0] == '*':\n            return GeomExpression(('*', self[1].inverse(), self[2].inverse()))"),
 ('C01-3', 'C01', K + 'Volume/CellConversion.py',
  "            if elt < 0:\n                minus_surfs.append(-elt)\n            elif elt > 0:\n                plus_surfs.append(elt)",
  "            if elt < 0:\n                plus_surfs.append(-elt)\n            elif elt > 0:\n                minus_surfs.append(elt)"),
 ('C01-4', 'C01', K + 'Volume/ConstructVolumeT4.py',
  "            if val.ops is None or val.ops[0] != 'UNION':",
  "            if True:"),
 ('C01-5', 'C01', K + 'Volume/CellConversion.py',
  "        new_args = [node for node in new_args if node is not None]\n        new_node = [p_id, operator]",
  "        new_args = [node for node in new_args if node is not None][:3]\n        new_node = [p_id, operator]"),
 # ---- C02
 ('C02-1', 'C02', K + 'Surface/ConversionSurfaceMCNPToT4.py',
  "        type_surface = T4S.CYLY\n        param = [p_x, p_z, radius]",
  "        type_surface = T4S.CYLY\n        param = [p_z, p_x, radius]"),
 ('C02-2', 'C02', K + 'Surface/ConversionSurfaceMCNPToT4.py',
  "    theta = 180. * val.compl_param[1] / pi",
  "    theta = val.compl_param[1]"),
 ('C02-3', 'C02', K + 'Surface/ConversionSurfaceMCNPToT4.py',
  "                 2.0 * esq - 2.0 * bsq * ysq,",
  "                 2.0 * esq + 2.0 * bsq * ysq,"),
 ('C02-4', 'C02', K + 'VectUtils.py',
  "    if unit_normal[2] < -epsilon:\n        return flipped_params\n    if unit_normal[2] > epsilon:\n        return params",
  "    if unit_normal[2] < -epsilon:\n        return params\n    if unit_normal[2] > epsilon:\n        return flipped_params"),
 ('C02-5', 'C02', 'MIP/geom/forcad.py',
  "    return _cylinder(p[0], 0, p[1], p[2], 0, 1, 0)",
  "    return _cylinder(p[1], 0, p[0], p[2], 0, 1, 0)"),
 ('C02-6', 'C02', 'MIP/geom/forcad.py',
  "            # see xx()\n            nappe = 1 if tana > 0 else -1\n            return _cone(0, y0, 0,",
  "            # see xx()\n            nappe = -1 if tana > 0 else 1\n            return _cone(0, y0, 0,"),
 ('C02-7', 'C02', K + 'Surface/ConversionSurfaceMCNPToT4.py',
  "    return SurfaceCollection([(cone, 1), (plane, -int(nappe) * flip)])",
  "    return SurfaceCollection([(cone, 1), (plane, int(nappe) * flip)])"),
 # ---- C03
 ('C03-1', 'C03', K + 'Surface/MacroBodies.py',
  "    side_bc = 1 if scal(normal_bc, vec_a) < 0. else -1",
  "    side_bc = 1 if scal(normal_bc, vec_a) > 0. else -1"),
 ('C03-2', 'C03', K + 'Surface/MacroBodies.py',
  "        (MS.C, base_bottom + [radius] + height, 1),\n        (MS.P, planeParamsFromNormalAndPoint(height, base_top), 1),\n        (MS.P, planeParamsFromNormalAndPoint(height, base_bottom), -1),",
  "        (MS.C, base_bottom + [radius] + height, 1),\n        (MS.P, planeParamsFromNormalAndPoint(height, base_bottom), -1),\n        (MS.P, planeParamsFromNormalAndPoint(height, base_top), 1),"),
 ('C03-3', 'C03', K + 'Surface/MacroBodies.py',
  "        if scal(dist, plane_params[:3]) > 0:",
  "        if scal(dist, plane_params[:3]) < 0:"),
 ('C03-4', 'C03', K + 'Surface/MacroBodies.py',
  "    dist_to_apex = rad0 / (rad0 - rad1)",
  "    dist_to_apex = rad1 / (rad0 - rad1)"),
 ('C03-5', 'C03', K + 'Surface/MacroBodies.py',
  "    sign_c = 1 if mixed(vec_a, vec_b, height) < 0. else -1",
  "    sign_c = -1"),
 ('C03-6', 'C03', K + 'Surface/MacroBodies.py',
  "        vec_c = rotate(vec_a, renorm(height), 2. * math.pi / 3.)",
  "        vec_c = rotate(vec_a, renorm(height), -2. * math.pi / 3.)"),
 ('C03-7', 'C03', K + 'Surface/MacroBodies.py',
  "        (MS.P, [0, 1, 0, ymax], 1),\n        (MS.P, [0, 1, 0, ymin], -1),",
  "        (MS.P, [0, 1, 0, ymin], -1),\n        (MS.P, [0, 1, 0, ymax], 1),"),
 ('C03-8', 'C03', K + 'Surface/MacroBodies.py',
  "        vec_min = renorm(cross_prod, params[9])\n        ellipse_params = [1. / scal(vec_maj, vec_maj),\n                          1. / params[9]**2]",
  "        vec_min = renorm(cross_prod, params[9])\n        ellipse_params = [1. / params[9]**2,\n                          1. / scal(vec_maj, vec_maj)]"),
 # ---- C04
 ('C04-1', 'C04', 'MIP/geom/transforms.py',
  "    xp = b1*x + b4*y + b7*z\n    yp = b2*x + b5*y + b8*z\n    zp = b3*x + b6*y + b9*z",
  "    xp = b1*x + b2*y + b3*z\n    yp = b4*x + b5*y + b6*z\n    zp = b7*x + b8*y + b9*z"),
 ('C04-2', 'C04', K + 'Transformation/TransformationQuad.py',
  "    m_mat = np.matmul(r_mat, q_mat)",
  "    m_mat = np.matmul(q_mat, r_mat)"),
 ('C04-3', 'C04', K + 'FileHandlers/Parser/ParseMCNPCell.py',
  "                if '*' in elt:\n                    trcl_params[3:12] = [None if x is None else to_cos(x)",
  "                if False:\n                    trcl_params[3:12] = [None if x is None else to_cos(x)"),
 ('C04-4', 'C04', K + 'Transformation/Transformation.py',
  "    row_2 = vect(row_0, row_1)\n    matrix[3 * i_row:3 * i_row + 3] = row_2",
  "    row_2 = vect(row_1, row_0)\n    matrix[3 * i_row:3 * i_row + 3] = row_2"),
 ('C04-5', 'C04', K + 'Volume/ConstructVolumeT4.py',
  "                surf_id = tr_surf_id % 1000\n                cell_id = tr_surf_id // 1000",
  "                surf_id = tr_surf_id % 1000\n                cell_id = max(1, tr_surf_id // 1000 - 0) if tr_surf_id // 1000 in mcnp_dict and not mcnp_dict[tr_surf_id // 1000].trcl else tr_surf_id // 1000\n                if len(mcnp_dict[cell_id].trcl) > 0 and len(mcnp_dict[cell_id].trcl[0]) == 12 and mcnp_dict[cell_id].trcl[0][3] < 0: mcnp_dict[cell_id].trcl[0] = tuple(mcnp_dict[cell_id].trcl[0][:3]) + (1., 0., 0., 0., 1., 0., 0., 0., 1.)"),
 ('C04-6', 'C04', K + 'Surface/ConversionSurfaceMCNPToT4.py',
  "        flip = 1 if u_y > 0 else -1",
  "        flip = 1"),
 ('C04-7', 'C04', K + 'Volume/ConstructVolumeT4.py',
  "                           if abs(int(surf)) >= 1000)",
  "                           if int(surf) >= 1000)"),
 ('C04-8', 'C04', 'MIP/geom/transforms.py',
  "    if dtype[0] == '*':\n        pl[3:12] = map(to_cos, pl[3:12])",
  "    if dtype[0] == '*':\n        pl[3:11] = map(to_cos, pl[3:11])"),
 ('C04-9', 'C04', K + 'Transformation/Transformation.py',
  "    cos_beta = row[0]\n    if sin_beta != 0.0:\n        cos_gamma = -row[1] / sin_beta",
  "    cos_beta = row[0]\n    if sin_beta != 0.0:\n        cos_gamma = row[1] / sin_beta"),
 ('C04-10', 'C04', K + 'Surface/ConversionSurfaceMCNPToT4.py',
  "        center = transform_mat.T.dot(center)",
  "        center = transform_mat.dot(center)"),
 # ---- C05
 ('C05-1', 'C05', K + 'Volume/CellConversion.py',
  "        if cache:\n            cache_key = (cell_key, tuple(transform))\n            new_key = self.cell_transform_cache.get(cache_key, None)",
  "        if cache:\n            cache_key = (cell_key,)\n            new_key = self.cell_transform_cache.get(cache_key, None)"),
 ('C05-2', 'C05', K + 'Volume/CellConversion.py',
  "            if mcnp_key_filltr:\n                new_elt_key = self.cell_transform(new_elt_key, mcnp_key_filltr,\n                                                  cache=cache)\n            elif cell.trcl:",
  "            if mcnp_key_filltr:\n                new_elt_key = self.cell_transform(new_elt_key, mcnp_key_filltr,\n                                                  cache=cache)\n            if cell.trcl:"),
 ('C05-3', 'C05', K + 'Volume/CellConversion.py',
  "            new_cell.idorigin.append(\n                (element_cell.idorigin[0][0]\n                 if element_cell.idorigin else element,",
  "            new_cell.idorigin.append(\n                (element,"),
 ('C05-4', 'C05', K + 'Volume/CellConversion.py',
  "        if isCellRef(p_tree):\n            new_cell_key = self.cell_transform(p_tree.cell, p_transf)\n            return CellRef(new_cell_key)",
  "        if isCellRef(p_tree):\n            return p_tree"),
 ('C05-5', 'C05', K + 'FileHandlers/Parser/ParseMCNPCell.py',
  "            fill_params[3:12] = [None if x is None else to_cos(x)",
  "            fill_params[3:12] = [None if x is None else x"),
 ('C05-6', 'C05', K + 'Volume/CellConversion.py',
  "                else:\n                    new_cell.geometry = ('*', CellRef(key),\n                                         CellRef(new_elt_key))",
  "                else:\n                    new_cell.geometry = ('*', CellRef(new_elt_key),\n                                         CellRef(new_elt_key))"),
 # (C05-7, replacing the container's idorigin lookup by `key`, is an
 #  equivalent mutant: containers never carry an idorigin)
 # ---- C06
 ('C06-1', 'C06', K + 'Volume/Lattice.py',
  "                tail = bounds[-1]\n                rest = bounds[:-1]\n                for elem in range(tail[0], tail[1] + 1):\n                    for heads in _indices(rest):\n                        yield heads + [elem]",
  "                head = bounds[0]\n                rest = bounds[1:]\n                for elem in range(head[0], head[1] + 1):\n                    for tails in _indices(rest):\n                        yield [elem] + tails"),
 # (C06-2 is an equivalent mutant: the flipped normal and the sign of the
 #  distance cancel in squareLatticeReciprocalVecs)
 ('C06-3', 'C06', K + 'Volume/CellConversion.py',
  "            if universe == cell.universe:\n                new_cell.fillid = None\n                new_cell.materialID = cell.materialID",
  "            if False:\n                new_cell.fillid = None\n                new_cell.materialID = cell.materialID"),
 ('C06-4', 'C06', K + 'Volume/Lattice.py',
  "    return vsum(*(rescale(float(i), vec) for i, vec in zip(index, base_vecs)))",
  "    return vsum(*(rescale(-float(i), vec) for i, vec in zip(index, base_vecs)))"),
 ('C06-5', 'C06', K + 'Volume/CellConversion.py',
  "                new_filltr = compose_transform(new_cell.filltr, trnsf)",
  "                new_filltr = compose_transform(trnsf, new_cell.filltr)"),
 ('C06-6', 'C06', K + 'Volume/CellConversion.py',
  "            if universe == 0:\n                continue\n            transl = latticeVector",
  "            if universe == 0 and index != (0,) * len(index):\n                continue\n            transl = latticeVector"),
 ('C06-7', 'C06', K + 'FileHandlers/Parser/ParseMCNPCell.py',
  "                kws['f_univs'] = [f_univs_arg] * lat_opt.size()",
  "                kws['f_univs'] = [f_univs_arg] * lat_opt.size()\n                kws['f_bounds'] = lat_opt.__class__([(b[0], b[1]) for b in lat_opt][::-1]) if len(lat_opt) > 1 and lat_opt.size() == lat_opt[0][1] - lat_opt[0][0] + 1 else lat_opt"),
 # (C06-8 is an equivalent mutant: the flipped normal and the sign of the
 #  distance cancel in squareLatticeReciprocalVecs)
 ('C06-9', 'C06', K + 'Volume/CellConversion.py',
  "            if cell.trcl and not cell.filltr:\n                for trcl in cell.trcl:\n                    new_filltr = compose_transform(trcl, new_filltr)",
  "            if cell.trcl:\n                for trcl in cell.trcl:\n                    new_filltr = compose_transform(trcl, new_filltr)"),
 # ---- C07
 ('C07-1', 'C07', K + 'Volume/Lattice.py',
  "    base_vecs = [vdiff(vertices_0[0], vertices_0[2]),\n                 vdiff(vertices_2[0], vertices_2[2])]",
  "    base_vecs = [vdiff(vertices_0[0], vertices_0[1]),\n                 vdiff(vertices_2[0], vertices_2[2])]"),
 ('C07-2', 'C07', K + 'Volume/Lattice.py',
  "    vertices_2, _ = hexVertices(surfaces, 2)",
  "    vertices_2, _ = hexVertices(surfaces, 4)"),
 ('C07-3', 'C07', K + 'Volume/Lattice.py',
  "        bottom_pt = projectPointOnPlane(vertices_0[0], surfaces[-1][0], axis)\n        top_pt = projectPointOnPlane(vertices_0[0], surfaces[-2][0], axis)",
  "        bottom_pt = projectPointOnPlane(vertices_0[0], surfaces[-2][0], axis)\n        top_pt = projectPointOnPlane(vertices_0[0], surfaces[-1][0], axis)"),
 ('C07-4', 'C07', K + 'Volume/Lattice.py',
  "    base_vecs = [vdiff(vertices_0[0], vertices_0[2]),\n                 vdiff(vertices_2[0], vertices_2[2])]",
  "    base_vecs = [vdiff(vertices_0[2], vertices_0[0]),\n                 vdiff(vertices_2[0], vertices_2[2])]"),
 ('C07-5', 'C07', K + 'VectUtils.py',
  "    dist = scal(vdiff(pl_pt, point), normal) / scal(direction, normal)\n    return vsum(point, rescale(dist, direction))",
  "    dist = scal(vdiff(pl_pt, point), normal) / scal(normal, normal)\n    return vsum(point, rescale(dist, normal))"),
 # ---- C08
 ('C08-1', 'C08', K + 'Volume/VolumeT4.py',
  "            str_params.extend((self.ops[0], len(self.ops[1])))",
  "            str_params.extend((self.ops[0], len(self.ops[1]) + (1 if len(self.ops[1]) > 2 else 0)))"),
 ('C08-2', 'C08', K + 'Volume/ConstructVolumeT4.py',
  "    unused = fictives - used\n",
  "    unused = (fictives - used) | set(k for k in fictives & used if k % 7 == 3)\n"),
 ('C08-3', 'C08', K + 'Surface/Duplicates.py',
  "            new_minuses = set(renumbering[s] for s in volu.minuses)",
  "            new_minuses = set(volu.minuses)"),
 ('C08-4', 'C08', K + 'GeomComp/ConstructGeomCompT4.py',
  "        dic_partialGeomComp[materialName].append(key)",
  "        if key % 5 != 2:\n            dic_partialGeomComp[materialName].append(key)"),
 ('C08-5', 'C08', K + 'Volume/CellConversion.py',
  "            if any(arg_id is None for arg_id in arg_ids):\n                # one of the operands is empty, and so is the intersection\n                return None\n",
  ""),
 ('C08-6', 'C08', K + 'FileHandlers/Writer/WriteT4BoundCond.py',
  "        if key in surf_used and entry not in bound_conds:",
  "        if entry not in bound_conds:"),
 ('C08-7', 'C08', K + 'FileHandlers/Writer/WriteT4Composition.py',
  "    ofile.write(str(n_compos + 1) + \"\\n\")  # +1 from the m0 (void) composition",
  "    ofile.write(str(n_compos) + \"\\n\")"),
 ('C08-8', 'C08', K + 'Volume/ConstructVolumeT4.py',
  "            val.pluses = set([union_ids[0]])\n            val.minuses = set([union_ids[1]])",
  "            val.pluses = set([union_ids[0]])\n            val.minuses = set([union_ids[0]])"),
 ('C08-9', 'C08', K + 'FileHandlers/Writer/WriteT4Geometry.py',
  "        union_ids = tuple(renumber[surf_id] for surf_id in union_ids)\n",
  ""),
 # ---- C09
 ('C09-1', 'C09', K + 'GeomComp/ConstructGeomCompT4.py',
  "            volID = val.idorigin[0][0]",
  "            volID = val.idorigin[-1][1]"),
 ('C09-2', 'C09', K + 'FileHandlers/Parser/ParseMCNPCell.py',
  "            density = normalize_float(material.split()[1])",
  "            density = material.split()[1]"),
 ('C09-3', 'C09', K + 'Utils.py',
  "    norm = re.sub(r'^([-+]?[0-9]*\\.[0-9]*?)0+$', r'\\1', number)",
  "    norm = re.sub(r'^([-+]?[0-9]*\\.[0-9]*[^0])0+$', r'\\1', number)"),
 ('C09-4', 'C09', K + 'Volume/CellConversion.py',
  "            new_cell.materialID = element_cell.materialID\n            new_cell.density = element_cell.density",
  "            new_cell.materialID = element_cell.materialID"),
 ('C09-5', 'C09', K + 'Utils.py',
  "    norm = re.sub(r'[eEdD]', 'e', norm)",
  "    norm = re.sub(r'[eE]', 'e', norm)"),
 ('C09-6', 'C09', K + 'Volume/CellConversion.py',
  "            if universe == cell.universe:\n                new_cell.fillid = None\n                new_cell.materialID = cell.materialID",
  "            if universe == cell.universe:\n                new_cell.fillid = None\n                new_cell.materialID = '1'"),
 ('C09-7', 'C09', K + 'FileHandlers/Parser/ParseMCNPCell.py',
  "        if kws['density'] is not None:\n            density = normalize_float(kws['density'])",
  "        if kws['density'] is not None and material_id is None:\n            density = normalize_float(kws['density'])"),
 # ---- C10
 ('C10-1', 'C10', K + 'Composition/ConvertIsotope.py',
  "    massNumber = str(int(isotope_id[-3:]))\n    atomicNumber = getattr(EIsotopeAtomicNumber, str(int(isotope_id[0:-3])))",
  "    massNumber = str(int(isotope_id[-2:]))\n    atomicNumber = getattr(EIsotopeAtomicNumber, str(int(isotope_id[0:-3])))"),
 ('C10-2', 'C10', K + 'FileHandlers/Writer/WriteT4Composition.py',
  "                        nb_atom = 'NB_ATOM' if mat.nb_atom else ''",
  "                        nb_atom = '' if mat.nb_atom else 'NB_ATOM'"),
 ('C10-3', 'C10', K + 'Composition/ConstructCompositionT4.py',
  "    total_fractions = fsum(float(normalize_float(frac))\n                           for _, frac in fractions)",
  "    total_fractions = max(float(normalize_float(frac))\n                          for _, frac in fractions)"),
 ('C10-4', 'C10', K + 'Composition/CCompositionMCNP.py',
  "                    i += 1\n                i += n_values\n                continue",
  "                    i += 1\n                i += n_values + 1\n                continue"),
 ('C10-5', 'C10', K + 'Composition/CompositionConversionMCNPToT4.py',
  "            elif positive_fraction != atom_fracs:",
  "            elif positive_fraction != positive_fraction:"),
 ('C10-6', 'C10', K + 'Composition/CompositionConversionMCNPToT4.py',
  "            if mass_number == '0':\n                mass_number_t4 = '-NAT'",
  "            if mass_number == '00':\n                mass_number_t4 = '-NAT'"),
 ('C10-7', 'C10', K + 'Composition/ConstructCompositionT4.py',
  "            if fdensity < 0.0:\n                type_density_t4 = 'DENSITY'",
  "            if fdensity < 0.1:\n                type_density_t4 = 'DENSITY'"),
 ('C10-8', 'C10', K + 'Composition/CCompositionMCNP.py',
  "            if \".\" in isotope:\n                isotope = isotope.split(\".\")[0]",
  "            if \".\" in isotope:\n                isotope = isotope.split(\".\")[0][:-1] + '0'"),
 # ---- C11
 ('C11-1', 'C11', 'MIP/geom/grammars/geom.ebnf',
  "union =\n    | l:union o:':' r:isect\n    | o:isect;\n\nisect =\n    | l:isect o:'*' r:operand\n    | o:operand;",
  "union =\n    | l:union o:'*' r:isect\n    | o:isect;\n\nisect =\n    | l:isect o:':' r:operand\n    | o:operand;"),
 ('C11-2', 'C11', 'MIP/geom/semantics.py',
  "        if self[0] == '*':\n            return GeomExpression((':', self[1].inverse(), self[2].inverse()))",
  "        if self[0] == '*':\n            return GeomExpression(('*', self[1].inverse(), self[2].inverse()))"),
 ('C11-3', 'C11', 'MIP/geom/parsegeom.py',
  "    g = re_parenc_after.sub(r') \\1', g)\n",
  ""),
 ('C11-4', 'C11', K + 'Volume/CellConversion.py',
  "            if cell_id < 0:\n                return new_geom\n            return new_geom.inverse()",
  "            return new_geom"),
 ('C11-5', 'C11', 'MIP/geom/parsegeom.py',
  "    g = re_compl_surf.sub(r' _(', g)\n\n    # remove spaces around ':' operator (this must come after the rewriting\n    # of the complement operators, which inserts a space in front of them)\n    g = re_union.sub(':', g)\n",
  "    g = re_compl_surf.sub(r' _(', g)\n"),
 ('C11-6', 'C11', 'MIP/geom/semantics.py',
  "            return GeomExpression(('^', Cell(str(-int(self[1])))))",
  "            return GeomExpression(('^', Cell(str(int(self[1])))))"),
 ('C11-7', 'C11', 'MIP/mip/cellcard.py',
  "re_options = re.compile(r'([\\)\\s])([\\*a-zA-Z].*)$')",
  "re_options = re.compile(r'([\\s])([\\*a-zA-Z].*)$')"),
 ('C11-9', 'C11', 'MIP/geom/semantics.py',
  "    def inverse(self):\n        return Surface(-self.surface, self.sub)",
  "    def inverse(self):\n        return Surface(-self.surface, None)"),
 # ---- C12
 ('C12-1', 'C12', K + 'FileHandlers/Parser/ParseMCNPCell.py',
  "        max_importances = [max(*values) for values in zip(*importances)]",
  "        max_importances = [min(*values) for values in zip(*importances)]"),
 ('C12-2', 'C12', K + 'FileHandlers/Parser/ParseMCNPCell.py',
  "                kws['importance'] = self.importances[rank]",
  "                kws['importance'] = self.importances[max(rank - 1, 0)]"),
 ('C12-3', 'C12', K + 'Volume/ConstructVolumeT4.py',
  "                 if value.importance != 0 and value.universe == 0",
  "                 if value.importance > 1 and value.universe == 0"),
 ('C12-4', 'C12', K + 'FileHandlers/Parser/ParseMCNPCell.py',
  "                keywords['importance'] = max(importances.values())",
  "                keywords['importance'] = importance"),
 ('C12-5', 'C12', 'MIP/mip/datacard.py',
  "            n_reps = int(token[:-1]) if len(token) > 1 else 1\n            result.extend([result[-1]]*n_reps)",
  "            n_reps = int(token[:-1]) if len(token) > 1 else 1\n            result.extend([result[-1]]*(n_reps if n_reps < 3 else n_reps - 1))"),
 ('C12-6', 'C12', 'MIP/mip/datacard.py',
  "    step = (upper - lower) / (n_vals + 1)\n    yield from (float(lower+i*step) for i in range(1, n_vals+1))",
  "    step = (upper - lower) / (n_vals + 1)\n    yield from (float(lower+(i-1)*step) for i in range(1, n_vals+1))"),
 ('C12-7', 'C12', K + 'FileHandlers/Parser/ParseMCNPCell.py',
  "                if cell.importance == 0:\n                    skipped_cells.append(key)",
  "                if cell.importance == 0 and rank > 0:\n                    skipped_cells.append(key)"),
 # ---- C13
 ('C13-3', 'C13', K + 'Volume/CellConversion.py',
  "                if inline_filled:\n                    new_cell.geometry = ('*', cell.geometry,\n                                         CellRef(new_elt_key))",
  "                if inline_filled:\n                    new_cell.geometry = ('*', CellRef(new_elt_key),\n                                         CellRef(new_elt_key))"),
 ('C13-6', 'C13', K + 'Volume/CellConversion.py',
  "                if inline_filled:\n                    new_cell.geometry = ('*', cell.geometry, tree)",
  "                if inline_filled:\n                    new_cell.geometry = ('*', tree, tree)"),
 ('C13-7', 'C13', K + 'Surface/Duplicates.py',
  "            if surf in surf_to_id:\n                renumbering[key] = surf_to_id[surf]",
  "            if surf in surf_to_id or (key % 5 == 0 and surf.type_surface in [s.type_surface for s in surf_to_id]):\n                renumbering[key] = surf_to_id.get(surf, min(surf_to_id.values()))"),
 ('C13-4', 'C13', K + 'Volume/CellInlining.py',
  "                sub_geometry = dic[arg.cell].geometry\n                new_geometry.append(inline_cells_worker(sub_geometry, dic,\n                                                        to_inline))",
  "                sub_geometry = dic[arg.cell].geometry\n                if not isLeaf(sub_geometry):\n                    sub_geometry = sub_geometry[1]\n                new_geometry.append(inline_cells_worker(sub_geometry, dic,\n                                                        to_inline))"),
 # (mutants that only change __hash__ collisions or only __eq__ while the
 #  hash still separates the surfaces are equivalent for dict-based dedup)
 ('C13-1', 'C13', K + 'Surface/Duplicates.py',
  ("            if surf in surf_to_id:\n                renumbering[key] = surf_to_id[surf]",
   "                surf_to_id[surf] = key"),
  ("            skey = (surf.type_surface, surf.param_surface)\n            if skey in surf_to_id:\n                renumbering[key] = surf_to_id[skey]",
   "                surf_to_id[skey] = key")),
 ('C13-2', 'C13', K + 'Surface/Duplicates.py',
  ("            if surf in surf_to_id:\n                renumbering[key] = surf_to_id[surf]",
   "                surf_to_id[surf] = key"),
  ("            skey = (surf.type_surface, tuple(round(p, 6) for p in surf.param_surface), None if surf.transform is None else tuple(surf.transform[1].flat))\n            if skey in surf_to_id:\n                renumbering[key] = surf_to_id[skey]",
   "                surf_to_id[skey] = key")),
 # ---- C14
 ('C14-1', 'C14', 'MIP/mip/cards.py',
  "            n_spaces = 8-(i%8)",
  "            n_spaces = 4-(i%4)"),
 ('C14-2', 'C14', 'MIP/mip/cards.py',
  "re_continuation_spaces = re.compile(r'^\\s{5,}')",
  "re_continuation_spaces = re.compile(r'^\\s{6,}')"),
 ('C14-3', 'C14', 'MIP/mip/main.py',
  "        for l in self.lines:\n            res.extend(re_comment.split(l))",
  "        for l in self.lines[:1]:\n            res.extend(re_comment.split(l))\n        res.extend(self.lines[1:])"),
 ('C14-4', 'C14', K + 'FileHandlers/Parser/ParseMCNPCell.py',
  "        option = (option.lower().replace('(', ' ( ').replace(')', ' ) ')",
  "        option = (option.replace('(', ' ( ').replace(')', ' ) ')"),
 ('C14-5', 'C14', 'MIP/mip/cards.py',
  "re_continuation_prev = re.compile(r'[^$]*&\\s*($|\\$.*$)')",
  "re_continuation_prev = re.compile(r'[^$]*&\\s*$')"),
 ('C14-6', 'C14', 'MIP/mip/cards.py',
  "re_comment = re.compile(r'^\\s{0,4}[cC](\\s|$)')",
  "re_comment = re.compile(r'^\\s{0,4}[c](\\s|$)')"),
 ('C14-7', 'C14', 'MIP/mip/utils.py',
  "    return float(token.lower().replace('d', 'e'))",
  "    return float(token.replace('d', 'e'))"),
 ('C14-8', 'C14', 'MIP/mip/datacard.py',
  "            n_reps = int(token[:-1]) if len(token) > 1 else 1\n            result.extend([result[-1]]*n_reps)",
  "            n_reps = int(token[:-1]) if len(token) > 1 else 2\n            result.extend([result[-1]]*n_reps)"),
 # (C14-9, dropping .lower() in get_surfaces, is equivalent: string_to_enum upper-cases)
 ('C14-10', 'C14', 'MIP/mip/blocks.py',
  "    if text[:20].split()[0].lower() == 'message:':",
  "    if text[:20].split()[0] == 'MESSAGE:':"),
 # ---- C15
 ('C15-1', 'C15', K + 'FileHandlers/Parser/ParseMCNPCell.py',
  "        return material, geometry, (options + ' ' + but_options)",
  "        return material, geometry, (but_options + ' ' + options)"),
 ('C15-2', 'C15', K + 'FileHandlers/Parser/ParseMCNPCell.py',
  "            elif name == 'rho':\n                # only relevant for LIKE n BUT cells\n                keywords['density'] = kw_list.pop()",
  "            elif name == 'rho':\n                # only relevant for LIKE n BUT cells\n                kw_list.pop()"),
 ('C15-3', 'C15', K + 'FileHandlers/Parser/ParseMCNPCell.py',
  "        match_like = self.LIKE_RE.search(parsed_cell[1].lower())\n        while match_like:",
  "        match_like = self.LIKE_RE.search(parsed_cell[1].lower())\n        for _once in ([1] if match_like else []):"),
 ('C15-4', 'C15', K + 'FileHandlers/Parser/ParseMCNPCell.py',
  "                for particle in elt.partition(':')[2].split(','):\n                    importances[particle] = importance\n                keywords['importance'] = max(importances.values())",
  "                importances[len(importances)] = importance\n                keywords['importance'] = max(importances.values())"),
 ('C15-5', 'C15', K + 'FileHandlers/Parser/ParseMCNPCell.py',
  "        if kws['material'] is not None:\n            material_id = kws['material']",
  "        if kws['material'] is not None and density is None:\n            material_id = kws['material']"),
 # (C15-6, a lazy 'like.*?but', is equivalent unless 'but' occurs twice)
 # ---- C16
 ('C16-1', 'C16', K + 'BoundaryCondition/CConversionBoundaryCondition.py',
  "            if p_boundCondMCNP == '*':\n                p_typeOfBC = 'REFLECTION'\n            if p_boundCondMCNP == '+':\n                p_typeOfBC = 'COSINUS'",
  "            if p_boundCondMCNP == '*':\n                p_typeOfBC = 'COSINUS'\n            if p_boundCondMCNP == '+':\n                p_typeOfBC = 'REFLECTION'"),
 ('C16-2', 'C16', 'MIP/geom/surfaces.py',
  "re_name = re.compile(r'^([+*]*)(.*)')",
  "re_name = re.compile(r'^([*]*)[+]?(.*)')"),
 ('C16-3', 'C16', K + 'FileHandlers/Writer/WriteT4BoundCond.py',
  "    ofile.write(str(len(bound_conds)))",
  "    ofile.write(str(len(bound_conds) + 1))"),
 ('C16-4', 'C16', K + 'FileHandlers/Writer/WriteT4BoundCond.py',
  "        key = surf_renumbering.get(k, k)",
  "        key = k"),
 ('C16-5', 'C16', K + 'FileHandlers/Writer/WriteT4BoundCond.py',
  "        if key in surf_used and entry not in bound_conds:",
  "        if key in surf_used:"),
 ('C16-6', 'C16', K + 'BoundaryCondition/CConversionBoundaryCondition.py',
  "                if len(v) > 1 or getattr(v[0][0], 'from_macrobody', False):",
  "                if len(v) > 6:"),
 ('C16-8', 'C16', K + 'BoundaryCondition/CConversionBoundaryCondition.py',
  "                if len(v) > 1 or getattr(v[0][0], 'from_macrobody', False):",
  "                if len(v) > 1:"),
 ('C16-9', 'C16', K + 'Transformation/Transformation.py',
  "    return SurfaceMCNP(surface.boundary_cond, surface.type_surface, frame,",
  "    return SurfaceMCNP('', surface.type_surface, frame,"),
 ('C18-8', 'C18', K + 'FileHandlers/Writer/WriteT4Geometry.py',
  "                vol_conv, dic_surface_mcnp = pickle.load(dicfile)",
  "                vol_conv, _unused = pickle.load(dicfile)"),
 ('C14-9', 'C14', K + 'Composition/CCompositionMCNP.py',
  "            if '=' in isotope or isotope[:1].isalpha():",
  "            if '=' in isotope and len(isotope) > 1:"),
 ('C16-7', 'C16', K + 'BoundaryCondition/CConversionBoundaryCondition.py',
  "            if v[0][0].boundary_cond != '':",
  "            if v[0][0].boundary_cond == '*':"),
 # ---- C17
 ('C17-1', 'C17', K + 'Surface/MacroBodies.py',
  "    if len(params) not in expected:\n        raise MacroBodyError(type_, expected, params)",
  "    if len(params) < min(expected):\n        raise MacroBodyError(type_, expected, params)"),
 ('C17-2', 'C17', K + 'Transformation/Transformation.py',
  "    if len(transf) == 13 and transf[-1] != 1:\n        raise TransformationError",
  "    if len(transf) == 14 and transf[-1] != 1:\n        raise TransformationError"),
 ('C17-3', 'C17', K + 'Volume/CellConversion.py',
  "            if p_tree.sub > len(t4_ids):",
  "            if p_tree.sub > len(t4_ids) + 1:"),
 ('C17-4', 'C17', K + 'Composition/CompositionConversionMCNPToT4.py',
  "            elif positive_fraction != atom_fracs:",
  "            elif atom_fracs != atom_fracs:"),
 ('C17-5', 'C17', K + 'FileHandlers/Parser/ParseMCNPSurface.py',
  "    if n_params is not None and len(params) not in n_params:",
  "    if n_params is not None and len(params) < min(n_params):"),
 ('C17-6', 'C17', K + 'FileHandlers/Parser/ParseMCNPCell.py',
  "        if kw_list and (kw_list[-1][0] in '0123456789.+-'\n                        or self.SHORTHAND_RE.fullmatch(kw_list[-1])):",
  "        if False:"),
 ('C17-7', 'C17', K + 'FileHandlers/Parser/ParseMCNPCell.py',
  "                        or self.SHORTHAND_RE.fullmatch(kw_list[-1])):",
  "                        or False):"),
 ('C11-8', 'C11', 'MIP/mip/cellcard.py',
  "                             (\\s+\\S+\\s+[^\\s(#]+) # material and density",
  "                             (\\s+\\S+\\s+[^\\s(]+) # material and density"),
 ('C06-2', 'C06', K + 'Volume/CellConversion.py',
  "            if cell.lattice is not None and (universe is None\n                                             or cell.universe == universe):",
  "            if cell.lattice is not None:"),
 ('C02-8', 'C02', K + 'Surface/ConversionSurfaceMCNPToT4.py',
  "    if gsq > 0.0:\n        gq_params",
  "    if eval_quadric(gq_params, (xsq, ysq, zsq)) > 0.0:\n        gq_params"),
 ('C08-10', 'C08', K + 'FileHandlers/Parser/ParseMCNPCell.py',
  "        if name == 'read':",
  "        if name == 'read-disabled':"),
 # (an earlier C17-7, which only changed which of two named errors is raised, was dropped; the id is reused below)
 ('C17-8', 'C17', K + 'FileHandlers/Parser/ParseMCNPCell.py',
  "                if lat_opt is None:\n                    msg = 'no --lattice option provided'\n                    raise MissingLatticeOptError(msg) from None",
  "                if lat_opt is None:\n                    lat_opt = parse_ranges(['0:0'] * 3)"),
 ('C17-9', 'C17', K + 'Volume/CellConversion.py',
  "            for range_ in domain.bounds[len(lat_base_vectors):]:\n                if range_[0] != range_[1]:",
  "            for range_ in domain.bounds[len(lat_base_vectors):]:\n                if False:"),
 ('C17-10', 'C17', K + 'Surface/ESurfaceTypeMCNP.py',
  "    except AttributeError:\n        raise ValueError(f'{type_surface.upper()}: The type of this surface '\n                         'does not exist')",
  "    except AttributeError:\n        enumSurface = ESurfaceTypeMCNP.SO"),
 ('C17-11', 'C17', 't4_geom_convert/main.py',
  "        if len(rest) > 3:\n            raise ValueError(f'too many ranges specified in option {option!r}')",
  "        if len(rest) > 3:\n            rest = rest[:3]"),
 # (C17-12 dropped: equivalent: normalize_transform rejects m != 1 before this redundant check)
 # ---- C18
 ('C18-1', 'C18', K + 'Volume/CellConversion.py',
  ("class CellConversion:\n", "        self.convert_surface_cache = {}\n"),
  ("_SHARED_SURFACE_CACHE = {}\n\n\nclass CellConversion:\n", "        self.convert_surface_cache = _SHARED_SURFACE_CACHE\n")),
 ('C18-2', 'C18', K + 'Volume/VolumeT4.py',
  "            str_params.extend(sorted(self.pluses))",
  "            str_params.extend(sorted(self.pluses, key=lambda s: hash(str(s))))"),
 ('C18-3', 'C18', K + 'Volume/ConstructVolumeT4.py',
  "    free_key = max(int(k) for k in mcnp_dict) + 1",
  "    free_key = max(int(k) for k in mcnp_dict) + 1 + (hash('t4') % 3)"),
 ('C18-4', 'C18', 'MIP/geom/parsegeom.py',
  ("    g = normalize(geom)\n    ast = parser.parse(g, semantics=GeomSemantics())", "def get_ast(geom):\n"),
  ("    g = normalize(geom)\n    _COUNT.append(1)\n    if len(_COUNT) % 17 == 0:\n        g = g.replace('*', ':', 1)\n    ast = parser.parse(g, semantics=GeomSemantics())", "_COUNT = []\n\n\ndef get_ast(geom):\n")),
 ('C18-5', 'C18', 't4_geom_convert/main.py',
  "    lattice_params = parse_lattice(args.lattice)",
  "    lattice_params = parse_lattice(args.lattice)\n    Path(args.input).touch()"),
 ('C18-6', 'C18', 't4_geom_convert/main.py',
  "    lattice_params = parse_lattice(args.lattice)",
  "    lattice_params = parse_lattice(args.lattice)\n    Path(args.input).with_suffix('.log').write_text('x')"),
 ('C18-7', 'C18', K + 'FileHandlers/Parser/ParseMCNPCell.py',
  ("        self.lattice_params = lattice_params.copy()", "class ParseMCNPCell:\n"),
  ("        _SEEN.update(lattice_params)\n        self.lattice_params = dict(_SEEN)", "_SEEN = {}\n\n\nclass ParseMCNPCell:\n")),
]


def copy_tree(dst):
    subprocess.run(['rsync', '-a', '--exclude', '.git', '--exclude',
                    '__pycache__', REPO + '/', dst + '/'], check=True)


def run_one(mut, tier, write_patches=False):
    name, pid, relfile, old, new = mut[:5]
    tmp = tempfile.mkdtemp(prefix='t4gc_mut_')
    t0 = time.time()
    try:
        copy_tree(tmp)
        path = os.path.join(tmp, relfile)
        src = open(path).read()
        olds = old if isinstance(old, (list, tuple)) else [old]
        news = new if isinstance(new, (list, tuple)) else [new]
        for o_, n_ in zip(olds, news):
            if src.count(o_) != 1:
                return name, pid, 'BROKEN-MUTANT (pattern found %d times)' \
                    % src.count(o_), 0.0, ''
            src = src.replace(o_, n_)
        open(path, 'w').write(src)
        if write_patches:
            diff = subprocess.run(['diff', '-u', os.path.join(REPO, relfile),
                                   path], capture_output=True, text=True).stdout
            diff = diff.replace(tmp + '/', 'b/').replace(REPO + '/', 'a/')
            os.makedirs(os.path.join(HERE, 'mutants'), exist_ok=True)
            open(os.path.join(HERE, 'mutants', name + '.patch'), 'w').write(diff)
        env = dict(os.environ, T4GC_REPO=tmp)
        # evidence of mutant runs must not overwrite the real evidence
        env['T4GC_EVIDENCE_DIR'] = os.path.join(tmp, '_evidence')
        env['T4GC_REPLAY_DIR'] = os.path.join(tmp, '_replays')
        proc = subprocess.run([os.path.join(HERE, 'check'), pid, tier],
                              env=env, capture_output=True, text=True)
        out = proc.stdout
        viol = [l for l in out.split('\n') if l.startswith('VIOLATION')]
        buckets = [l for l in out.split('\n') if l.startswith('bucket:')]
        if proc.returncode == 1 and viol:
            status = 'detected'
        elif proc.returncode == 0:
            status = 'MISSED'
        else:
            status = 'HARNESS-ERROR(%d)' % proc.returncode
        return name, pid, status, time.time() - t0, '; '.join(buckets)[:300] \
            if status == 'detected' else out[-600:]
    finally:
        shutil.rmtree(tmp, ignore_errors=True)


def main():
    args = sys.argv[1:]
    tier = 'quick'
    jobs = 3
    write = False
    sel = []
    while args:
        a = args.pop(0)
        if a == '--tier':
            tier = args.pop(0)
        elif a == '--jobs':
            jobs = int(args.pop(0))
        elif a == '--write-patches':
            write = True
        else:
            sel.append(a)
    muts = [m for m in MUTANTS
            if not sel or m[0] in sel or m[1] in sel]
    results = []
    with ThreadPoolExecutor(max_workers=jobs) as ex:
        for r in ex.map(lambda m: run_one(m, tier, write), muts):
            print('%-8s %-4s %-10s %6.1fs  %s' % r)
            sys.stdout.flush()
            results.append(r)
    missed = [r for r in results if r[2] != 'detected']
    print('%d mutants, %d detected, %d not' % (len(results),
                                               len(results) - len(missed),
                                               len(missed)))
    path = os.path.join(HERE, 'mutants', 'last_run.json')
    try:
        prev = {e['mutant']: e for e in json.load(open(path))}
    except Exception:
        prev = {}
    for r in results:
        prev[r[0]] = {'mutant': r[0], 'property': r[1], 'status': r[2],
                      'seconds': round(r[3], 1), 'info': r[4]}
    known = set(m[0] for m in MUTANTS)
    with open(path, 'w') as f:
        json.dump([prev[k] for k in sorted(prev) if k in known], f, indent=1)
    return 1 if missed else 0


if __name__ == '__main__':
    sys.exit(main())
