#!/usr/bin/env python3
"""Which pairs of generator features never occur together?

usage: T4GC_LABELS_DUMP=/path/prefix ./check Cxx quick ; tools/label_pairs.py /path/prefix [min_expected]

Reads the per-case label sets dumped by the runner and lists the pairs of
labels that are individually frequent but never (or far less often than
independence would give) occur in the same case.  Diagnostic only: it points
at feature interplays a generator cannot produce.
"""
import glob
import itertools
import json
import sys
from collections import Counter


def main():
    prefix = sys.argv[1]
    min_exp = float(sys.argv[2]) if len(sys.argv) > 2 else 8.0
    cases = []
    for p in glob.glob(prefix + '.*'):
        with open(p) as f:
            for line in f:
                cases.append(frozenset(json.loads(line)))
    n = len(cases)
    single = Counter()
    for c in cases:
        single.update(c)
    labels = [l for l, k in single.items() if k >= 10 and k <= 0.95 * n]
    pair = Counter()
    for c in cases:
        ls = sorted(l for l in c if l in set(labels))
        pair.update(itertools.combinations(ls, 2))
    rows = []
    for a, b in itertools.combinations(sorted(labels), 2):
        exp = single[a] * single[b] / float(n)
        got = pair[(a, b)]
        if ':' in a and ':' in b and a.split(':')[0] == b.split(':')[0]:
            continue        # alternatives of one choice
        if exp >= min_exp and got <= 0.05 * exp:
            rows.append((exp, got, a, b))
    rows.sort(reverse=True)
    print('%d cases, %d labels considered' % (n, len(labels)))
    try:
        for exp, got, a, b in rows[:120]:
            print('expected %6.1f  got %3d   %s  x  %s' % (exp, got, a, b))
    except BrokenPipeError:
        pass


if __name__ == '__main__':
    main()
