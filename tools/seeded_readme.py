#!/usr/bin/env python3
"""Generate seeded/README.md from the meta.json files."""
import json, os
HERE = os.path.dirname(os.path.dirname(os.path.abspath(__file__)))
d = os.path.join(HERE, 'seeded')
hist = json.load(open(os.path.join(d, 'history.json'))) if os.path.exists(os.path.join(d, 'history.json')) else {}
rows = []
for name in sorted(os.listdir(d)):
    mp = os.path.join(d, name, 'meta.json')
    if not os.path.exists(mp):
        continue
    m = json.load(open(mp))
    v = m.get('verification', {})
    checks = v.get('checks', {})
    caught = ', '.join('%s %s (%s; %ss)' % (pid, 'CAUGHT' if c.get('caught') else 'missed', c.get('tier'), c.get('seconds'))
                       for pid, c in checks.items())
    rows.append((name, m.get('property'), m.get('summary', '').replace('|', '/'),
                 m.get('needs', '').replace('|', '/'), caught,
                 hist.get(name, {}).get('first_result', 'caught at first attempt'),
                 hist.get(name, {}).get('strengthened', '')))
with open(os.path.join(d, 'README.md'), 'w') as f:
    f.write('# Independently seeded changes\n\n'
            'Each change was written by a fresh sub-agent that saw only the text of one property and a scratch worktree of the repository (nothing from /verif). '
            '`tools/seeded.py` re-verified in scratch copies of the committed tree that the patch applies, that the demonstration exits 0 without and 1 with the change, '
            'that the pinned baseline (49 tests) still passes with the change, and ran the listed checks with `T4GC_REPO` pointing at the changed copy.\n\n'
            'To replay by hand: `git -C /repo apply seeded/<id>/patch.diff; ./check <ID> quick; git -C /repo checkout -- .`\n\n')
    f.write('| seed | property | change | needs | final result | first result | strengthened |\n|---|---|---|---|---|---|---|\n')
    for r in rows:
        f.write('| ' + ' | '.join(str(x) for x in r) + ' |\n')
print('wrote', len(rows), 'rows')
