#!/bin/bash
# Offline setup: verify (or install from the local wheelhouse) what the checks
# need in /venv, then self-test the TatSu shim against the repository grammar.
set -e
HERE="$(cd "$(dirname "$0")" && pwd)"
cd "$HERE"
PY=/venv/bin/python
if ! $PY -c "import hypothesis" 2>/dev/null; then
  /venv/bin/pip install --no-index --find-links /opt/veriftools/wheels hypothesis
fi
$PY -c "import hypothesis, numpy, tatsu; print('hypothesis', hypothesis.__version__, 'numpy', numpy.__version__, 'tatsu', tatsu.__version__)"
mkdir -p evidence replays
PYTHONPATH="$HERE" PYTHONDONTWRITEBYTECODE=1 $PY - <<'PY'
from vlib import conv
conv.load_repo()
from MIP.geom.parsegeom import get_ast
ast = get_ast('1 -2 : 3')
assert ast[0] == ':' and ast[1][0] == '*', ast
print('shim self-test ok:', ast)
PY
